"""Unit drivers for CFDP LV / TLV items (DESIGN.md 3.1).  Recipes are plain JSON-able
dicts; octet strings travel as "hex:.." strings (mc.rec.jsonable's encoding) and are
accepted as bytes too, file names as str.

recipe keys
  CfdpLv                   {"v": octets}
  CfdpTlv                  {"t": type octet, "v": octets}
  EntityIdTlv              {"id": octets (1, 2, 4 or 8)}
  FlowLabelTlv             {"v": octets}
  FaultHandlerOverrideTlv  {"cc": condition code 0..15, "hc": handler code 0..15}
  FileStoreRequestTlv      {"a": action code, "n1": str, "n2": str}
  FileStoreResponseTlv     {"a": action code, "s": 4-bit status, "n1": str, "n2": str, "msg": octets}
  MessageToUserTlv         {"v": octets}
"""

from __future__ import annotations

from mc import domains as D
from ref import tlv as R
from units.base import Unit


def hx(b) -> str:
    return "hex:" + bytes(b).hex()


def bt(x) -> bytes:
    """recipe octets ("hex:.." or bytes-like) -> bytes"""
    if isinstance(x, str):
        if not x.startswith("hex:"):
            raise AssertionError("octet strings in recipes are 'hex:..' strings: %r" % (x,))
        return bytes.fromhex(x[4:])
    return bytes(x)


def _lib():
    import spacepackets.cfdp.tlv as tlv
    from spacepackets.cfdp.lv import CfdpLv
    from spacepackets.cfdp.defs import ConditionCode, FaultHandlerCode
    from spacepackets.cfdp.exceptions import TlvTypeMissmatch

    return tlv, CfdpLv, ConditionCode, FaultHandlerCode, TlvTypeMissmatch


def documented_errors():
    return (ValueError, _lib()[4])  # BytesTooShortError and UnicodeDecodeError are ValueErrors


def enum_or_int(enum_cls, v):
    """the enum member when the enum defines the value, else the bare int (the classes
    only do integer arithmetic on it)"""
    try:
        return enum_cls(v)
    except ValueError:
        return v


def enum_status_codes(action: int):
    """4-bit status codes the library's FilestoreResponseStatusCode enum defines for an
    action code (canonical members and aliases alike), ascending"""
    tlv = _lib()[0]
    out = set()
    for m in tlv.FilestoreResponseStatusCode.__members__.values():
        v = int(m)
        if v >= 0 and (v >> 4) == action:
            out.add(v & 0x0F)
    return sorted(out)


CONDITION_CODES = (0, 1, 2, 3, 4, 5, 6, 7, 8, 10, 11, 14, 15)  # 727.0-B-5 table 5-5
HANDLER_CODES = (1, 2, 3, 4)  # table 5-19
LONG_ASCII = "d/" + "n" * 120
LONG_UTF8 = "ü" * 60  # 60 characters, 120 octets


class _TlvUnit(Unit):
    self_delimiting = True
    cls_name = "?"

    @property
    def documented(self):
        return documented_errors()

    def _cls(self):
        return getattr(_lib()[0], self.cls_name)

    def decoders(self):
        cls = self._cls()
        gen = _lib()[0].CfdpTlv
        return [
            (self.cls_name + ".unpack", lambda b, recipe=None: cls.unpack(b)),
            (self.cls_name + ".from_tlv", lambda b, recipe=None: cls.from_tlv(gen.unpack(b))),
        ]

    def declared_len(self, obj) -> int:
        return obj.packet_len

    def length_bits(self, raw) -> set:
        return set(range(8, 16))


# ------------------------------------------------------------------------------- CfdpLv
class LvUnit(Unit):
    name = "CfdpLv"
    self_delimiting = True

    @property
    def documented(self):
        return documented_errors()

    def corpus(self, tier):
        vals = [b"", b"\x00", b"\xff", b"\x01\x00", b"a", "名/x".encode(), bytes(range(16)), b"\x02\x01\x00", b"\x55" * 127, b"\xaa" * 128,
                bytes(range(254)), bytes(255), b"\xff" * 255, bytes(i & 0xFF for i in range(255, 0, -1))]
        if tier != "quick":
            vals += [bytes([L]) * L for L in (2, 3, 7, 8, 63, 64, 65, 200, 253)]
        return [{"v": hx(v)} for v in D.dedupe(vals)]

    def build(self, recipe):
        return _lib()[1](bt(recipe["v"]))

    def ref(self, recipe):
        return R.lv(bt(recipe["v"]))

    def decoders(self):
        lv = _lib()[1]
        return [("CfdpLv.unpack", lambda b, recipe=None: lv.unpack(b))]

    def observe(self, obj):
        return (bytes(obj.value), int(obj.value_len))

    def expected(self, recipe):
        v = bt(recipe["v"])
        return (v, len(v))

    def repro(self, recipe):
        return f"CfdpLv(bytes.fromhex('{bt(recipe['v']).hex()}'))"

    def length_bits(self, raw):
        return set(range(0, 8))


# ------------------------------------------------------------------------------ CfdpTlv
class GenericTlvUnit(_TlvUnit):
    name = "CfdpTlv"
    cls_name = "CfdpTlv"

    def corpus(self, tier):
        out = []
        vals = [b"", b"\x00", b"\xff\x00", bytes(range(9)), b"\x06\x01\x07", bytes(255), bytes(i & 0xFF for i in range(255))]
        for i, t in enumerate(R.DEFINED_TYPES):
            for j, v in enumerate(vals):
                if tier != "quick" or j in (0, (i % 3) + 1, 4 + (i % 3)):
                    out.append({"t": t, "v": hx(v)})
        return out

    def build(self, recipe):
        tlv = _lib()[0]
        return tlv.CfdpTlv(enum_or_int(tlv.TlvType, recipe["t"]), bt(recipe["v"]))

    def ref(self, recipe):
        return R.tlv(recipe["t"], bt(recipe["v"]))

    def decoders(self):
        gen = _lib()[0].CfdpTlv
        return [("CfdpTlv.unpack", lambda b, recipe=None: gen.unpack(b))]

    def observe(self, obj):
        return (int(obj.tlv_type), bytes(obj.value))

    def expected(self, recipe):
        return (recipe["t"], bt(recipe["v"]))

    def repro(self, recipe):
        return f"CfdpTlv(TlvType({recipe['t']}), bytes.fromhex('{bt(recipe['v']).hex()}'))"


# -------------------------------------------------------------------------- EntityIdTlv
class EntityIdUnit(_TlvUnit):
    name = "EntityIdTlv"
    cls_name = "EntityIdTlv"

    def corpus(self, tier):
        out = []
        for w in (1, 2, 4, 8):
            vals = [0, 1, (1 << (8 * w)) - 1, D.alt(8 * w, False), int.from_bytes(bytes(range(0x11, 0x11 + w)), "big")]
            if tier != "quick":
                vals += [1 << (8 * w - 1), (1 << (8 * w)) - 2, D.alt(8 * w, True)]
            for v in D.dedupe(vals):
                out.append({"id": hx(v.to_bytes(w, "big"))})
        return out

    def build(self, recipe):
        return self._cls()(bt(recipe["id"]))

    def ref(self, recipe):
        return R.entity_id_tlv(bt(recipe["id"]))

    def observe(self, obj):
        return (int(obj.tlv_type), bytes(obj.value))

    def expected(self, recipe):
        return (R.T_ENTITY_ID, bt(recipe["id"]))

    def repro(self, recipe):
        return f"EntityIdTlv(bytes.fromhex('{bt(recipe['id']).hex()}'))"


# ------------------------------------------------------------------------- FlowLabelTlv
class FlowLabelUnit(_TlvUnit):
    name = "FlowLabelTlv"
    cls_name = "FlowLabelTlv"

    def corpus(self, tier):
        vals = [b"", b"\x00", b"\xff", b"\x05\x00", b"xy", bytes(range(17)), b"\x05\x01\x00\x05", b"\xaa" * 128, bytes(255), bytes(i & 0xFF for i in range(255))]
        if tier != "quick":
            vals += [bytes([L]) * L for L in (3, 4, 64, 127, 254)]
        return [{"v": hx(v)} for v in vals]

    def build(self, recipe):
        return self._cls()(bt(recipe["v"]))

    def ref(self, recipe):
        return R.flow_label_tlv(bt(recipe["v"]))

    def observe(self, obj):
        return (int(obj.tlv_type), bytes(obj.value))

    def expected(self, recipe):
        return (R.T_FLOW_LABEL, bt(recipe["v"]))

    def repro(self, recipe):
        return f"FlowLabelTlv(bytes.fromhex('{bt(recipe['v']).hex()}'))"


# -------------------------------------------------------------- FaultHandlerOverrideTlv
class FaultHandlerUnit(_TlvUnit):
    name = "FaultHandlerOverrideTlv"
    cls_name = "FaultHandlerOverrideTlv"

    def corpus(self, tier):
        if tier == "quick":
            pairs = [(cc, HANDLER_CODES[i % 4]) for i, cc in enumerate(CONDITION_CODES)] + [(15, 1), (0, 4), (8, 2), (10, 3)]
        else:
            pairs = [(cc, hc) for cc in CONDITION_CODES for hc in HANDLER_CODES]
        return [{"cc": cc, "hc": hc} for cc, hc in D.dedupe(pairs)]

    def build(self, recipe):
        _, _, ConditionCode, FaultHandlerCode, _ = _lib()
        return self._cls()(enum_or_int(ConditionCode, recipe["cc"]), enum_or_int(FaultHandlerCode, recipe["hc"]))

    def ref(self, recipe):
        return R.fault_handler_override_tlv(recipe["cc"], recipe["hc"])

    def observe(self, obj):
        return (int(obj.tlv_type), int(obj.condition_code), int(obj.handler_code), bytes(obj.value))

    def expected(self, recipe):
        return (R.T_FAULT_HANDLER, recipe["cc"], recipe["hc"], R.fault_handler_value(recipe["cc"], recipe["hc"]))

    def repro(self, recipe):
        return f"FaultHandlerOverrideTlv(ConditionCode({recipe['cc']}), FaultHandlerCode({recipe['hc']}))"


# ------------------------------------------------------------------ FileStoreRequestTlv
def _name_or_none(action, name):
    return name if action in R.TWO_NAME_ACTIONS else None


class FsRequestUnit(_TlvUnit):
    name = "FileStoreRequestTlv"
    cls_name = "FileStoreRequestTlv"

    def corpus(self, tier):
        out = [
            {"a": R.A_CREATE_FILE, "n1": "", "n2": ""},
            {"a": R.A_CREATE_FILE, "n1": "a", "n2": ""},
            {"a": R.A_DELETE_FILE, "n1": "dir/f.bin", "n2": ""},
            {"a": R.A_RENAME_FILE, "n1": "a", "n2": "bc"},
            {"a": R.A_RENAME_FILE, "n1": "", "n2": ""},
            {"a": R.A_APPEND_FILE, "n1": "ä", "n2": "名/x"},
            {"a": R.A_APPEND_FILE, "n1": "test.txt", "n2": ""},
            {"a": R.A_REPLACE_FILE, "n1": "", "n2": "dir/f.bin"},
            {"a": R.A_REPLACE_FILE, "n1": LONG_ASCII, "n2": LONG_UTF8},
            {"a": R.A_CREATE_DIR, "n1": "名/x", "n2": ""},
            {"a": R.A_REMOVE_DIR, "n1": "ä", "n2": ""},
            {"a": R.A_DENY_FILE, "n1": "x" * 253, "n2": ""},  # value of exactly 255 octets
            {"a": R.A_DENY_DIR, "n1": "bc", "n2": ""},
            {"a": R.A_RENAME_FILE, "n1": "o" * 126, "n2": "ü" * 63},  # value of exactly 255 octets
            {"a": R.A_DELETE_FILE, "n1": "\x01\x00", "n2": ""},  # a name that looks like an LV
        ]
        if tier != "quick":
            for a in R.ACTION_CODES:
                out.append({"a": a, "n1": "dir/f.bin", "n2": "ä" if a in R.TWO_NAME_ACTIONS else ""})
        return out

    def build(self, recipe):
        tlv = _lib()[0]
        return tlv.FileStoreRequestTlv(enum_or_int(tlv.FilestoreActionCode, recipe["a"]), recipe["n1"], recipe["n2"])

    def ref(self, recipe):
        return R.filestore_request_tlv(recipe["a"], recipe["n1"].encode("utf-8"), recipe["n2"].encode("utf-8"))

    def observe(self, obj):
        a = int(obj.action_code)
        return (int(obj.tlv_type), a, obj.first_file_name, _name_or_none(a, obj.second_file_name))

    def expected(self, recipe):
        return (R.T_FILESTORE_REQUEST, recipe["a"], recipe["n1"], _name_or_none(recipe["a"], recipe["n2"]))

    def repro(self, recipe):
        return f"FileStoreRequestTlv(FilestoreActionCode({recipe['a']}), {recipe['n1']!r}, {recipe['n2']!r})"

    def length_bits(self, raw):
        return _fs_length_bits(raw, False)


def _fs_length_bits(raw, with_msg):
    """TLV length octet plus the length octet of every LV inside the value"""
    bits = set(range(8, 16))
    if len(raw) < 4:
        return bits
    action = raw[2] >> 4
    idx = 3
    n_lv = 1 + (1 if action in R.TWO_NAME_ACTIONS else 0) + (1 if with_msg else 0)
    for _ in range(n_lv):
        if idx >= len(raw):
            break
        bits |= set(range(8 * idx, 8 * idx + 8))
        idx += 1 + raw[idx]
    return bits


# ----------------------------------------------------------------- FileStoreResponseTlv
class FsResponseUnit(_TlvUnit):
    name = "FileStoreResponseTlv"
    cls_name = "FileStoreResponseTlv"

    def corpus(self, tier):
        out = [
            {"a": R.A_CREATE_FILE, "s": 0, "n1": "", "n2": "", "msg": hx(b"")},
            {"a": R.A_CREATE_FILE, "s": 1, "n1": "a", "n2": "", "msg": hx(b"\x00")},
            {"a": R.A_DELETE_FILE, "s": 1, "n1": "dir/f.bin", "n2": "", "msg": hx(b"no such file")},
            {"a": R.A_RENAME_FILE, "s": 0, "n1": "a", "n2": "bc", "msg": hx(b"")},
            {"a": R.A_RENAME_FILE, "s": 2, "n1": "", "n2": "", "msg": hx(b"")},
            {"a": R.A_RENAME_FILE, "s": 15, "n1": "ä", "n2": "名/x", "msg": hx(b"\xff")},
            {"a": R.A_APPEND_FILE, "s": 15, "n1": "test.txt", "n2": "test2.txt", "msg": hx(b"")},
            {"a": R.A_APPEND_FILE, "s": 3, "n1": "", "n2": "x", "msg": hx(bytes(range(200)))},
            {"a": R.A_REPLACE_FILE, "s": 1, "n1": "ü" * 10, "n2": "", "msg": hx(b"\x01\x02")},
            {"a": R.A_REPLACE_FILE, "s": 0, "n1": "o" * 100, "n2": "ü" * 50, "msg": hx(b"m" * 51)},  # value of exactly 255 octets
            {"a": R.A_CREATE_DIR, "s": 1, "n1": "名/x", "n2": "", "msg": hx(b"")},
            {"a": R.A_REMOVE_DIR, "s": 0, "n1": "test.txt", "n2": "", "msg": hx(b"")},
            {"a": R.A_REMOVE_DIR, "s": 2, "n1": "ä", "n2": "", "msg": hx(b"\x00" * 3)},
            {"a": R.A_DENY_FILE, "s": 2, "n1": "x" * 252, "n2": "", "msg": hx(b"")},  # value of exactly 255 octets
            {"a": R.A_DENY_FILE, "s": 0, "n1": "", "n2": "", "msg": hx(b"\xaa" * 252)},  # value of exactly 255 octets
            {"a": R.A_DENY_DIR, "s": 15, "n1": "bc", "n2": "", "msg": hx(b"\x01\x00")},
        ]
        if tier != "quick":
            for a in R.ACTION_CODES:
                for s in enum_status_codes(a):
                    out.append({"a": a, "s": s, "n1": "dir/f.bin", "n2": "ä" if a in R.TWO_NAME_ACTIONS else "", "msg": hx(b"ok")})
        return out

    def build(self, recipe):
        tlv, CfdpLv = _lib()[0], _lib()[1]
        a = recipe["a"]
        return tlv.FileStoreResponseTlv(
            enum_or_int(tlv.FilestoreActionCode, a),
            enum_or_int(tlv.FilestoreResponseStatusCode, (a << 4) | recipe["s"]),
            recipe["n1"], recipe["n2"], CfdpLv(bt(recipe["msg"])),
        )

    def ref(self, recipe):
        return R.filestore_response_tlv(recipe["a"], recipe["s"], recipe["n1"].encode("utf-8"), recipe["n2"].encode("utf-8"), bt(recipe["msg"]))

    def observe(self, obj):
        a = int(obj.action_code)
        return (int(obj.tlv_type), a, int(obj.status_code), obj.first_file_name, _name_or_none(a, obj.second_file_name), bytes(obj.filestore_msg.value))

    def expected(self, recipe):
        a = recipe["a"]
        return (R.T_FILESTORE_RESPONSE, a, (a << 4) | recipe["s"], recipe["n1"], _name_or_none(a, recipe["n2"]), bt(recipe["msg"]))

    def repro(self, recipe):
        a = recipe["a"]
        return (f"FileStoreResponseTlv(FilestoreActionCode({a}), FilestoreResponseStatusCode({(a << 4) | recipe['s']:#04x}), "
                f"{recipe['n1']!r}, {recipe['n2']!r}, CfdpLv(bytes.fromhex('{bt(recipe['msg']).hex()}')))")

    def length_bits(self, raw):
        return _fs_length_bits(raw, True)


# --------------------------------------------------------------------- MessageToUserTlv
class MsgToUserUnit(_TlvUnit):
    name = "MessageToUserTlv"
    cls_name = "MessageToUserTlv"

    def corpus(self, tier):
        vals = [b"", b"\x00", b"hi", b"\xff\xfe", b"cfdp", b"cfdp\x09", b"cfd", R.reserved_value(R.M_PROXY_PUT_REQUEST, R.lv(b"\x05") + R.lv(b"a") + R.lv(b"b")),
                R.reserved_value(R.M_ORIGINATING_TRANSACTION_ID, R.transaction_id_fields(b"\x00\x01", b"\x00\x05")), b"\x02\x01\x00", bytes(255), bytes(i & 0xFF for i in range(255))]
        if tier != "quick":
            vals += [bytes([L]) * L for L in (3, 5, 6, 64, 254)]
        return [{"v": hx(v)} for v in vals]

    def build(self, recipe):
        return self._cls()(bt(recipe["v"]))

    def ref(self, recipe):
        return R.msg_to_user_tlv(bt(recipe["v"]))

    def observe(self, obj):
        return (int(obj.tlv_type), bytes(obj.value))

    def expected(self, recipe):
        return (R.T_MESSAGE_TO_USER, bt(recipe["v"]))

    def repro(self, recipe):
        return f"MessageToUserTlv(bytes.fromhex('{bt(recipe['v']).hex()}'))"


UNITS = {u.name: u for u in (LvUnit(), GenericTlvUnit(), EntityIdUnit(), FlowLabelUnit(), FaultHandlerUnit(), FsRequestUnit(), FsResponseUnit(), MsgToUserUnit())}

# concrete class name -> (TLV type octet, TlvHolder conversion method)
CONCRETE = {
    "FileStoreRequestTlv": (R.T_FILESTORE_REQUEST, "to_fs_request"),
    "FileStoreResponseTlv": (R.T_FILESTORE_RESPONSE, "to_fs_response"),
    "MessageToUserTlv": (R.T_MESSAGE_TO_USER, "to_msg_to_user"),
    "FaultHandlerOverrideTlv": (R.T_FAULT_HANDLER, "to_fault_handler_override"),
    "FlowLabelTlv": (R.T_FLOW_LABEL, "to_flow_label"),
    "EntityIdTlv": (R.T_ENTITY_ID, "to_entity_id"),
}
