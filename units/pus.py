"""Unit drivers of the ECSS PUS family (DESIGN.md 3.1): small, sharp corpora shared by the
cross-cutting checks (C04 corruption, C09 suffix, C10 malformed input).

Recipes are plain JSON data; octet strings are stored as "hex:.." (mc.rec.jsonable form) and
both that form and bytes are accepted everywhere, so a recipe survives a replay file.
spacepackets is imported lazily inside the methods (never at module import)."""

from __future__ import annotations

from mc import domains as D
from mc.rec import unhex
from ref import ccsds as RC
from ref import pus as RP
from units.base import Unit, by

E4, E8, E11, E14, E16 = D.edge(4), D.edge(8), D.edge(11), D.edge(14), D.edge(16)
STAMP7 = bytes([0x40, 1, 2, 3, 4, 5, 6])
SP_LENGTH_BITS = frozenset(range(32, 48))  # space packet octets 4-5


def hx(b) -> str:
    return "hex:" + bytes(b).hex()


def bb(x) -> bytes:
    """recipe octets -> bytes (accepts 'hex:..', bytes, bytearray, None)"""
    if x is None:
        return b""
    x = unhex(x)
    return bytes(x)


def payload(n: int, salt: int = 0) -> bytes:
    """n octets, all different from each other and from 0 (position-sensitive content)"""
    return bytes(((0xA1 + salt + 7 * i) & 0xFF) or 0x5A for i in range(n))


def diag(*alphabets, n=8, stride=1):
    """n vectors; vector i takes element (i*stride + k) of the k-th alphabet: every alphabet
    value appears, neighbours never carry the same pattern"""
    return [tuple(a[(i * stride + k) % len(a)] for k, a in enumerate(alphabets)) for i in range(n)]


def _ecss():
    import spacepackets.ecss as e

    return e


class _SpUnit(Unit):
    """common part of the units that are complete space packets"""

    self_delimiting = True

    def length_bits(self, raw):
        return set(SP_LENGTH_BITS)


# ------------------------------------------------------------------------------- PusTc
class PusTcUnit(_SpUnit):
    name = "PusTc"

    @property
    def documented(self):
        from spacepackets.ecss.tc import InvalidTcCrc16

        return (ValueError, InvalidTcCrc16)

    def corpus(self, tier):
        out = [dict(svc=17, sub=1, apid=1, seq=22, src=0, ack=15, data=hx(b""))]
        for i, (svc, sub, apid, seq, src, ack) in enumerate(diag(E8, E8[3:] + E8[:3], E11, E14, E16, E4)):
            out.append(dict(svc=svc, sub=sub, apid=apid, seq=seq, src=src, ack=ack, data=hx(payload(i % 5, i))))
        for i, (svc, sub, apid, seq, src, ack) in enumerate(diag(E8, E8, E11, E14, E16, E4, stride=3)):
            out.append(dict(svc=svc, sub=sub, apid=apid, seq=seq, src=src, ack=ack, data=hx(payload((i + 2) % 5, 16 + i))))
        # payloads that look like the surrounding format: a PUS-C secondary header, a zero-residue CRC pair
        out.append(dict(svc=3, sub=25, apid=0x7FF, seq=0x3FFF, src=0xFFFF, ack=0, data=hx(bytes([0x2F, 17, 1, 0]))))
        out.append(dict(svc=0, sub=0, apid=0, seq=0, src=0, ack=0, data=hx(b"\x00\x00")))
        out.append(dict(svc=255, sub=255, apid=0x7FF, seq=0x3FFF, src=0xFFFF, ack=15, data=hx(b"\xff\xff\xff\xff")))
        # telecommands whose CRC-16 is exactly 0x0000 / 0xFFFF (legal values a "was it filled in?" plausibility test would refuse)
        for src, want in ((34324, 0x0000), (53795, 0xFFFF)):
            r = dict(svc=17, sub=1, apid=0x42, seq=0x11, src=src, ack=9, data=hx(b"\x01\x02"))
            assert int.from_bytes(self.ref(r)[-2:], "big") == want
            out.append(r)
        if tier == "thorough":
            for i, (svc, sub, apid, seq, src, ack) in enumerate(diag(E8, E8, E11, E14, E16, E4, stride=5)):
                out.append(dict(svc=svc, sub=sub, apid=apid, seq=seq, src=src, ack=ack, data=hx(payload(5 + 3 * i, 32 + i))))
        return out

    def build(self, r):
        return _ecss().PusTc(r["svc"], r["sub"], apid=r["apid"], app_data=bb(r["data"]), seq_count=r["seq"], source_id=r["src"], ack_flags=r["ack"])

    def alt_builders(self):
        from spacepackets.ccsds.spacepacket import PacketType, SpacePacketHeader

        m = _ecss()

        def sph(r):
            return m.PusTc.from_sp_header(SpacePacketHeader(PacketType.TC, r["apid"], r["seq"], 0x0123), r["svc"], r["sub"], bb(r["data"]), r["src"], r["ack"])

        def comp(r):
            d = bb(r["data"])
            return m.PusTc.from_composite_fields(SpacePacketHeader(PacketType.TC, r["apid"], r["seq"], 5 + len(d) + 1, True),
                                                 m.PusTcDataFieldHeader(r["svc"], r["sub"], r["src"], r["ack"]), d)

        return [("from_sp_header", sph), ("from_composite_fields", comp)]

    def ref(self, r):
        return RP.tc(r["svc"], r["sub"], r["apid"], r["seq"], r["src"], r["ack"], bb(r["data"]))

    def decoders(self):
        return [("PusTc.unpack", lambda b, r: _ecss().PusTc.unpack(b))]

    def observe(self, o):
        return (o.service, o.subservice, o.apid, o.seq_count, o.source_id, int(o.pus_tc_sec_header.ack_flags), by(o.app_data),
                int(o.packet_type), int(bool(o.sec_header_flag)), int(o.seq_flags), o.ccsds_version, o.sp_header.data_len, o.packet_len)

    def expected(self, r):
        d = bb(r["data"])
        return (r["svc"], r["sub"], r["apid"], r["seq"], r["src"], r["ack"], d, 1, 1, 3, 0, 5 + len(d) + 1, 13 + len(d))

    def observe_decoded(self, o):
        return self.observe(o) + (by(o.crc16), by(o.pack(recalc_crc=False)))

    def crc_protected(self, r):
        return True


class PusTcDataFieldHeaderUnit(Unit):
    """the five-octet TC secondary header on its own (fixed size)"""

    name = "PusTcDataFieldHeader"
    self_delimiting = True

    def corpus(self, tier):
        return [dict(svc=17, sub=1, src=0, ack=15)] + [dict(svc=a, sub=b, src=c, ack=d) for a, b, c, d in diag(E8, E8[2:] + E8[:2], E16, E4)]

    def build(self, r):
        return _ecss().PusTcDataFieldHeader(service=r["svc"], subservice=r["sub"], source_id=r["src"], ack_flags=r["ack"])

    def ref(self, r):
        return RP.tc_sec_header(r["ack"], r["svc"], r["sub"], r["src"])

    def decoders(self):
        return [("PusTcDataFieldHeader.unpack", lambda b, r: _ecss().PusTcDataFieldHeader.unpack(b))]

    def observe(self, o):
        return (o.service, o.subservice, o.source_id, int(o.ack_flags), int(o.pus_version))

    def expected(self, r):
        return (r["svc"], r["sub"], r["src"], r["ack"], 2)

    def declared_len(self, o):
        return o.get_header_size()


# ------------------------------------------------------------------------------- PusTm
def _tm_vectors(tier):
    out = []
    for i, v in enumerate(diag(E8, E8[3:] + E8[:3], E11, E14, E16, E16[4:] + E16[:4], E4, list(range(8)))):
        out.append(v + ((STAMP7 if i % 2 else b""), payload(i % 5, i)))
    for i, v in enumerate(diag(E8, E8, E11, E14, E16, E16, E4, list(range(8)), stride=3)):
        out.append(v + ((b"" if i % 2 else STAMP7), payload((i + 2) % 5, 16 + i)))
    return out


class PusTmUnit(_SpUnit):
    name = "PusTm"

    @property
    def documented(self):
        from spacepackets.ecss.tm import InvalidTmCrc16

        return (ValueError, InvalidTmCrc16)

    def corpus(self, tier):
        mk = lambda svc, sub, apid, seq, mc, dest, tref, ver, ts, data: dict(  # noqa: E731
            svc=svc, sub=sub, apid=apid, seq=seq, mc=mc, dest=dest, tref=tref, ver=ver, ts=hx(ts), data=hx(data), ts_len=len(ts))
        out = [mk(17, 2, 0x123, 0x234, 0, 0, 0, 0, STAMP7, b""), mk(17, 2, 1, 0, 0, 0, 0, 0, b"", b"")]
        out += [mk(*v) for v in _tm_vectors(tier)]
        # content that looks like the format: timestamp/source data resembling a secondary header or a CRC pair
        out.append(mk(5, 1, 0x7FF, 0x3FFF, 0xFFFF, 0xFFFF, 15, 7, bytes([0x20, 17, 2, 0, 0, 0, 0]), bytes([0x20, 1, 1, 0])))
        out.append(mk(0, 0, 0, 0, 0, 0, 0, 0, bytes(7), b"\x00\x00"))
        out.append(mk(255, 255, 0x7FF, 0x3FFF, 0xFFFF, 0xFFFF, 15, 7, b"", b"\xff\xff\xff\xff"))
        # telemetry whose CRC-16 is exactly 0x0000 / 0xFFFF
        for mc, want in ((32831, 0x0000), (33254, 0xFFFF)):
            r = mk(17, 2, 0x123, 0x234, mc, 0, 0, 0, STAMP7, b"")
            assert int.from_bytes(self.ref(r)[-2:], "big") == want
            out.append(r)
        # timestamp lengths other than 0 and 7 (a decoder that assumes the 7 octets of CDS short goes wrong only here; the longer
        # ones reach past the CRC into the neighbouring octets)
        for i, L in enumerate((1, 2, 6, 8, 12, 16)):
            if tier == "thorough" or L in (2, 12, 16):
                out.append(mk(E8[i], E8[-1 - i], E11[i], E14[i], E16[i], E16[-1 - i], E4[i], i, payload(L, 64 + i), payload(i % 5, 80 + i)))
        return out

    def build(self, r):
        return _ecss().PusTm(r["svc"], r["sub"], bb(r["ts"]), bb(r["data"]), r["apid"], r["seq"], r["mc"], r["tref"], r["dest"], r["ver"])

    def alt_builders(self):
        from spacepackets.ccsds.spacepacket import PacketType, SequenceFlags, SpacePacketHeader

        m = _ecss()

        def comp(r):
            ts, d = bb(r["ts"]), bb(r["data"])
            return m.PusTm.from_composite_fields(
                SpacePacketHeader(PacketType.TM, r["apid"], r["seq"], 7 + len(ts) + len(d) + 2 - 1, True, SequenceFlags.UNSEGMENTED, r["ver"]),
                m.PusTmSecondaryHeader(service=r["svc"], subservice=r["sub"], timestamp=ts, message_counter=r["mc"], dest_id=r["dest"],
                                       spacecraft_time_ref=r["tref"]), d)

        return [("from_composite_fields", comp)]

    def ref(self, r):
        return RP.tm(r["svc"], r["sub"], bb(r["ts"]), bb(r["data"]), r["apid"], r["seq"], r["mc"], r["tref"], r["dest"], r["ver"])

    def decoders(self):
        return [("PusTm.unpack", lambda b, r: _ecss().PusTm.unpack(b, r["ts_len"]))]

    def observe(self, o):
        h = o.pus_tm_sec_header
        return (o.service, o.subservice, o.apid, o.seq_count, h.message_counter, h.dest_id, int(h.spacecraft_time_ref), o.ccsds_version,
                by(o.timestamp), by(o.tm_data), by(o.source_data), int(o.packet_type), int(bool(o.sec_header_flag)), int(o.seq_flags),
                o.sp_header.data_len, o.packet_len)

    def expected(self, r):
        ts, d = bb(r["ts"]), bb(r["data"])
        return (r["svc"], r["sub"], r["apid"], r["seq"], r["mc"], r["dest"], r["tref"], r["ver"], ts, d, d, 0, 1, 3,
                7 + len(ts) + len(d) + 1, 15 + len(ts) + len(d))

    def observe_decoded(self, o):
        return self.observe(o) + (by(o.crc16), by(o.pack(recalc_crc=False)))

    def crc_protected(self, r):
        return True


class PusTmSecondaryHeaderUnit(Unit):
    """TM secondary header on its own.  Its size (7 + timestamp length) is fixed by a parameter
    handed to the decoder, not by anything in the octets, and it is a fragment, not a packet:
    like the truncated USLP frame (DESIGN.md 5.6) it is kept out of the prefix/suffix clauses.
    (Observed on both trees: PusTmSecondaryHeader.unpack(hdr[:k], 7) for 7 <= k < 14 returns a
    header with a shortened timestamp instead of raising - reported to the lead, not judged here.)"""

    name = "PusTmSecondaryHeader"
    self_delimiting = False

    def corpus(self, tier):
        out = []
        for i, (svc, sub, mc, dest, tref) in enumerate(diag(E8, E8[2:] + E8[:2], E16, E16[3:] + E16[:3], E4)):
            ts = (b"", STAMP7, payload(1, i), payload(16, i))[i % 4]
            out.append(dict(svc=svc, sub=sub, mc=mc, dest=dest, tref=tref, ts=hx(ts), ts_len=len(ts)))
        return out

    def build(self, r):
        return _ecss().PusTmSecondaryHeader(service=r["svc"], subservice=r["sub"], timestamp=bb(r["ts"]), message_counter=r["mc"],
                                            dest_id=r["dest"], spacecraft_time_ref=r["tref"])

    def ref(self, r):
        return RP.tm_sec_header(r["tref"], r["svc"], r["sub"], r["mc"], r["dest"], bb(r["ts"]))

    def decoders(self):
        return [("PusTmSecondaryHeader.unpack", lambda b, r: _ecss().PusTmSecondaryHeader.unpack(b, r["ts_len"]))]

    def observe(self, o):
        return (o.service, o.subservice, o.message_counter, o.dest_id, int(o.spacecraft_time_ref), by(o.timestamp), int(o.pus_version))

    def expected(self, r):
        return (r["svc"], r["sub"], r["mc"], r["dest"], r["tref"], bb(r["ts"]), 2)

    def declared_len(self, o):
        return o.header_size


# ------------------------------------------------------------------------- Service17Tm
class Service17TmUnit(_SpUnit):
    name = "Service17Tm"

    @property
    def documented(self):
        from spacepackets.ecss.tm import InvalidTmCrc16

        return (ValueError, InvalidTmCrc16)

    def corpus(self, tier):
        out = [dict(sub=2, apid=5, seq=0, dest=0, tref=0, ver=0, ts=hx(STAMP7), data=hx(b""), ts_len=7),
               dict(sub=1, apid=0x72, seq=0, dest=0, tref=0, ver=0, ts=hx(b""), data=hx(b""), ts_len=0)]
        for i, (sub, apid, seq, dest, tref, ver) in enumerate(diag(E8, E11, E14, E16, E4, list(range(8)))):
            ts = STAMP7 if i % 2 else b""
            out.append(dict(sub=sub, apid=apid, seq=seq, dest=dest, tref=tref, ver=ver, ts=hx(ts), data=hx(payload(i % 5, i)), ts_len=len(ts)))
        return out

    def build(self, r):
        from spacepackets.ecss.pus_17_test import Service17Tm

        return Service17Tm(apid=r["apid"], subservice=r["sub"], timestamp=bb(r["ts"]), ssc=r["seq"], source_data=bb(r["data"]),
                           packet_version=r["ver"], space_time_ref=r["tref"], destination_id=r["dest"])

    def ref(self, r):
        return RP.srv17_tm(r["sub"], bb(r["ts"]), bb(r["data"]), r["apid"], r["seq"], r["tref"], r["dest"], r["ver"])

    def decoders(self):
        def dec(b, r):
            from spacepackets.ecss.pus_17_test import Service17Tm

            return Service17Tm.unpack(b, r["ts_len"])

        return [("Service17Tm.unpack", dec)]

    def observe(self, o):
        h = o.pus_tm.pus_tm_sec_header
        return (o.service, o.subservice, o.apid, o.seq_count, h.message_counter, h.dest_id, int(h.spacecraft_time_ref), o.ccsds_version,
                by(o.timestamp), by(o.source_data), int(o.packet_type), int(bool(o.sec_header_flag)), int(o.seq_flags),
                o.sp_header.data_len, o.pus_tm.packet_len)

    def expected(self, r):
        ts, d = bb(r["ts"]), bb(r["data"])
        return (17, r["sub"], r["apid"], r["seq"], 0, r["dest"], r["tref"], r["ver"], ts, d, 0, 1, 3, 7 + len(ts) + len(d) + 1, 15 + len(ts) + len(d))

    def observe_decoded(self, o):
        return self.observe(o) + (by(o.pus_tm.crc16), by(o.pus_tm.pack(recalc_crc=False)))

    def declared_len(self, o):
        return o.pus_tm.packet_len

    def crc_protected(self, r):
        return True


# -------------------------------------------------------------------------- Service1Tm
WIDTH_VALUES = {1: 0xA5, 2: 0xA1B2, 4: 0xA1B2C3D4, 8: 0xA1B2C3D4E5F60718}


def rid_octets(rid) -> bytes:
    return RP.request_id(*rid)


class Service1TmUnit(_SpUnit):
    """success kinds (1,3,5,7) and failure kinds (2,4,6,8); the recipe carries the UnpackParams widths"""

    name = "Service1Tm"

    @property
    def documented(self):
        from spacepackets.ecss.pus_1_verification import InvalidVerifParams
        from spacepackets.ecss.tm import InvalidTmCrc16

        return (ValueError, InvalidTmCrc16, InvalidVerifParams)

    def corpus(self, tier):
        out = []
        rids = [(0, 1, 1, 2, 3, 0), (0, 1, 1, 0x7FF, 3, 0x3FFF), (5, 1, 1, 0x555, 3, 0x2AAA), (0, 1, 1, 0x2AA, 3, 0x1555),
                (7, 0, 0, 0, 0, 1), (0, 1, 1, 0x400, 3, 0x2000), (2, 1, 0, 0x3FF, 2, 0x1FFF), (0, 1, 1, 1, 3, 0x3FFE)]
        widths = (1, 2, 4, 8)
        i = 0
        for sub in range(1, 9):
            for k in range(4 if sub in (5, 6) or tier == "thorough" else 2):
                sw, ew = widths[(i + k) % 4], widths[(i + 2 * k + 1) % 4]
                step = [WIDTH_VALUES[sw] if k % 2 == 0 else (1 << (8 * sw)) - 1 - k, sw] if RP.srv1_has_step(sub) else None
                fail = [[WIDTH_VALUES[ew] if k % 2 else k, ew], hx(payload((0, 1, 3, 4)[(i + k) % 4], i))] if RP.srv1_has_failure(sub) else None
                ts = STAMP7 if (i + k) % 2 else b""
                out.append(dict(sub=sub, rid=list(rids[(i + k) % 8]), step=step, fail=fail, ts=hx(ts), ts_len=len(ts),
                                step_w=sw if step else 1, err_w=ew if fail else 1,
                                apid=E11[(i + k) % 8], seq=E14[(i + 3 * k) % 8], dest=E16[(i + k) % 8], tref=E4[(i + 5 * k) % 8], ver=(i + k) % 8))
                i += 1
        return out

    def _params(self, r):
        from spacepackets.ecss.pus_1_verification import UnpackParams

        return UnpackParams(r["ts_len"], r["step_w"], r["err_w"])

    def build(self, r):
        from spacepackets.ccsds.spacepacket import PacketId, PacketSeqCtrl, PacketType, SequenceFlags
        from spacepackets.ecss import PacketFieldEnum, RequestId
        from spacepackets.ecss.pus_1_verification import FailureNotice, Service1Tm, Subservice, VerificationParams

        ver, typ, shf, apid, fl, cnt = r["rid"]
        rid = RequestId(PacketId(PacketType(typ), bool(shf), apid), PacketSeqCtrl(SequenceFlags(fl), cnt), ver)
        step = PacketFieldEnum.with_byte_size(r["step"][1], r["step"][0]) if r["step"] else None
        fail = FailureNotice(PacketFieldEnum.with_byte_size(r["fail"][0][1], r["fail"][0][0]), bb(r["fail"][1])) if r["fail"] else None
        return Service1Tm(apid=r["apid"], subservice=Subservice(r["sub"]), timestamp=bb(r["ts"]), verif_params=VerificationParams(rid, step, fail),
                          seq_count=r["seq"], packet_version=r["ver"], space_time_ref=r["tref"], destination_id=r["dest"])

    def ref(self, r):
        step = tuple(r["step"]) if r["step"] else None
        fail = (tuple(r["fail"][0]), bb(r["fail"][1])) if r["fail"] else None
        return RP.srv1_tm(r["sub"], rid_octets(r["rid"]), step, fail, bb(r["ts"]), r["apid"], r["seq"], r["tref"], r["dest"], r["ver"])

    def decoders(self):
        def unpack(b, r):
            from spacepackets.ecss.pus_1_verification import Service1Tm

            return Service1Tm.unpack(b, self._params(r))

        def from_tm(b, r):
            from spacepackets.ecss.pus_1_verification import Service1Tm

            return Service1Tm.from_tm(_ecss().PusTm.unpack(b, r["ts_len"]), self._params(r))

        return [("Service1Tm.unpack", unpack), ("Service1Tm.from_tm(PusTm.unpack)", from_tm)]

    def observe(self, o):
        h = o.pus_tm.pus_tm_sec_header
        step = None if o.step_id is None else (int(o.step_id.val), int(o.step_id.pfc))
        fn = o.failure_notice
        fail = None if fn is None else (int(fn.code.val), int(fn.code.pfc), by(fn.data))
        return (o.service, int(o.subservice), o.tc_req_id.as_u32(), by(o.tc_req_id.pack()), step, fail,
                o.apid, o.seq_count, h.dest_id, int(h.spacecraft_time_ref), o.ccsds_version, by(o.timestamp), by(o.source_data),
                int(o.packet_type), int(bool(o.sec_header_flag)), int(o.seq_flags), o.sp_header.data_len, o.pus_tm.packet_len)

    def expected(self, r):
        rid = rid_octets(r["rid"])
        step = (r["step"][0], 8 * r["step"][1]) if r["step"] else None
        fail = (r["fail"][0][0], 8 * r["fail"][0][1], bb(r["fail"][1])) if r["fail"] else None
        src = RP.srv1_source_data(rid, tuple(r["step"]) if r["step"] else None, (tuple(r["fail"][0]), bb(r["fail"][1])) if r["fail"] else None)
        ts = bb(r["ts"])
        return (1, r["sub"], int.from_bytes(rid, "big"), rid, step, fail, r["apid"], r["seq"], r["dest"], r["tref"], r["ver"], ts, src,
                0, 1, 3, 7 + len(ts) + len(src) + 1, 15 + len(ts) + len(src))

    def observe_decoded(self, o):
        return self.observe(o) + (by(o.pus_tm.crc16), by(o.pus_tm.pack(recalc_crc=False)))

    def declared_len(self, o):
        return o.pus_tm.packet_len

    def crc_protected(self, r):
        return True


class FailureNoticeUnit(Unit):
    """error code + failure data; the data extends to the end of what it is given, so it is
    not self-delimiting"""

    name = "FailureNotice"
    self_delimiting = False

    def corpus(self, tier):
        return [dict(code=[WIDTH_VALUES[w] if i % 2 else i, w], data=hx(payload(n, i)), err_w=w)
                for i, (w, n) in enumerate([(1, 0), (1, 4), (2, 0), (2, 3), (4, 1), (4, 2), (8, 0), (8, 5)])]

    def build(self, r):
        from spacepackets.ecss import PacketFieldEnum
        from spacepackets.ecss.pus_1_verification import FailureNotice

        return FailureNotice(PacketFieldEnum.with_byte_size(r["code"][1], r["code"][0]), bb(r["data"]))

    def ref(self, r):
        return RP.uint(r["code"][0], r["code"][1]) + bb(r["data"])

    def decoders(self):
        def dec(b, r):
            from spacepackets.ecss.pus_1_verification import FailureNotice

            return FailureNotice.unpack(b, r["err_w"])

        return [("FailureNotice.unpack", dec)]

    def observe(self, o):
        return (int(o.code.val), int(o.code.pfc), by(o.data))

    def expected(self, r):
        return (r["code"][0], 8 * r["code"][1], bb(r["data"]))

    def declared_len(self, o):
        return o.len()


# --------------------------------------------------------------------------- RequestId
class RequestIdUnit(Unit):
    name = "RequestId"
    self_delimiting = True  # fixed size: 4 octets

    def corpus(self, tier):
        out = [dict(rid=[0, 1, 1, 2, 3, 0]), dict(rid=[0, 1, 0, 0x22, 3, 17])]
        for ver, typ, shf, apid, fl, cnt in diag(list(range(8)), [0, 1], [1, 0, 0, 1], E11, [3, 0, 1, 2], E14):
            out.append(dict(rid=[ver, typ, shf, apid, fl, cnt]))
        for ver, typ, shf, apid, fl, cnt in diag(list(range(8)), [1, 0], [1, 1, 0], E11, [0, 3, 2, 1], E14, stride=3):
            out.append(dict(rid=[ver, typ, shf, apid, fl, cnt]))
        return out

    def build(self, r):
        from spacepackets.ccsds.spacepacket import PacketId, PacketSeqCtrl, PacketType, SequenceFlags

        ver, typ, shf, apid, fl, cnt = r["rid"]
        return _ecss().RequestId(PacketId(PacketType(typ), bool(shf), apid), PacketSeqCtrl(SequenceFlags(fl), cnt), ver)

    def ref(self, r):
        return rid_octets(r["rid"])

    def decoders(self):
        return [("RequestId.unpack", lambda b, r: _ecss().RequestId.unpack(b))]

    def observe(self, o):
        return (o.as_u32(), by(o.pack()), o.ccsds_version, o.tc_packet_id.raw(), o.tc_psc.raw())

    def expected(self, r):
        b = rid_octets(r["rid"])
        return (int.from_bytes(b, "big"), b, r["rid"][0], int.from_bytes(b[0:2], "big") & 0x1FFF, int.from_bytes(b[2:4], "big"))

    def declared_len(self, o):
        return len(o.pack())


# --------------------------------------------------------------------- PacketFieldEnum
class PacketFieldEnumUnit(Unit):
    name = "PacketFieldEnum"
    self_delimiting = True  # fixed size given the PFC handed to the decoder

    def corpus(self, tier):
        out = []
        for w in (1, 2, 4, 8):
            m = (1 << (8 * w)) - 1
            for v in D.dedupe([0, 1, m, m - 1, 1 << (8 * w - 1), WIDTH_VALUES[w], D.alt(8 * w, False)]):
                out.append(dict(width=w, val=v))
        return out

    def build(self, r):
        return _ecss().PacketFieldEnum.with_byte_size(r["width"], r["val"])

    def ref(self, r):
        return RP.uint(r["val"], r["width"])

    def decoders(self):
        return [("PacketFieldEnum.unpack", lambda b, r: _ecss().PacketFieldEnum.unpack(b, 8 * r["width"]))]

    def observe(self, o):
        return (int(o.val), int(o.pfc), o.len())

    def expected(self, r):
        return (r["val"], 8 * r["width"], r["width"])

    def declared_len(self, o):
        return o.len()


# ------------------------------------------------------------------- SpacePacketHeader
class SpacePacketHeaderUnit(Unit):
    name = "SpacePacketHeader"
    self_delimiting = True  # fixed size: 6 octets

    def corpus(self, tier):
        out = [dict(w=[0x1801, 0xC016, 6]), dict(w=[0, 0, 0]), dict(w=[0xFFFF, 0xFFFF, 0xFFFF])]
        for w0, w1, w2 in diag(E16, E16[2:] + E16[:2], E16[5:] + E16[:5]):
            out.append(dict(w=[w0, w1, w2]))
        for ver, typ, shf, apid, fl, cnt, dl in diag(list(range(8)), [0, 1], [1, 0, 0], E11, [3, 2, 1, 0], E14, E16, stride=3):
            out.append(dict(w=[ver << 13 | typ << 12 | shf << 11 | apid, fl << 14 | cnt, dl]))
        return _dedupe(out)

    def build(self, r):
        import spacepackets.ccsds.spacepacket as sp

        ver, typ, shf, apid, fl, cnt, dl = RC.words_to_fields(*r["w"])
        return sp.SpacePacketHeader(sp.PacketType(typ), apid, cnt, dl, bool(shf), sp.SequenceFlags(fl), ver)

    def ref(self, r):
        return RC.sp_header(*RC.words_to_fields(*r["w"]))

    def decoders(self):
        def dec(b, r):
            import spacepackets.ccsds.spacepacket as sp

            return sp.SpacePacketHeader.unpack(b)

        return [("SpacePacketHeader.unpack", dec)]

    def observe(self, o):
        return (o.ccsds_version, int(o.packet_type), int(bool(o.sec_header_flag)), o.apid, int(o.seq_flags), o.seq_count, o.data_len,
                o.packet_len, o.packet_id.raw(), o.packet_seq_control.raw())

    def expected(self, r):
        w0, w1, w2 = r["w"]
        return RC.words_to_fields(w0, w1, w2) + (w2 + 7, w0 & 0x1FFF, w1)

    def declared_len(self, o):
        return o.header_len

    # the header's own size is fixed; bits 32..47 determine the length of the packet it heads
    def length_bits(self, raw):
        return set(SP_LENGTH_BITS)


def _dedupe(recipes):
    seen, out = set(), []
    for r in recipes:
        k = repr(sorted(r.items()))
        if k not in seen:
            seen.add(k)
            out.append(r)
    return out


UNITS = {u.name: u for u in (
    SpacePacketHeaderUnit(), PusTcUnit(), PusTcDataFieldHeaderUnit(), PusTmUnit(), PusTmSecondaryHeaderUnit(),
    Service17TmUnit(), Service1TmUnit(), FailureNoticeUnit(), RequestIdUnit(), PacketFieldEnumUnit(),
)}
