"""Unit drivers of the USLP family (DESIGN.md 3.1): primary header, truncated primary
header, transfer frame data field, transfer frames (variable, fixed, truncated).

Recipes are plain data:

  header     {"scid","src_dest","vcid","map_id","frame_len","bypass","prot_cmd","ocf","vcf_len","vcf_count"}
  truncated  {"scid","src_dest","vcid","map_id"}
  tfdf       {"rule","upid","ptr" (None for the variable rules),"tfdz": "hex:.."}
  frame      {"hdr": header recipe without frame_len/ocf (truncated header recipe for truncated frames),
              "rule","upid","ptr","tfdz","iz","ocf","fecf"}   octet strings as "hex:.." or None

Octet strings are stored in the jsonable form of mc.rec so that a recipe can be written to a
replay file unchanged."""

from __future__ import annotations

from mc.rec import unhex
from ref import uslp as R
from units.base import Unit, by


def hx(b):
    return None if b is None else "hex:" + bytes(b).hex()


def _h():
    import spacepackets.uslp.header as h

    return h


def _f():
    import spacepackets.uslp.frame as f

    return f


def uslp_errors():
    import spacepackets.uslp.defs as d

    return (d.UslpInvalidFrameHeader, d.UslpInvalidRawPacketOrFrameLen, d.UslpInvalidConstructionRules,
            d.UslpFhpVhopFieldMissing, d.UslpTruncatedFrameNotAllowed, d.UslpVersionMissmatch, d.UslpTypeMissmatch)


class _Documented:
    """documented = (ValueError, the seven Uslp* classes); resolved lazily because the library
    must be imported from the working tree the runner selected."""

    def __get__(self, obj, objtype=None):
        return (ValueError,) + uslp_errors()


def tfdz_pattern(n, salt=0):
    """content whose octets all differ from their neighbours and from typical header octets"""
    return bytes(((i * 7 + 3 + salt) & 0xFF) for i in range(n))


# ------------------------------------------------------------------------ builders
def build_primary_header(r):
    h = _h()
    return h.PrimaryHeader(
        scid=r["scid"], src_dest=h.SourceOrDestField(r["src_dest"]), vcid=r["vcid"], map_id=r["map_id"],
        frame_len=r["frame_len"], bypass_seq_ctrl_flag=h.BypassSequenceControlFlag(r["bypass"]),
        prot_ctrl_cmd_flag=h.ProtocolCommandFlag(r["prot_cmd"]), op_ctrl_flag=bool(r["ocf"]),
        vcf_count_len=r["vcf_len"], vcf_count=(r["vcf_count"] if r["vcf_len"] else None),
    )


def build_truncated_header(r):
    h = _h()
    return h.TruncatedPrimaryHeader(scid=r["scid"], src_dest=h.SourceOrDestField(r["src_dest"]), vcid=r["vcid"], map_id=r["map_id"])


def build_tfdf(r):
    f = _f()
    upid = r["upid"]
    try:
        upid = f.UslpProtocolIdentifier(upid)  # the registered identifiers through the enum, the others as int
    except ValueError:
        pass
    return f.TransferFrameDataField(f.TfdzConstructionRules(r["rule"]), upid, unhex(r["tfdz"]), r.get("ptr"))


def observe_primary_header(u):
    return ("hdr", int(u.scid), int(u.src_dest), int(u.vcid), int(u.map_id), int(u.frame_len), int(u.bypass_seq_ctrl_flag),
            int(u.prot_ctrl_cmd_flag), int(u.op_ctrl_flag), int(u.vcf_count_len), int(u.vcf_count or 0) if u.vcf_count_len else 0)


def observe_truncated_header(u):
    return ("trunc", int(u.scid), int(u.src_dest), int(u.vcid), int(u.map_id))


def observe_header(u):
    return observe_truncated_header(u) if u.truncated() else observe_primary_header(u)


def observe_tfdf(t):
    return ("tfdf", int(t.tfdz_contr_rules), int(t.uslp_ident), None if t.fhp_or_lvop is None else int(t.fhp_or_lvop), bytes(t.tfdz))


def observe_frame(fr):
    return ("frame", observe_header(fr.header), by(fr.insert_zone), observe_tfdf(fr.tfdf), by(fr.op_ctrl_field), by(fr.fecf))


def expected_primary_header(r):
    return ("hdr", r["scid"], r["src_dest"], r["vcid"], r["map_id"], r["frame_len"], r["bypass"], r["prot_cmd"], int(bool(r["ocf"])),
            r["vcf_len"], r["vcf_count"] if r["vcf_len"] else 0)


def expected_truncated_header(r):
    return ("trunc", r["scid"], r["src_dest"], r["vcid"], r["map_id"])


def expected_tfdf(r):
    return ("tfdf", r["rule"], r["upid"], r.get("ptr"), unhex(r["tfdz"]))


def dispatch_header(b, recipe=None):
    """the library's own way of telling the two header kinds apart, then the matching decoder"""
    h = _h()
    kind = h.determine_header_type(b)
    if kind == h.HeaderType.TRUNCATED:
        return h.TruncatedPrimaryHeader.unpack(b)
    return h.PrimaryHeader.unpack(b)


HDR_LENGTH_BITS = frozenset([31] + list(range(32, 48)) + [53, 54, 55])  # end-of-header flag, frame length, VCF count length


# ------------------------------------------------------------------------ headers
class UslpPrimaryHeader(Unit):
    name = "UslpPrimaryHeader"
    self_delimiting = True  # 7 octets + the VCF count length the header itself carries
    documented = _Documented()

    def corpus(self, tier):
        base = dict(scid=0x1234, src_dest=0, vcid=0x15, map_id=0xA, frame_len=0x0102, bypass=0, prot_cmd=0, ocf=0, vcf_len=0, vcf_count=0)
        out = [
            dict(base),
            dict(base, scid=0, vcid=0, map_id=0, frame_len=0),
            dict(base, scid=0xFFFF, src_dest=1, vcid=63, map_id=15, frame_len=0xFFFF, bypass=1, prot_cmd=1, ocf=1),
            dict(base, scid=0xFFFE, vcid=0b110111, map_id=0b0011, frame_len=0xFFFD, bypass=1, prot_cmd=1, ocf=1),  # tests/test_uslp.py
            dict(base, scid=0xA5A5, src_dest=1, vcid=0x2A, map_id=5, frame_len=0x5555),
            dict(base, scid=0x5A5A, vcid=0x15, map_id=0xA, frame_len=0xAAAA, bypass=1),
            dict(base, scid=0x8000, vcid=0x20, map_id=8, frame_len=0x8000, prot_cmd=1),
            dict(base, scid=1, vcid=1, map_id=1, frame_len=1, ocf=1),
        ]
        for n in range(1, 8):
            m = (1 << (8 * n)) - 1
            out.append(dict(base, vcf_len=n, vcf_count=int.from_bytes(bytes(range(0xA1, 0xA1 + n)), "big"), ocf=n & 1, bypass=(n >> 1) & 1))
            out.append(dict(base, scid=0xFFFF, vcid=63, map_id=15, src_dest=1, vcf_len=n, vcf_count=m))
            out.append(dict(base, scid=0, vcid=0, map_id=0, vcf_len=n, vcf_count=0))
        if tier == "thorough":
            for n in range(1, 8):
                out.append(dict(base, vcf_len=n, vcf_count=1 << (8 * n - 1)))
                out.append(dict(base, vcf_len=n, vcf_count=1))
        return out

    def build(self, recipe):
        return build_primary_header(recipe)

    def pack(self, obj, recipe=None) -> bytes:
        return bytes(obj.pack())

    def ref(self, r) -> bytes:
        return R.primary_header(r["scid"], r["src_dest"], r["vcid"], r["map_id"], r["frame_len"], r["bypass"], r["prot_cmd"],
                                int(bool(r["ocf"])), r["vcf_len"], r["vcf_count"] if r["vcf_len"] else 0)

    def decoders(self):
        h = _h()
        return [("PrimaryHeader.unpack", lambda b, recipe=None: h.PrimaryHeader.unpack(b)),
                ("determine_header_type+unpack", dispatch_header)]

    def observe(self, obj):
        return observe_header(obj)

    def expected(self, recipe):
        return expected_primary_header(recipe)

    def declared_len(self, obj) -> int:
        return obj.len()

    def length_bits(self, raw) -> set:
        return set(HDR_LENGTH_BITS)


class UslpTruncatedPrimaryHeader(Unit):
    name = "UslpTruncatedPrimaryHeader"
    self_delimiting = True  # fixed size: four octets
    documented = _Documented()

    def corpus(self, tier):
        out = []
        for scid, sd, vcid, mapid in ((0, 0, 0, 0), (0xFFFF, 1, 63, 15), (0x1111, 1, 0b101101, 0b1101), (0xA5A5, 0, 0x2A, 5), (0x5A5A, 1, 0x15, 0xA),
                                      (0x8000, 0, 0x20, 8), (1, 0, 1, 1), (0x7FFF, 1, 0x1F, 7), (12, 0, 5, 12), (0xFFFE, 0, 62, 14),
                                      (0x00F0, 0, 0x07, 0), (0x0F00, 1, 0x38, 15)):
            out.append(dict(scid=scid, src_dest=sd, vcid=vcid, map_id=mapid))
        return out

    def build(self, recipe):
        return build_truncated_header(recipe)

    def pack(self, obj, recipe=None) -> bytes:
        return bytes(obj.pack())

    def ref(self, r) -> bytes:
        return R.truncated_header(r["scid"], r["src_dest"], r["vcid"], r["map_id"])

    def decoders(self):
        h = _h()
        return [("TruncatedPrimaryHeader.unpack", lambda b, recipe=None: h.TruncatedPrimaryHeader.unpack(b)),
                ("determine_header_type+unpack", dispatch_header)]

    def observe(self, obj):
        return observe_header(obj)

    def expected(self, recipe):
        return expected_truncated_header(recipe)

    def declared_len(self, obj) -> int:
        return obj.len()

    def length_bits(self, raw) -> set:
        return {31}


# --------------------------------------------------------------------------- TFDF
class UslpTransferFrameDataField(Unit):
    """The data field alone.  Its length is given by the caller (`exact_len`), so it is not
    self-delimiting: a shortened buffer is indistinguishable from a shorter data zone."""

    name = "UslpTransferFrameDataField"
    self_delimiting = False
    documented = _Documented()

    def corpus(self, tier):
        out = []
        for rule in range(8):
            ptr_vals = (0, 0xFFFF, 0x0102) if rule in R.FIXED_RULES else (None,)
            for i, ptr in enumerate(ptr_vals):
                for n in ((0, 5), (1, 16), (3, 255))[i % 3] if rule in R.FIXED_RULES else (0, 1, 16):
                    out.append(dict(rule=rule, upid=(0, 31, 0x15, 4, 1)[(rule + n) % 5], ptr=ptr, tfdz=hx(tfdz_pattern(n, rule))))
        return out

    def build(self, recipe):
        return build_tfdf(recipe)

    def pack(self, obj, recipe=None) -> bytes:
        return bytes(obj.pack())

    def ref(self, r) -> bytes:
        return R.tfdf_header(r["rule"], r["upid"], r.get("ptr")) + unhex(r["tfdz"])

    def decoders(self):
        f = _f()

        def unpack(b, recipe):
            ft = f.FrameType.FIXED if recipe["rule"] in R.FIXED_RULES else f.FrameType.VARIABLE
            return f.TransferFrameDataField.unpack(raw_tfdf=b, truncated=False, exact_len=len(self.ref(recipe)), frame_type=ft)

        def unpack_untyped(b, recipe):
            return f.TransferFrameDataField.unpack(raw_tfdf=b, truncated=False, exact_len=len(self.ref(recipe)), frame_type=None)

        return [("TransferFrameDataField.unpack", unpack), ("TransferFrameDataField.unpack(frame_type=None)", unpack_untyped)]

    def observe(self, obj):
        return observe_tfdf(obj)

    def expected(self, recipe):
        return expected_tfdf(recipe)

    def declared_len(self, obj) -> int:
        return obj.len()


# ------------------------------------------------------------------------- frames
HDRS = [
    dict(scid=0xABCD, src_dest=1, vcid=0x2A, map_id=0xB, bypass=1, prot_cmd=0, vcf_len=2, vcf_count=0x0102),
    dict(scid=0x0010, src_dest=0, vcid=0b110111, map_id=0b0011, bypass=0, prot_cmd=0, vcf_len=0, vcf_count=0),  # tests/test_uslp.py
    dict(scid=0xFFFF, src_dest=1, vcid=63, map_id=15, bypass=1, prot_cmd=1, vcf_len=7, vcf_count=0xA1A2A3A4A5A6A7),
    dict(scid=0x0000, src_dest=0, vcid=0, map_id=0, bypass=0, prot_cmd=1, vcf_len=3, vcf_count=0xFFFEFD),
]
IZS = (None, b"\xa1", b"\xa1\xa2\xa3\xa4")
OCFS = (None, b"\x11\x22\x33\x44")
FECFS = (None, b"\xf1\xf2", b"\xf1\xf2\xf3\xf4")


def frame_recipe(hdr, rule, upid, ptr, tfdz, iz, ocf, fecf):
    return dict(hdr=dict(hdr), rule=rule, upid=upid, ptr=ptr, tfdz=hx(tfdz), iz=hx(iz), ocf=hx(ocf), fecf=hx(fecf))


def frame_parts(r):
    return unhex(r["tfdz"]), unhex(r.get("iz")), unhex(r.get("ocf")), unhex(r.get("fecf"))


def build_frame(r, truncated=False):
    """TransferFrame through the public constructors, frame length set through the public helper."""
    f = _f()
    tfdz, iz, ocf, fecf = frame_parts(r)
    if truncated:
        hdr = build_truncated_header(r["hdr"])
    else:
        hdr = build_primary_header(dict(r["hdr"], frame_len=0, ocf=int(ocf is not None)))
    fr = f.TransferFrame(header=hdr, tfdf=build_tfdf(r), insert_zone=iz, op_ctrl_field=ocf, fecf=fecf)
    fr.set_frame_len_in_header()
    return fr


def ref_frame(r, truncated=False) -> bytes:
    tfdz, iz, ocf, fecf = frame_parts(r)
    if truncated:
        return R.truncated_frame(r["hdr"], r["rule"], r["upid"], tfdz, iz, fecf)
    return R.frame(r["hdr"], r["rule"], r["upid"], r.get("ptr"), tfdz, iz, ocf, fecf)


def expected_frame(r, truncated=False):
    tfdz, iz, ocf, fecf = frame_parts(r)
    if truncated:
        eh = expected_truncated_header(r["hdr"])
    else:
        eh = expected_primary_header(dict(r["hdr"], frame_len=len(ref_frame(r)) - 1, ocf=int(ocf is not None)))
    return ("frame", eh, iz, expected_tfdf(r), ocf, fecf)


def matching_properties(r, kind, raw_len):
    """The managed parameters that describe the frame of recipe r (kind: fixed / var / trunc)."""
    f = _f()
    tfdz, iz, ocf, fecf = frame_parts(r)
    args = dict(has_insert_zone=iz is not None, has_fecf=fecf is not None, insert_zone_len=len(iz) if iz is not None else None,
                fecf_len=len(fecf) if fecf is not None else None)
    if kind == "fixed":
        return f.FrameType.FIXED, f.FixedFrameProperties(fixed_len=raw_len, **args)
    return f.FrameType.VARIABLE, f.VarFrameProperties(truncated_frame_len=raw_len if kind == "trunc" else 12, **args)


class _FrameUnit(Unit):
    kind = "var"
    documented = _Documented()
    rules = R.VARIABLE_RULES

    def _combos(self, tier):
        """(rule, tfdz_len, iz, ocf, fecf, hdr) - a covering set: every rule, every optional part
        present and absent, all three together, every TFDZ length class."""
        rules = list(self.rules)
        lens = [0, 1, 2, 3, 16, 255]
        out = []
        i = 0
        for iz in IZS:
            for ocf in OCFS:
                for fecf in FECFS:
                    out.append((rules[i % len(rules)], lens[i % len(lens)], iz, ocf, fecf, HDRS[i % len(HDRS)]))
                    i += 1
        for rule in rules:  # every rule with the empty and the one-octet data zone, nothing optional
            for n in (0, 1):
                out.append((rule, n, None, None, None, HDRS[(rule + n) % len(HDRS)]))
        if tier == "thorough":
            out.append((rules[0], 1024, IZS[2], OCFS[1], FECFS[1], HDRS[0]))
        return out

    def corpus(self, tier):
        out = []
        for k, (rule, n, iz, ocf, fecf, hdr) in enumerate(self._combos(tier)):
            ptr = (0, 0xFFFF, 0x0102)[k % 3] if rule in R.FIXED_RULES else None
            out.append(frame_recipe(hdr, rule, (0, 31, 0x15, 4, 1)[k % 5], ptr, tfdz_pattern(n, k), iz, ocf, fecf))
        return out

    def build(self, recipe):
        return build_frame(recipe, self.kind == "trunc")

    def pack(self, obj, recipe=None) -> bytes:
        f = _f()
        if self.kind == "trunc":
            return bytes(obj.pack(truncated=True))
        return bytes(obj.pack(frame_type=f.FrameType.FIXED if self.kind == "fixed" else f.FrameType.VARIABLE))

    def ref(self, recipe) -> bytes:
        return ref_frame(recipe, self.kind == "trunc")

    def decoders(self):
        f = _f()
        kind = self.kind

        def unpack(b, recipe):
            ft, props = matching_properties(recipe, kind, len(self.ref(recipe)))
            return f.TransferFrame.unpack(raw_frame=b, frame_type=ft, frame_properties=props)

        return [("TransferFrame.unpack", unpack)]

    def observe(self, obj):
        return observe_frame(obj)

    def expected(self, recipe):
        return expected_frame(recipe, self.kind == "trunc")

    def declared_len(self, obj) -> int:
        return obj.len()

    def length_bits(self, raw) -> set:
        return set(HDR_LENGTH_BITS)


class UslpTransferFrameVar(_FrameUnit):
    name = "UslpTransferFrameVar"
    kind = "var"
    self_delimiting = True  # the primary header carries the frame length
    rules = R.VARIABLE_RULES


class UslpTransferFrameFixed(_FrameUnit):
    name = "UslpTransferFrameFixed"
    kind = "fixed"
    self_delimiting = True  # header frame length and the managed fixed length
    rules = R.FIXED_RULES


class UslpTransferFrameTruncated(_FrameUnit):
    """Truncated frame (annex D): truncated header, one-octet TFDF header, TFDZ; no insert zone,
    OCF or FECF.  Its length is a managed parameter only, so it is not self-delimiting."""

    name = "UslpTransferFrameTruncated"
    kind = "trunc"
    self_delimiting = False
    rules = R.VARIABLE_RULES

    def _combos(self, tier):
        out = []
        hdrs = [dict(scid=12, src_dest=0, vcid=5, map_id=12), dict(scid=0xFFFF, src_dest=1, vcid=63, map_id=15),
                dict(scid=0xA5A5, src_dest=1, vcid=0x2A, map_id=5), dict(scid=0, src_dest=0, vcid=0, map_id=0)]
        k = 0
        for rule in self.rules:
            for n in (0, 1, 4, 16) if rule == 0b111 else (1, 4):
                out.append((rule, n, None, None, None, hdrs[k % len(hdrs)]))
                k += 1
        if tier == "thorough":
            out.append((0b111, 255, None, None, None, hdrs[0]))
        return out

    def length_bits(self, raw) -> set:
        return {31}


UNITS = {u.name: u for u in (UslpPrimaryHeader(), UslpTruncatedPrimaryHeader(), UslpTransferFrameDataField(),
                             UslpTransferFrameVar(), UslpTransferFrameFixed(), UslpTransferFrameTruncated())}
