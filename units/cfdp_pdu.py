"""Unit drivers of the CFDP PDU family: the fixed PDU header and the eight PDU kinds
(DESIGN.md 3.1), plus the generic per-PDU script used by C06, C07 and C12.

A recipe is plain data: {"cfg": {...}, "params": {...}}.  Octet strings are bytes or the
"hex:.." strings mc.rec.jsonable produces (both accepted everywhere); corpora emit "hex:.."
strings so that recipes are JSON-able as they are.

cfg     crc, large, idw, seqw, mode            0/1, 0/1, {1,2,4,8}, {1,2,4,8}, 0/1
        segctrl (default 0)                    only File Data PDUs and PduHeader use 1
        ids "std"|"dir" (default "std")        ID values are derived from the widths (ref.cfdp.cfg_ids):
                                               src != dst != seq, every octet different; "dir" uses octets
                                               that look like directive codes.  src/seq/dst override them.
        ptype, dir, segmeta                    PduHeader only
params  PduHeader     dlen
        EofPdu        cc, checksum (4 octets), size, fault (entity ID octets | None)
        FinishedPdu   cc, dc, fs, resps [ {action, status (4 bit), first, second|None, msg} ], fault
        AckPdu        acked (4|5), cc, ts
        MetadataPdu   closure, cs, size, src (str|None), dst (str|None), opts None | [ option ]
                      option: {"t":"flow","v"} {"t":"msg","v"} {"t":"fsreq","action","first","second"}
                              {"t":"fault","cc","handler"} {"t":"raw","type","v"}
        NakPdu        start, end, segs None | [[a, b], ...]
        PromptPdu     rr
        KeepAlivePdu  progress
        FileDataPdu   offset, data (octets | ["shaped", length, k]), md None | [state, octets]
"""

from __future__ import annotations

import copy

from mc.rec import unhex
from ref import cfdp as R
from units.base import Unit

CFG_DEFAULT = {"crc": 0, "large": 0, "idw": 1, "seqw": 1, "mode": 0, "segctrl": 0, "ids": "std"}
CFG_ORDER = ["ids", "mode", "idw", "seqw", "segctrl", "large", "crc"]
HEADER_FIELDS = ["pdu_type", "direction", "mode", "crc_flag", "large_file", "seg_ctrl", "seg_metadata_flag",
                 "source_id", "source_id_len", "seq_num", "seq_num_len", "dest_id", "dest_id_len"]

# default parameter vector per kind (the d=0 vector) and the order in which non-default axes are listed
PARAM_DEFAULT = {
    "PduHeader": {"dlen": 0},
    "EofPdu": {"fault": None, "cc": 0, "checksum": bytes(4), "size": 0},
    "FinishedPdu": {"fault": None, "resps": [], "cc": 0, "dc": 0, "fs": 0},
    "AckPdu": {"acked": 4, "cc": 0, "ts": 0},
    "MetadataPdu": {"opts": None, "src": None, "dst": None, "closure": 0, "cs": 0, "size": 0},
    "NakPdu": {"segs": None, "start": 0, "end": 0},
    "PromptPdu": {"rr": 0},
    "KeepAlivePdu": {"progress": 0},
    "FileDataPdu": {"md": None, "data": b"\x00", "offset": 0},
}
PARAM_FIELDS = {
    "PduHeader": ["data_field_len"],
    "EofPdu": ["condition_code", "file_checksum", "file_size", "fault_location"],
    "FinishedPdu": ["condition_code", "delivery_code", "file_status", "file_store_responses", "fault_location"],
    "AckPdu": ["directive_code_of_acked_pdu", "directive_subtype_code", "condition_code_of_acked_pdu", "transaction_status"],
    "MetadataPdu": ["closure_requested", "checksum_type", "file_size", "source_file_name", "dest_file_name", "options"],
    "NakPdu": ["start_of_scope", "end_of_scope", "segment_requests"],
    "PromptPdu": ["response_required"],
    "KeepAlivePdu": ["progress"],
    "FileDataPdu": ["offset", "file_data", "segment_metadata"],
}


class _Lib:
    """lazy handle on the library under test (imported from the tree the runner selected)"""

    _m = None

    def __getattr__(self, name):
        if _Lib._m is None:
            import spacepackets.cfdp as c
            import spacepackets.cfdp.defs as d
            import spacepackets.cfdp.pdu as p
            import spacepackets.cfdp.pdu.file_data as fd
            import spacepackets.cfdp.pdu.prompt as pr
            import spacepackets.cfdp.pdu.header as h
            import spacepackets.cfdp.tlv as t
            import spacepackets.util as u
            from spacepackets.cfdp.conf import PduConfig
            from spacepackets.cfdp.exceptions import InvalidCrc, TlvTypeMissmatch

            ns = {}
            for mod in (u, t, d, c, h, p, pr, fd):
                ns.update({k: v for k, v in vars(mod).items() if not k.startswith("_")})
            ns.update(PduConfig=PduConfig, InvalidCrc=InvalidCrc, TlvTypeMissmatch=TlvTypeMissmatch)
            _Lib._m = ns
        try:
            return _Lib._m[name]
        except KeyError:
            raise AttributeError(name)


L = _Lib()


def norm(recipe):
    """deep copy with "hex:.." strings turned into bytes and cfg defaults filled in"""
    r = unhex(copy.deepcopy(recipe))
    cfg = dict(CFG_DEFAULT)
    cfg.update(r.get("cfg") or {})
    return {"cfg": cfg, "params": dict(r.get("params") or {})}


def hexed(x):
    """bytes -> "hex:.." recursively (recipes emitted by corpora and stored in cases)"""
    if isinstance(x, (bytes, bytearray)):
        return "hex:" + bytes(x).hex()
    if isinstance(x, dict):
        return {k: hexed(v) for k, v in x.items()}
    if isinstance(x, (list, tuple)):
        return [hexed(v) for v in x]
    return x


def pdu_config(cfg, direction=None):
    src, seq, dst = R.cfg_ids(cfg)
    conf = L.PduConfig(
        source_entity_id=L.ByteFieldGenerator.from_int(cfg["idw"], src),
        dest_entity_id=L.ByteFieldGenerator.from_int(cfg["idw"], dst),
        transaction_seq_num=L.ByteFieldGenerator.from_int(cfg["seqw"], seq),
        trans_mode=L.TransmissionMode(cfg["mode"]),
        file_flag=L.LargeFileFlag(cfg["large"]),
        crc_flag=L.CrcFlag(cfg["crc"]),
        seg_ctrl=L.SegmentationControl(cfg.get("segctrl", 0)),
    )
    if direction is None:
        direction = cfg.get("caller_dir")  # the direction the CALLER's configuration carries (the PDU classes put in their own)
    if direction is not None:
        conf.direction = L.Direction(direction)
    return conf


def build_response(r):
    return L.FileStoreResponseTlv(
        action_code=L.FilestoreActionCode(r["action"]),
        status_code=L.FilestoreResponseStatusCode(r["action"] << 4 | r["status"]),
        first_file_name=r["first"],
        second_file_name=r.get("second") or "",
        filestore_msg=L.CfdpLv(bytes(r.get("msg") or b"")),
    )


def build_option(o):
    t = o["t"]
    if t == "flow":
        return L.FlowLabelTlv(bytes(o["v"]))
    if t == "msg":
        return L.MessageToUserTlv(bytes(o["v"]))
    if t == "fsreq":
        return L.FileStoreRequestTlv(L.FilestoreActionCode(o["action"]), o["first"], o.get("second") or "")
    if t == "fault":
        return L.FaultHandlerOverrideTlv(L.ConditionCode(o["cc"]), L.FaultHandlerCode(o["handler"]))
    if t == "raw":
        return L.CfdpTlv(L.TlvType(o["type"]), bytes(o["v"]))
    raise AssertionError(o)


def header_obs(h) -> tuple:
    return (int(h.pdu_type), int(h.direction), int(h.transmission_mode), int(h.crc_flag), int(h.file_flag), int(h.seg_ctrl),
            int(h.segment_metadata_flag), int(h.source_entity_id.value), int(h.source_entity_id.byte_len),
            int(h.transaction_seq_num.value), int(h.transaction_seq_num.byte_len), int(h.dest_entity_id.value),
            int(h.dest_entity_id.byte_len))


def header_exp(kind, cfg, p) -> tuple:
    src, seq, dst = R.cfg_ids(cfg)
    if kind == "PduHeader":
        ptype, direction, segmeta = cfg.get("ptype", 0), cfg.get("dir", 0), cfg.get("segmeta", 0)
    else:
        ptype = 1 if kind == "FileDataPdu" else 0
        direction = R.pdu_direction(kind, p)
        segmeta = 1 if (kind == "FileDataPdu" and p.get("md") is not None) else 0
    return (ptype, direction, cfg["mode"], cfg["crc"], cfg["large"], cfg.get("segctrl", 0), segmeta, src, cfg["idw"], seq,
            cfg["seqw"], dst, cfg["idw"])


def _opt_bytes(x):
    return None if x is None else bytes(x)


class PduUnitBase(Unit):
    self_delimiting = False
    is_cfdp_pdu = True
    kind = "?"

    @property
    def name(self):
        return self.kind

    @property
    def documented(self):
        return (ValueError, L.InvalidCrc, L.UnsupportedCfdpVersion, L.TlvTypeMissmatch)

    @property
    def field_names(self):
        return HEADER_FIELDS + PARAM_FIELDS[self.kind]

    def cls(self):
        return getattr(L, self.kind)

    # -- Unit interface -------------------------------------------------------------
    def corpus(self, tier):
        out = []
        combos = [(1, 1), (2, 4), (4, 8), (8, 2)]
        if tier == "thorough":
            combos += [(1, 8), (8, 1), (2, 2), (4, 4)]
        i = 0
        for crc in (0, 1):
            for large in (0, 1):
                for idw, seqw in combos:
                    # segmentation control is a header bit every PDU kind carries (it shares octet 3 with the two width fields)
                    cfg = {"crc": crc, "large": large, "idw": idw, "seqw": seqw, "mode": i % 2, "segctrl": (i // 2) % 2}
                    i += 1
                    for tag in self.param_set_tags():
                        c = dict(cfg)
                        p = self.param_set(tag, c)
                        out.append(hexed({"cfg": c, "params": p}))
        return out

    def param_set_tags(self):
        return ["min", "full"]

    def param_set(self, tag, cfg):
        raise NotImplementedError

    def build(self, recipe):
        r = norm(recipe)
        return self._build(r["cfg"], r["params"])

    def ref(self, recipe) -> bytes:
        r = norm(recipe)
        return self._ref(r["cfg"], r["params"])

    def _ref(self, cfg, p) -> bytes:
        return R.encode_pdu(self.kind, cfg, p)

    def _exp(self, cfg, p) -> tuple:
        return header_exp(self.kind, cfg, p) + self._expected(cfg, p)

    def decoders(self):
        cls = self.cls()
        fac = L.PduFactory

        def unpack(b, recipe=None):
            return cls.unpack(b)

        def from_raw(b, recipe=None):
            return fac.from_raw(b)

        return [(self.kind + ".unpack", unpack), ("PduFactory.from_raw", from_raw)]

    def observe(self, obj) -> tuple:
        return header_obs(obj.pdu_header) + self._observe(obj)

    def expected(self, recipe) -> tuple:
        r = norm(recipe)
        return self._exp(r["cfg"], r["params"])

    def declared_len(self, obj) -> int:
        return obj.packet_len

    def crc_protected(self, recipe) -> bool:
        return bool((recipe.get("cfg") or {}).get("crc", 0))

    def length_bits(self, raw) -> set:
        """data field length (octets 1-2), the two 3-bit width fields of octet 3 and the CRC flag bit of
        octet 0 (DESIGN.md C04: with that bit cleared the octets are, by definition, a PDU without CRC)"""
        return set(range(8, 24)) | {25, 26, 27, 29, 30, 31} | {6}

    # -- minimisation support: non-default axes of a recipe ----------------------------
    def features(self, recipe):
        """[(key, label)] of every axis that is not at its default; cfg axes first"""
        r = norm(recipe)
        out = []
        for k in CFG_ORDER + [x for x in r["cfg"] if x not in CFG_ORDER]:
            v = r["cfg"].get(k, CFG_DEFAULT.get(k))
            if v is not None and v != CFG_DEFAULT.get(k, 0 if k in ("ptype", "dir", "segmeta") else None):
                out.append(("cfg." + k, f"{k}!=default" if k in ("src", "seq", "dst") else f"{k}={v}"))
        dflt = PARAM_DEFAULT[self.kind]
        for k in dflt:
            v = r["params"].get(k, dflt[k])
            if k == "data":
                v = R.data_octets(v)
            if v != dflt[k] and not (v in (None, []) and dflt[k] in (None, [])):
                out.append((k, self._label(k, v, dflt[k])))
        return out

    @staticmethod
    def _label(k, v, d):
        if k == "data":
            return "data=empty" if len(v) == 0 else ("data=long" if len(v) > 64 else "data!=00")
        if k in ("src", "dst"):
            return f"{k}=nonascii" if any(ord(ch) > 127 for ch in v) else (f"{k}=empty" if v == "" else f"{k}=set")
        if isinstance(v, (bytes, bytearray)):
            return f"{k}!={bytes(d).hex()}" if isinstance(d, (bytes, bytearray)) else f"{k}=1"
        if isinstance(v, list):
            return f"{k}=1" if k == "md" else f"{k}>0" if v else f"{k}=[]"
        if isinstance(v, int) and isinstance(d, int):
            if k in ("dc", "closure", "rr"):
                return f"{k}={v}"
            if k == "acked":
                return f"acked={v}"
            return f"{k}!={d}"
        return f"{k}=1"

    def reset(self, recipe, key):
        """the recipe with one axis put back to its default, or None where that leaves the domain"""
        r = norm(recipe)
        if key.startswith("cfg."):
            k = key[4:]
            if k in CFG_DEFAULT:
                r["cfg"][k] = CFG_DEFAULT[k]
            else:
                r["cfg"].pop(k, None)
            if k in ("idw", "seqw"):  # explicit ID values are folded into the new width
                for f, w in (("src", r["cfg"]["idw"]), ("dst", r["cfg"]["idw"]), ("seq", r["cfg"]["seqw"])):
                    if r["cfg"].get(f) is not None:
                        r["cfg"][f] &= (1 << (8 * w)) - 1
            if k == "large":  # values that only fit 64 bit are folded into 32 bit (kept non-zero)
                def fold(x):
                    return x if x < (1 << 32) else ((x & 0xFFFFFFFF) or 1)

                for pk, pv in list(r["params"].items()):
                    if isinstance(pv, int) and not isinstance(pv, bool):
                        r["params"][pk] = fold(pv)
                    elif pk == "segs" and pv:
                        r["params"][pk] = [[fold(a), fold(b)] for a, b in pv]
            return r
        if key == "cc" and r["params"].get("fault") is not None:
            return None  # a fault location needs an error condition code
        r["params"][key] = copy.deepcopy(PARAM_DEFAULT[self.kind][key])
        return r

    # -- per kind ------------------------------------------------------------------------
    def _build(self, cfg, p):
        raise NotImplementedError

    def _observe(self, obj) -> tuple:
        raise NotImplementedError

    def _expected(self, cfg, p) -> tuple:
        raise NotImplementedError


def _big(cfg):
    return 0x0102030405060708 if cfg["large"] else 0x01020304


def _fault_for(cfg):
    return bytes(range(0x31, 0x31 + cfg["idw"]))


RESP_TWO_NAMES_MSG = {"action": 2, "status": 0xF, "first": "a", "second": "bc", "msg": b"m"}
RESP_ONE_NAME = {"action": 5, "status": 0, "first": "d", "second": None, "msg": b""}
RESP_TWO_NAMES = {"action": 3, "status": 1, "first": "x.txt", "second": "y.txt", "msg": b""}
RESP_ONE_NAME_MSG = {"action": 1, "status": 0, "first": "f", "second": None, "msg": bytes(range(200))}
RESP_REPLACE = {"action": 4, "status": 0, "first": "old.bin", "second": "new.bin", "msg": b"r"}  # the third two-name action (rename 2, append 3, replace 4)
OPTS_REPLACE_REQ = [{"t": "fsreq", "action": 4, "first": "old.bin", "second": "new.bin"}, {"t": "fsreq", "action": 3, "first": "a", "second": "b"}]
OPT_FLOW = {"t": "flow", "v": b"xy"}
OPTS_MIXED = [{"t": "msg", "v": b"hello"}, {"t": "fsreq", "action": 1, "first": "f", "second": None},
              {"t": "fault", "cc": 6, "handler": 4}]
OPTS_TWO_NAME_REQ = [{"t": "fsreq", "action": 2, "first": "a", "second": "b"}, {"t": "raw", "type": 5, "v": b""}]


class EofUnit(PduUnitBase):
    kind = "EofPdu"

    def param_set(self, tag, cfg):
        if tag == "min":
            return {"cc": 0, "checksum": b"\x12\x34\x56\x78", "size": 0x0102, "fault": None}
        return {"cc": 6, "checksum": b"\xde\xad\xbe\xef", "size": _big(cfg), "fault": _fault_for(cfg)}

    def _build(self, cfg, p):
        fl = None if p.get("fault") is None else L.EntityIdTlv(bytes(p["fault"]))
        return L.EofPdu(pdu_config(cfg), bytes(p["checksum"]), p["size"], fl, L.ConditionCode(p["cc"]))

    def _observe(self, o):
        return (int(o.condition_code), bytes(o.file_checksum), int(o.file_size),
                None if o.fault_location is None else bytes(o.fault_location.value))

    def _expected(self, cfg, p):
        return (p["cc"], bytes(p["checksum"]), p["size"], _opt_bytes(p.get("fault")))


class FinishedUnit(PduUnitBase):
    kind = "FinishedPdu"

    def param_set(self, tag, cfg):
        if tag == "min":
            return {"cc": 0, "dc": 0, "fs": 2, "resps": [], "fault": None}
        return {"cc": 4, "dc": 1, "fs": 1, "resps": [dict(RESP_TWO_NAMES_MSG), dict(RESP_ONE_NAME)], "fault": _fault_for(cfg)}

    def _build(self, cfg, p):
        fl = None if p.get("fault") is None else L.EntityIdTlv(bytes(p["fault"]))
        params = L.FinishedParams(L.ConditionCode(p["cc"]), L.DeliveryCode(p["dc"]), L.FileStatus(p["fs"]),
                                  [build_response(r) for r in p.get("resps") or []], fl)
        return L.FinishedPdu(pdu_config(cfg), params)

    def _observe(self, o):
        return (int(o.condition_code), int(o.delivery_code), int(o.file_status),
                tuple(bytes(r.pack()) for r in (o.file_store_responses or [])),
                None if o.fault_location is None else bytes(o.fault_location.value))

    def _expected(self, cfg, p):
        return (p["cc"], p["dc"], p["fs"], tuple(R.response_octets(r) for r in p.get("resps") or []), _opt_bytes(p.get("fault")))


class AckUnit(PduUnitBase):
    kind = "AckPdu"

    def param_set(self, tag, cfg):
        return {"acked": 4, "cc": 0, "ts": 1} if tag == "min" else {"acked": 5, "cc": 15, "ts": 2}

    def _build(self, cfg, p):
        return L.AckPdu(pdu_config(cfg), L.DirectiveType(p["acked"]), L.ConditionCode(p["cc"]), L.TransactionStatus(p["ts"]))

    def _observe(self, o):
        return (int(o.directive_code_of_acked_pdu), int(o.directive_subtype_code), int(o.condition_code_of_acked_pdu),
                int(o.transaction_status))

    def _expected(self, cfg, p):
        return (p["acked"], R.ack_subtype(p["acked"]), p["cc"], p["ts"])


class MetadataUnit(PduUnitBase):
    kind = "MetadataPdu"

    def param_set(self, tag, cfg):
        if tag == "min":
            return {"closure": 0, "cs": 0, "size": 0, "src": None, "dst": None, "opts": None}
        return {"closure": 1, "cs": 3, "size": _big(cfg), "src": "src/ä.bin", "dst": "dst.bin", "opts": copy.deepcopy(OPTS_MIXED)}

    def _build(self, cfg, p):
        params = L.MetadataParams(bool(p["closure"]), L.ChecksumType(p["cs"]), p["size"], p.get("src"), p.get("dst"))
        opts = p.get("opts")
        return L.MetadataPdu(pdu_config(cfg), params, None if opts is None else [build_option(o) for o in opts])

    def _observe(self, o):
        # an absent name is documented to read back as None; "" and None are the same value here
        return (int(bool(o.closure_requested)), int(o.checksum_type), int(o.file_size), o.source_file_name or None,
                o.dest_file_name or None, tuple(bytes(t.pack()) for t in (o.options or [])))

    def _expected(self, cfg, p):
        return (p["closure"], p["cs"], p["size"], p.get("src") or None, p.get("dst") or None,
                tuple(R.option_octets(x) for x in p.get("opts") or []))


class NakUnit(PduUnitBase):
    kind = "NakPdu"

    def param_set(self, tag, cfg):
        if tag == "min":
            return {"start": 0, "end": 0, "segs": None}
        b = _big(cfg)
        return {"start": 0x0102, "end": b, "segs": [[1, 2], [b - 1, b], [0x0102, 0x0304]]}

    def _build(self, cfg, p):
        segs = p.get("segs")
        return L.NakPdu(pdu_config(cfg), p["start"], p["end"], None if segs is None else [tuple(s) for s in segs])

    def _observe(self, o):
        return (int(o.start_of_scope), int(o.end_of_scope), tuple((int(a), int(b)) for a, b in (o.segment_requests or [])))

    def _expected(self, cfg, p):
        return (p["start"], p["end"], tuple((a, b) for a, b in (p.get("segs") or [])))


class PromptUnit(PduUnitBase):
    kind = "PromptPdu"

    def param_set(self, tag, cfg):
        return {"rr": 0} if tag == "min" else {"rr": 1}

    def _build(self, cfg, p):
        return L.PromptPdu(pdu_config(cfg), L.ResponseRequired(p["rr"]))

    def _observe(self, o):
        return (int(o.response_required),)

    def _expected(self, cfg, p):
        return (p["rr"],)


class KeepAliveUnit(PduUnitBase):
    kind = "KeepAlivePdu"

    def param_set(self, tag, cfg):
        return {"progress": 0} if tag == "min" else {"progress": _big(cfg)}

    def _build(self, cfg, p):
        return L.KeepAlivePdu(pdu_config(cfg), p["progress"])

    def _observe(self, o):
        return (int(o.progress),)

    def _expected(self, cfg, p):
        return (p["progress"],)


class FileDataUnit(PduUnitBase):
    kind = "FileDataPdu"

    def param_set_tags(self):
        return ["min", "plain", "full"]

    def param_set(self, tag, cfg):
        if tag == "min":
            return {"offset": 0, "data": b"", "md": None}
        if tag == "plain":
            return {"offset": 0x0102, "data": b"hello", "md": None}
        cfg["segctrl"] = 1
        return {"offset": _big(cfg), "data": bytes(range(0x40, 0x50)), "md": [3, b"\x99\x98"]}

    def _build(self, cfg, p):
        md = p.get("md")
        sm = None if md is None else L.SegmentMetadata(L.RecordContinuationState(md[0]), bytes(md[1]))
        return L.FileDataPdu(pdu_config(cfg), L.FileDataParams(R.data_octets(p["data"]), p["offset"], sm))

    def _observe(self, o):
        sm = o.segment_metadata
        view = None if sm is None else (int(sm.record_cont_state), bytes(sm.metadata))
        # the PDU's own accessors for the same facts (presence flag, continuation state) must tell the same story
        rcs = o.record_cont_state
        acc = (bool(o.has_segment_metadata), None if rcs is None else int(rcs))
        if acc != (sm is not None, None if sm is None else int(sm.record_cont_state)):
            view = ("accessors-disagree", acc, view)
        return (int(o.offset), bytes(o.file_data), view)

    def _expected(self, cfg, p):
        md = p.get("md")
        return (p["offset"], R.data_octets(p["data"]), None if md is None else (md[0], bytes(md[1])))


class PduHeaderUnit(PduUnitBase):
    kind = "PduHeader"
    self_delimiting = True
    is_cfdp_pdu = False

    @property
    def documented(self):
        return (ValueError, L.UnsupportedCfdpVersion)

    def corpus(self, tier):
        out = []
        combos = [(1, 1), (2, 4), (4, 8), (8, 2)] + ([(1, 8), (8, 1), (2, 2), (4, 4)] if tier == "thorough" else [])
        dlens = [0, 1, 255, 256, 0x1234, 65535]
        i = 0
        for crc in (0, 1):
            for large in (0, 1):
                for idw, seqw in combos:
                    for ptype in (0, 1):
                        cfg = {"crc": crc, "large": large, "idw": idw, "seqw": seqw, "mode": i % 2, "ptype": ptype,
                               "dir": (i // 2) % 2, "segctrl": (i // 3) % 2, "segmeta": (i // 5) % 2}
                        out.append({"cfg": cfg, "params": {"dlen": dlens[i % len(dlens)]}})
                        i += 1
        return out

    def cls(self):
        return L.PduHeader

    def _build(self, cfg, p):
        return L.PduHeader(L.PduType(cfg.get("ptype", 0)), L.SegmentMetadataFlag(cfg.get("segmeta", 0)), p["dlen"],
                           pdu_config(cfg, cfg.get("dir", 0)))

    def _ref(self, cfg, p) -> bytes:
        return R.encode_header(cfg, p)

    def decoders(self):
        def unpack(b, recipe=None):
            return L.PduHeader.unpack(b)

        return [("PduHeader.unpack", unpack)]

    def observe(self, obj) -> tuple:
        return header_obs(obj) + (int(obj.pdu_data_field_len),)

    def _exp(self, cfg, p) -> tuple:
        return header_exp("PduHeader", cfg, p) + (p["dlen"],)

    def declared_len(self, obj) -> int:
        """the self-delimiting unit is the fixed header itself: 4 + 2*idw + seqw octets"""
        return obj.header_len

    def crc_protected(self, recipe) -> bool:
        return False


UNITS = {u.name: u for u in (PduHeaderUnit(), EofUnit(), FinishedUnit(), AckUnit(), MetadataUnit(), NakUnit(), PromptUnit(),
                             KeepAliveUnit(), FileDataUnit())}
PDU_KINDS = R.KINDS


# ======================================================================================
# generic per-PDU script (C06, C07 through the class decoder; C12 through the factory)
# ======================================================================================
class Failure:
    __slots__ = ("clause", "subject", "kind", "observed", "expected")

    def __init__(self, clause, subject, kind, observed=None, expected=None):
        self.clause, self.subject, self.kind, self.observed, self.expected = clause, subject, kind, observed, expected


OPS_PER_CASE = 16
_LAST = {}  # objects produced by the most recent evaluate(): handed to the independence oracle by judge()


def _obs_full(unit):
    def f(o):
        return (unit.observe(o), int(o.packet_len), int(o.pdu_data_field_len))
    return f


def evaluate(unit, recipe, via="class", encode_side=True):
    """Run the fixed script of DESIGN.md C06/C07 'O' on one recipe; first disagreement or None.

    via == "class":   <Kind>.unpack(ref)        subjects  <Kind>.__init__ / .pack / .unpack
    via == "factory": PduFactory.from_raw(ref)  subject   PduFactory.from_raw(<Kind>)
    """
    kind = unit.kind
    r = norm(recipe)
    cfg, p = r["cfg"], r["params"]
    ref = unit._ref(cfg, p)
    hlen = R.header_len_of(cfg["idw"], cfg["seqw"])
    obj = None
    _LAST.clear()
    try:
        obj = unit._build(cfg, p)
    except Exception as e:
        if encode_side:
            return Failure("encode", kind + ".__init__", "exception", repr(e), ref)
    if obj is not None and encode_side:
        try:
            raw_obj = obj.pack()
            raw = bytes(raw_obj)
        except Exception as e:
            return Failure("encode", kind + ".pack", "exception", repr(e), ref)
        _LAST["built"] = (kind + ".__init__", obj)
        _LAST["packed"] = (kind + ".pack", raw_obj)
        if raw != ref:
            return Failure("encode", kind + ".pack", "octets", raw, ref)
        try:
            lens = (int(obj.packet_len), int(obj.pdu_data_field_len))
        except Exception as e:
            return Failure("encode", kind + ".packet_len", "exception", repr(e), None)
        if lens != (len(ref), len(ref) - hlen):
            return Failure("encode", kind + ".packet_len", "packet_len/pdu_data_field_len", lens, (len(ref), len(ref) - hlen))
        # the direction bit of a PDU is fixed by its kind (the standard's "toward file receiver / sender"), whatever direction the
        # caller's configuration object happens to carry (e.g. the configuration of the PDU just received)
        if kind != "PduHeader" and "caller_dir" not in cfg:
            try:
                raw2 = bytes(unit._build(dict(cfg, caller_dir=1), p).pack())
            except Exception as e:
                return Failure("encode", kind + ".pack", "exception/caller-direction=1", repr(e), ref)
            if raw2 != ref:
                return Failure("encode", kind + ".pack", "octets/caller-direction=1", raw2, ref)
    subject = kind + ".unpack" if via == "class" else f"PduFactory.from_raw({kind})"
    # the decoder is handed a mutable receive buffer which the caller re-uses (overwrites) as soon as the call returns:
    # a decoded PDU is a value, it must not keep looking into the caller's buffer
    buf = bytearray(ref)
    try:
        u = unit.cls().unpack(buf) if via == "class" else L.PduFactory.from_raw(buf)
    except Exception as e:
        return Failure("decode", subject, "refused", repr(e), None)
    for i in range(len(buf)):
        buf[i] ^= 0xFF
    if type(u) is not unit.cls():
        return Failure("decode", subject, "wrong-class", type(u).__name__, kind)
    _LAST["decoded"] = (subject, u)
    exp = unit._exp(cfg, p)
    try:
        obs = unit.observe(u)
    except Exception as e:
        return Failure("decode", subject, "fields=unreadable", repr(e), exp)
    if obs != exp:
        names = unit.field_names
        diff = [names[i] for i in range(len(exp)) if i >= len(obs) or obs[i] != exp[i]]
        return Failure("decode", subject, "fields=" + "+".join(diff), obs, exp)
    try:
        lens = (int(u.packet_len), int(u.pdu_data_field_len))
    except Exception as e:
        return Failure("decode", subject, "decoded-length", repr(e), None)
    if lens != (len(ref), len(ref) - hlen):
        return Failure("decode", subject, "decoded-length", lens, (len(ref), len(ref) - hlen))
    if obj is not None:
        try:
            eq = bool(u == obj) and bool(obj == u)
        except Exception as e:
            return Failure("decode", subject, "not-equal-to-original", repr(e), True)
        if not eq:
            return Failure("decode", subject, "not-equal-to-original", False, True)
    try:
        again = bytes(u.pack())
    except Exception as e:
        return Failure("decode", subject, "repack", repr(e), ref)
    if again != ref:
        return Failure("decode", subject, "repack", again, ref)
    # packing is an observation: the decoded PDU (whose octet strings are slices of a mutable receive buffer) and the
    # constructed one still expose the same values afterwards and pack to the same octets a second time
    for who, o in ((subject, u), (kind + ".pack", obj if encode_side else None)):
        if o is None:
            continue
        try:
            obs2, again2 = unit.observe(o), bytes(o.pack())
        except Exception as e:
            return Failure("decode" if o is u else "encode", who, "second-pack", repr(e), ref)
        if obs2 != exp:
            return Failure("decode" if o is u else "encode", who, "fields-changed-by-pack", obs2, exp)
        if again2 != ref:
            return Failure("decode" if o is u else "encode", who, "second-pack", again2, ref)
    return None


def minimise(unit, recipe, fail, via, encode_side=True, evaluator=None):
    """delta-debugging over the choice vector: put every non-default axis back to its default as long as the
    same entry point keeps failing; returns (minimal recipe, its failure, labels of the axes that stayed)"""
    evaluator = evaluator or evaluate
    cur = norm(recipe)
    site = (fail.clause, fail.subject)
    changed = True
    rounds = 0
    while changed and rounds < 4:
        changed = False
        rounds += 1
        for key, _ in unit.features(cur):
            red = unit.reset(cur, key)
            if red is None:
                continue
            f2 = evaluator(unit, red, via, encode_side)
            if f2 is not None and (f2.clause, f2.subject) == site:
                cur, fail, changed = red, f2, True
    return cur, fail, [lab for _, lab in unit.features(cur)]


def ctor_source(kind, cfg, p) -> str:
    """Python source that constructs the PDU of a recipe with nothing but `import spacepackets` (for repro_py)"""
    src, seq, dst = R.cfg_ids(cfg)
    direction = f", direction=Direction({cfg.get('dir', 0)})" if kind == "PduHeader" else ""
    lines = [
        "from spacepackets.cfdp import *; from spacepackets.cfdp.defs import *; from spacepackets.cfdp.conf import PduConfig",
        "from spacepackets.cfdp.pdu import *; from spacepackets.cfdp.pdu.file_data import *; from spacepackets.cfdp.pdu.prompt import ResponseRequired",
        "from spacepackets.cfdp.tlv import *; from spacepackets.util import ByteFieldGenerator as G",
        f"conf = PduConfig(source_entity_id=G.from_int({cfg['idw']}, {src:#x}), dest_entity_id=G.from_int({cfg['idw']}, {dst:#x}), "
        f"transaction_seq_num=G.from_int({cfg['seqw']}, {seq:#x}), trans_mode=TransmissionMode({cfg['mode']}), "
        f"file_flag=LargeFileFlag({cfg['large']}), crc_flag=CrcFlag({cfg['crc']}), seg_ctrl=SegmentationControl({cfg.get('segctrl', 0)}){direction})",
    ]

    def fl(x):
        return "None" if x is None else f"EntityIdTlv({bytes(x)!r})"

    def resp(r):
        return (f"FileStoreResponseTlv(FilestoreActionCode({r['action']}), FilestoreResponseStatusCode({r['action'] << 4 | r['status']}), "
                f"{r['first']!r}, {(r.get('second') or '')!r}, CfdpLv({bytes(r.get('msg') or b'')!r}))")

    def opt(o):
        t = o["t"]
        if t == "flow":
            return f"FlowLabelTlv({bytes(o['v'])!r})"
        if t == "msg":
            return f"MessageToUserTlv({bytes(o['v'])!r})"
        if t == "fsreq":
            return f"FileStoreRequestTlv(FilestoreActionCode({o['action']}), {o['first']!r}, {(o.get('second') or '')!r})"
        if t == "fault":
            return f"FaultHandlerOverrideTlv(ConditionCode({o['cc']}), FaultHandlerCode({o['handler']}))"
        return f"CfdpTlv(TlvType({o['type']}), {bytes(o['v'])!r})"

    if kind == "PduHeader":
        e = f"PduHeader(PduType({cfg.get('ptype', 0)}), SegmentMetadataFlag({cfg.get('segmeta', 0)}), {p['dlen']}, conf)"
    elif kind == "EofPdu":
        e = f"EofPdu(conf, {bytes(p['checksum'])!r}, {p['size']:#x}, {fl(p.get('fault'))}, ConditionCode({p['cc']}))"
    elif kind == "FinishedPdu":
        e = (f"FinishedPdu(conf, FinishedParams(ConditionCode({p['cc']}), DeliveryCode({p['dc']}), FileStatus({p['fs']}), "
             f"[{', '.join(resp(r) for r in p.get('resps') or [])}], {fl(p.get('fault'))}))")
    elif kind == "AckPdu":
        e = f"AckPdu(conf, DirectiveType({p['acked']}), ConditionCode({p['cc']}), TransactionStatus({p['ts']}))"
    elif kind == "MetadataPdu":
        opts = p.get("opts")
        e = (f"MetadataPdu(conf, MetadataParams({bool(p['closure'])}, ChecksumType({p['cs']}), {p['size']:#x}, {p.get('src')!r}, {p.get('dst')!r}), "
             f"{'None' if opts is None else '[' + ', '.join(opt(o) for o in opts) + ']'})")
    elif kind == "NakPdu":
        segs = p.get("segs")
        e = f"NakPdu(conf, {p['start']:#x}, {p['end']:#x}, {None if segs is None else [tuple(x) for x in segs]!r})"
    elif kind == "PromptPdu":
        e = f"PromptPdu(conf, ResponseRequired({p['rr']}))"
    elif kind == "KeepAlivePdu":
        e = f"KeepAlivePdu(conf, {p['progress']:#x})"
    else:
        md = p.get("md")
        data = R.data_octets(p["data"])
        ds = repr(data) if len(data) <= 512 else f"bytes.fromhex('{data[:16].hex()}' + ...)  # {len(data)} octets, see the recipe"
        e = (f"FileDataPdu(conf, FileDataParams({ds}, {p['offset']:#x}, "
             f"{'None' if md is None else f'SegmentMetadata(RecordContinuationState({md[0]}), {bytes(md[1])!r})'}))")
    lines.append("pdu = " + e)
    return "\n".join(lines)


def repro_source(unit, recipe, via, fail) -> str:
    r = norm(recipe)
    kind = unit.kind
    ref = unit._ref(r["cfg"], r["params"])
    out = [ctor_source(kind, r["cfg"], r["params"])]
    refline = (f"ref = bytes.fromhex('{ref.hex()}')  # reference octets per CCSDS 727.0-B-5" if len(ref) <= 2048
               else f"ref = ...  # {len(ref)} reference octets: ref.cfdp.encode_pdu({kind!r}, cfg, params)")
    out.append(refline)
    if fail.clause in ("encode", "length"):
        out.append("assert bytes(pdu.pack()) == ref and pdu.packet_len == len(ref)")
    else:
        call = f"{kind}.unpack(ref)" if via == "class" else "PduFactory.from_raw(ref)"
        out.append(f"u = {call}  # expected: decodes to the parameters above; {fail.kind}")
        out.append("assert type(u) is type(pdu) and u == pdu and pdu == u and bytes(u.pack()) == ref and u.packet_len == len(ref)")
    return "\n".join(out)


_SIG_CACHE = {}


def judge(rec, pid, clause_prefix, unit, recipe, via="class", encode_side=True, evaluator=None):
    """evaluate one recipe, count it, and report a disagreement under a coarse signature
    '<pid>.<clause>/<subject>/<kind>[/<feature>...]' whose witness is the minimised recipe"""
    fail = (evaluator or evaluate)(unit, recipe, via, encode_side)
    # independence oracle (mc/alias.py): results handed out for EARLIER recipes must not have changed
    keeper = getattr(rec, "_pdu_keeper", None)
    if keeper is None:
        from mc.alias import Keeper
        keeper = rec._pdu_keeper = Keeper(rec, pid, depth=6, live=True)  # the results of the last two recipes
    case = {"kind": "pdu", "unit": unit.kind, "via": via, "enc": bool(encode_side), "recipe": hexed(recipe)}
    keeper.recheck(case)
    if fail is None and (evaluator is None or evaluator is evaluate):
        for slot, (subject, o) in list(_LAST.items()):
            keeper.hold(subject, o, bytes if slot == "packed" else _obs_full(unit), case)
    _LAST.clear()
    if fail is None:
        return True
    labels = tuple(lab for _, lab in unit.features(recipe))
    key = (pid, via, fail.clause, fail.subject, labels)
    hit = _SIG_CACHE.get(key)
    if hit is None:
        mrec, mfail, mlabels = minimise(unit, recipe, fail, via, encode_side, evaluator)
        clause = clause_prefix or mfail.clause
        sig = f"{pid}.{clause}/{mfail.subject}/{mfail.kind}" + "".join("/" + x for x in mlabels)
        hit = _SIG_CACHE[key] = (sig, hexed(mrec), mfail, repro_source(unit, mrec, via, mfail))
    sig, mrec, mfail = hit[:3]
    rec.violation(sig, {"kind": "pdu", "unit": unit.kind, "via": via, "enc": bool(encode_side), "recipe": mrec},
                  mfail.observed, mfail.expected,
                  repro=hit[3])
    return False
