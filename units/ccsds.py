"""Unit drivers of the CCSDS time family: CDS short timestamp (DESIGN.md 3.1).

Recipe: {"days": int, "ms": int}."""

from __future__ import annotations

from ref import cds as R
from units.base import Unit


def _cls():
    from spacepackets.ccsds.time import CdsShortTimestamp

    return CdsShortTimestamp


class CdsShortTimestampUnit(Unit):
    name = "CdsShortTimestamp"
    self_delimiting = True  # fixed size: seven octets
    documented = (ValueError,)  # BytesTooShortError is a ValueError

    def corpus(self, tier):
        days = [0, 1, 4382, 4383, 4384, 20000, 30000, 0x0102, 0x5555, 0xAAAA, 65534, 65535]
        ms = [0, 1, 999, 1000, 43_199_999, 43_200_000, 86_399_000, 86_399_999, 0x03040506]
        out = []
        for i, d in enumerate(days):  # diagonal plus the corners: 12 + 4 + 2 recipes
            out.append({"days": d, "ms": ms[i % len(ms)]})
        for d in (0, 65535):
            for m in (0, 86_399_999):
                out.append({"days": d, "ms": m})
        out.append({"days": 0x0102, "ms": 0x03040506})  # the doctest vector: every octet different
        if tier == "thorough":
            for d in days:
                for m in ms:
                    out.append({"days": d, "ms": m})
        seen, uniq = set(), []
        for r in out:
            k = (r["days"], r["ms"])
            if k not in seen:
                seen.add(k)
                uniq.append(r)
        return uniq

    def build(self, recipe):
        return _cls()(recipe["days"], recipe["ms"])

    def pack(self, obj, recipe=None) -> bytes:
        return bytes(obj.pack())

    def ref(self, recipe) -> bytes:
        return R.cds_short(recipe["days"], recipe["ms"])

    def decoders(self):
        C = _cls()

        def unpack(b, recipe=None):
            return C.unpack(b)

        def read_from_raw(b, recipe=None):
            s = C.empty()
            s.read_from_raw(b)
            return s

        def unpack_from_raw(b, recipe=None):
            d, m = C.unpack_from_raw(b)
            return C(d, m, False)

        return [("CdsShortTimestamp.unpack", unpack), ("CdsShortTimestamp.read_from_raw", read_from_raw),
                ("CdsShortTimestamp.unpack_from_raw", unpack_from_raw)]

    def observe(self, obj) -> tuple:
        return (int(obj.ccsds_days), int(obj.ms_of_day), int(obj.pfield[0]))

    def expected(self, recipe) -> tuple:
        return (recipe["days"], recipe["ms"], R.P_FIELD)

    def declared_len(self, obj) -> int:
        return obj.len_packed

    def length_bits(self, raw) -> set:
        return set()


UNITS = {u.name: u for u in (CdsShortTimestampUnit(),)}
