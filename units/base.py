"""Unit registry interface (DESIGN.md 3.1).  One driver per packet kind; recipes are
plain data so they travel to workers and into replay files."""

from __future__ import annotations


class Unit:
    name = "?"
    self_delimiting = True
    is_cfdp_pdu = False
    documented = (ValueError,)

    def corpus(self, tier):  # -> list of recipes (plain data)
        raise NotImplementedError

    def build(self, recipe):
        raise NotImplementedError

    def ref(self, recipe) -> bytes:
        raise NotImplementedError

    def decoders(self):  # -> list of (name, fn(bytes, recipe) -> object)
        raise NotImplementedError

    def observe(self, obj) -> tuple:
        raise NotImplementedError

    def expected(self, recipe) -> tuple:
        raise NotImplementedError

    def alt_builders(self) -> list:
        """[(name, fn(recipe) -> object)]: the unit's alternate public constructors (the same values, another entry point)"""
        return []

    def observe_decoded(self, obj) -> tuple:
        """observe() plus what only a DECODED object carries (e.g. the received CRC it stores and re-emits with
        pack(recalc_crc=False)); used where two decodes are compared with each other (C09)"""
        return self.observe(obj)

    def declared_len(self, obj) -> int:
        return obj.packet_len

    def crc_protected(self, recipe) -> bool:
        return False

    def length_bits(self, raw) -> set:
        return set()


def by(x):
    """bytes-like or None -> bytes / None"""
    return None if x is None else bytes(x)


def registry():
    """All units of all families, name -> Unit.  Families are imported lazily so that a
    missing family does not break checks that do not need it."""
    import importlib

    out = {}
    for fam in ("ccsds", "pus", "cfdp_pdu", "cfdp_tlv", "uslp"):
        try:
            mod = importlib.import_module("units." + fam)
        except ModuleNotFoundError as e:
            if e.name == "units." + fam:
                continue
            raise
        out.update(mod.UNITS)
    return out
