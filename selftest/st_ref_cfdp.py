"""ref/cfdp.py against the byte vectors the repository's own tests assert (tests/cfdp/test_header.py,
tests/cfdp/pdus/*, tests/cfdp/tlvslvs/*).  Does not import spacepackets."""
from ref import cfdp as R
from ref.crc16 import crc16


def _cfg(**kw):
    c = {"crc": 0, "large": 0, "idw": 1, "seqw": 1, "mode": 0, "segctrl": 0, "src": 0, "seq": 0, "dst": 0}
    c.update(kw)
    return c


def run():
    # tests/cfdp/test_header.py::test_pdu_header  "hex [20,00,00,00,00,00,00]"
    h = R.header(0, 0, 0, 0, 0, 0, 0, 1, 0, 1, 0, 0, 0)
    assert h == bytes([0x20, 0, 0, 0, 0, 0, 0]), h.hex()
    assert R.encode_header(_cfg(), {"dlen": 0}) == h
    # test_pdu_header_2 / check_fields_case_two: every field set, 2-octet IDs, seq 300, length 300
    h2 = R.header(1, 1, 1, 1, 1, 300, 1, 2, 1, 2, 0, 300, 1)
    assert len(h2) == 10 and (h2[0] & 0xE0) >> 5 == 1 and h2[0] & 0x1F == 0x1F
    assert h2[1] << 8 | h2[2] == 300
    assert (h2[3] & 0x80) >> 7 == 1 and ((h2[3] >> 4) & 7) + 1 == 2 and (h2[3] & 0x08) >> 3 == 1 and (h2[3] & 7) + 1 == 2
    assert h2[4:6] == bytes([0, 0]) and h2[6] << 8 | h2[7] == 300 and h2[8:10] == bytes([0, 1])
    assert R.header_len(h2) == 10 and R.header_len(h) == 7 and R.pdu_type(h2) == 1 and R.pdu_type(h) == 0
    f = R.header_fields(h2)
    assert (f["version"], f["ptype"], f["dir"], f["mode"], f["crc"], f["large"], f["dlen"], f["segctrl"], f["idw"], f["segmeta"], f["seqw"]) == (1, 1, 1, 1, 1, 1, 300, 1, 2, 1, 2)
    assert R.id_fields(h2) == (0, 300, 1)
    # tests/cfdp/test_header.py::test_with_prompt_pdu: 1-octet IDs, 2-octet seq, CRC: header 8(+1), packet 12
    p = R.encode_pdu("PromptPdu", _cfg(crc=1, large=1, mode=1, seqw=2, seq=0x2C, segctrl=1), {"rr": 1})
    assert len(p) == 12 and R.header_len(p) + 1 == 9 and crc16(p) == 0
    # tests/cfdp/pdus/test_eof_pdu.py
    eof = R.encode_pdu("EofPdu", _cfg(), {"cc": 0, "checksum": bytes(4), "size": 0, "fault": None})
    assert eof == bytes([0x20, 0x00, 0x0A, 0x00, 0x00, 0x00, 0x00, 0x04, 0x00]) + bytes(4) + bytes(4), eof.hex()
    assert len(R.encode_pdu("EofPdu", _cfg(), {"cc": 1, "checksum": bytes(4), "size": 0, "fault": bytes([0, 1])})) == 17 + 4
    assert len(R.encode_pdu("EofPdu", _cfg(large=1), {"cc": 0, "checksum": bytes(4), "size": 0, "fault": None})) == 8 + 1 + 4 + 8
    assert len(R.encode_pdu("EofPdu", _cfg(crc=1), {"cc": 0, "checksum": bytes(4), "size": 0, "fault": None})) == 19
    # tests/cfdp/pdus/test_finished_pdu.py
    fin = R.encode_pdu("FinishedPdu", _cfg(), {"cc": 0, "dc": 0, "fs": 3, "resps": [], "fault": None})
    assert fin == bytes([0x28, 0x00, 0x02, 0x00, 0x00, 0x00, 0x00, 0x05, 0x03]), fin.hex()
    r1 = {"action": 6, "status": 0, "first": "test.txt", "second": None, "msg": b""}
    r1_raw = bytes([0x01, 11, 0x60, 0x08, 0x74, 0x65, 0x73, 0x74, 0x2E, 0x74, 0x78, 0x74, 0x00])
    assert R.response_octets(r1) == r1_raw
    fin2 = R.encode_pdu("FinishedPdu", _cfg(), {"cc": 4, "dc": 1, "fs": 0, "resps": [r1], "fault": None})
    assert fin2 == bytes([0x28, 0x00, 0x0F, 0x00, 0x00, 0x00, 0x00, 0x05, 0x44]) + r1_raw, fin2.hex()
    r2 = {"action": 3, "status": 0xF, "first": "test.txt", "second": "test2.txt", "msg": b""}
    assert R.response_octets(r2) == bytes([0x01, 0x15, 0x3F, 8]) + b"test.txt" + bytes([9]) + b"test2.txt" + bytes([0])
    fin3 = R.encode_pdu("FinishedPdu", _cfg(), {"cc": 10, "dc": 0, "fs": 2, "resps": [r1, r2], "fault": bytes([0, 2])})
    assert len(fin3) == 49 and fin3[-4:] == bytes([6, 2, 0, 2])
    assert len(R.encode_pdu("FinishedPdu", _cfg(), {"cc": 1, "dc": 1, "fs": 0, "resps": [], "fault": bytes([0, 2])})) == 13
    # tests/cfdp/pdus/test_ack_pdu.py
    ack = R.encode_pdu("AckPdu", _cfg(idw=2, seqw=2, src=2, seq=1, dst=3), {"acked": 5, "cc": 0, "ts": 2})
    assert ack == bytes([0x20, 0x00, 0x03, 0x11, 0x00, 0x02, 0x00, 0x01, 0x00, 0x03, 0x06, 0x51, 0x02]), ack.hex()
    ack2 = R.encode_pdu("AckPdu", _cfg(crc=1, mode=1, idw=4, seqw=4, src=0x10000102, seq=0x50001001, dst=0x30000103), {"acked": 4, "cc": 1, "ts": 1})
    assert len(ack2) == 21 and crc16(ack2) == 0
    assert ack2[:19] == bytes([0x2E, 0x00, 0x05, 0x33, 0x10, 0x00, 0x01, 0x02, 0x50, 0x00, 0x10, 0x01, 0x30, 0x00, 0x01, 0x03, 0x06, 0x40, 0x11]), ack2.hex()
    # tests/cfdp/pdus/test_prompt_pdu.py
    pr = R.encode_pdu("PromptPdu", _cfg(), {"rr": 1})
    assert pr == bytes([0x20, 0x00, 0x02, 0x00, 0x00, 0x00, 0x00, 0x09, 0x80]), pr.hex()
    # tests/cfdp/pdus/test_keep_alive_pdu.py
    ka = R.encode_pdu("KeepAlivePdu", _cfg(), {"progress": 0})
    assert ka == bytes([0x28, 0x00, 0x05, 0x00, 0x00, 0x00, 0x00, 0x0C, 0, 0, 0, 0]), ka.hex()
    assert len(R.encode_pdu("KeepAlivePdu", _cfg(large=1), {"progress": 0})) == 16
    # tests/cfdp/pdus/test_file_data.py
    fd = R.encode_pdu("FileDataPdu", _cfg(), {"offset": 0, "data": b"hello world", "md": None})
    assert fd == bytes([0x30, 0x00, 0x0F, 0x00, 0x00, 0x00, 0x00]) + bytes(4) + b"hello world", fd.hex()
    fdm = R.encode_pdu("FileDataPdu", _cfg(), {"offset": 0, "data": b"hello world", "md": [3, bytes([0xAA, 0xBB])]})
    assert len(fdm) == 7 + 15 + 1 + 2 and fdm[3] & 0x08 and fdm[7:10] == bytes([0xC2, 0xAA, 0xBB])
    assert len(R.encode_pdu("FileDataPdu", _cfg(large=1), {"offset": 0, "data": b"hello world", "md": [3, bytes([0xAA, 0xBB])]})) == 7 + 19 + 1 + 2
    assert len(R.encode_pdu("FileDataPdu", _cfg(crc=1), {"offset": 0, "data": b"hello world", "md": None})) == 7 + 15 + 2
    # tests/cfdp/pdus/test_metadata.py (lengths) and the filestore request option octets
    mp = {"closure": 0, "cs": 0, "size": 2, "src": "test.txt", "dst": "test2.txt", "opts": None}
    md = R.encode_pdu("MetadataPdu", _cfg(), mp)
    assert len(md) == 8 + 5 + 10 + 9 and md[7] == 0x07 and md[8] == 0 and md[9:13] == bytes([0, 0, 0, 2])
    assert md[13:22] == bytes([8]) + b"test.txt" and md[22:] == bytes([9]) + b"test2.txt"
    assert len(R.encode_pdu("MetadataPdu", _cfg(crc=1), mp)) == 8 + 5 + 10 + 9 + 2
    opt0 = {"t": "fsreq", "action": 0, "first": "hallo.txt", "second": None}
    assert R.option_octets(opt0) == bytes([0x00, 0x0B, 0x00, 0x09]) + b"hallo.txt"
    assert len(R.encode_pdu("MetadataPdu", _cfg(), dict(mp, opts=[opt0]))) == 10 + 9 + 8 + 5 + 13
    opt1 = {"t": "fault", "cc": 1, "handler": 4}
    assert R.option_octets(opt1) == bytes([0x04, 0x01, 0x14])
    assert len(R.encode_pdu("MetadataPdu", _cfg(), dict(mp, src=None, dst=None, opts=[opt0, opt1]))) == 8 + 5 + 2 + 13 + 3
    assert len(R.encode_pdu("MetadataPdu", _cfg(large=1), dict(mp, src=None, dst=None))) == 8 + 2 + 9
    # tests/cfdp/pdus/test_nak_pdu.py (lengths; header 10 with 2-octet fields)
    ncfg = _cfg(idw=2, seqw=2, src=0, seq=1, dst=1)
    nak = R.encode_pdu("NakPdu", ncfg, {"start": 0, "end": 200, "segs": []})
    assert len(nak) == 19 and nak[0] == 0x28 and nak[10] == 0x08 and nak[11:19] == bytes([0, 0, 0, 0, 0, 0, 0, 200])
    assert len(R.encode_pdu("NakPdu", ncfg, {"start": 0, "end": 200, "segs": [[20, 40], [60, 80]]})) == 35
    assert len(R.encode_pdu("NakPdu", dict(ncfg, large=1), {"start": 0, "end": 200, "segs": []})) == 27
    # tests/cfdp/tlvslvs: entity id, flow label, message to user, generic TLV / LV
    assert R.entity_id_tlv(bytes([0, 1, 2, 3])) == bytes([6, 4, 0, 1, 2, 3])
    assert R.flow_label_tlv(bytes([0])) == bytes([5, 1, 0]) and R.msg_to_user_tlv(bytes([0])) == bytes([2, 1, 0])
    assert R.tlv(0, bytes([0, 1, 2, 3, 4])) == bytes([0, 5, 0, 1, 2, 3, 4]) and R.lv(bytes([0, 1, 2])) == bytes([3, 0, 1, 2])
    # test_fs_req_tlv.py: append with an empty second name is 13 octets; test_fs_response.py likewise + message LV
    assert len(R.fs_request_tlv(3, b"test.txt", b"")) == 13
    assert len(R.fs_response_tlv(3, 0xF, b"test.txt", b"", b"")) == 14
    # directive code extraction at every header length
    for iw in (1, 2, 4, 8):
        for sw in (1, 2, 4, 8):
            for kind in R.KINDS[:-1]:
                cfg = {"crc": 1, "large": 1, "idw": iw, "seqw": sw, "mode": 1, "ids": "dir"}
                prm = {"EofPdu": {"cc": 0, "checksum": bytes(4), "size": 0}, "FinishedPdu": {"cc": 0, "dc": 0, "fs": 0},
                       "AckPdu": {"acked": 4, "cc": 0, "ts": 0}, "MetadataPdu": {"closure": 0, "cs": 0, "size": 0},
                       "NakPdu": {"start": 0, "end": 0}, "PromptPdu": {"rr": 0}, "KeepAlivePdu": {"progress": 0}}[kind]
                raw = R.encode_pdu(kind, cfg, prm)
                assert R.header_len(raw) == 4 + 2 * iw + sw and R.directive_code(raw) == R.DIRECTIVE_CODE[kind]
                assert R.data_field_len(raw) == len(raw) - R.header_len(raw) and crc16(raw) == 0
                s, q, d = R.cfg_ids(cfg)
                assert len({s, q, d}) == 3 and R.id_fields(raw) == (s, q, d)
            fdr = R.encode_pdu("FileDataPdu", {"crc": 0, "large": 0, "idw": iw, "seqw": sw, "mode": 0}, {"offset": 1, "data": b"x", "md": None})
            assert R.directive_code(fdr) is None and R.pdu_type(fdr) == 1
            s, q, d = R.cfg_ids({"idw": iw, "seqw": sw})
            octs = s.to_bytes(iw, "big") + q.to_bytes(sw, "big") + d.to_bytes(iw, "big")
            assert len(set(octs)) == len(octs), "std ID scheme: every octet different"
