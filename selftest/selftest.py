#!/venv/bin/python
"""setup_cmd: nothing needs building; this verifies the framework's own pieces offline
(reference codecs against known vectors, engine self-tests).  Exits non-zero on failure."""
import os, sys
HERE = os.path.dirname(os.path.dirname(os.path.abspath(__file__)))
sys.path.insert(0, HERE)

def main():
    import importlib, pkgutil
    import selftest as pkg  # noqa
    failures = 0
    names = sorted(m.name for m in pkgutil.iter_modules([os.path.join(HERE, "selftest")]) if m.name.startswith("st_"))
    for name in names:
        mod = importlib.import_module("selftest." + name)
        try:
            mod.run()
            print("selftest", name, "ok")
        except Exception as e:
            import traceback; traceback.print_exc()
            print("selftest", name, "FAILED", e)
            failures += 1
    return 1 if failures else 0

if __name__ == "__main__":
    sys.exit(main())
