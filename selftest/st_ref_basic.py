"""reference codecs vs. vectors the repository's own tests/doctests assert"""
import itertools
from ref import crc16, ccsds, bits

def run():
    assert crc16.crc16(b"123456789") == 0x29B1
    for L in range(3):
        for t in itertools.product(range(256), repeat=L):
            assert crc16.crc16(bytes(t)) == crc16.crc16_bitwise(bytes(t))
    # tests/ecss/test_pus_tc.py ping TC: 18 01 c0 16 00 06 2f 11 01 00 00 ab 62
    hdr = ccsds.sp_header(0, 1, 1, 0x01, 3, 0x16, 6)
    assert hdr == bytes([0x18, 0x01, 0xC0, 0x16, 0x00, 0x06]), hdr.hex()
    body = hdr + bytes([0x2F, 0x11, 0x01, 0x00, 0x00])
    assert crc16.with_crc(body)[-2:] == bytes([0xAB, 0x62])
    assert bits.unpack_fields(hdr, [3, 1, 1, 11, 2, 14, 16]) == [0, 1, 1, 1, 3, 0x16, 6]
