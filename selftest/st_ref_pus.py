"""ref/pus.py against the byte vectors the repository's own tests, doctests and docs assert.
Does not import spacepackets."""
from ref import pus as P
from ref.crc16 import crc16

TEST_STAMP = bytes([0x40, 1, 2, 3, 4, 5, 6])  # tests/ecss/common.py: CcsdsTimeCodeId.CDS << 4, 1..6


def h(s: str) -> bytes:
    return bytes.fromhex(s.replace(",", " "))


def run():
    # spacepackets/ecss/tc.py doctest: PusTc(service=17, subservice=1, seq_count=22, apid=0x01)
    assert P.tc(17, 1, apid=1, seq_count=22) == h("18,01,c0,16,00,06,2f,11,01,00,00,ab,62")
    # docs/examples.rst testoutput: PusTc(service=17, subservice=1, apid=0x01)
    assert P.tc(17, 1, apid=1) == h("18,01,c0,00,00,06,2f,11,01,00,00,16,1d")
    # tests/ecss/test_pus_tc.py test_packed: apid 0x02, seq_count 0x34, CRC ee 63
    assert P.tc(17, 1, apid=2, seq_count=0x34) == h("18,02,c0,34,00,06,2f,11,01,00,00,ee,63")
    # test_with_app_data: packet_len 16, data_len 9, app data at [11:14]
    raw = P.tc(17, 32, apid=0, seq_count=52, app_data=bytes([1, 2, 3]))
    assert len(raw) == 16 and raw[4:6] == bytes([0, 9]) and raw[11:14] == bytes([1, 2, 3]) and crc16(raw) == 0
    # test_custom_source_id: 0x5FF at octets 9,10
    raw = P.tc(17, 1, apid=2, seq_count=0x34, source_id=0x5FF)
    assert raw[9] << 8 | raw[10] == 0x5FF
    # PusTcDataFieldHeader(service=1, subservice=2).pack(): [1]==1, [2]==2, default ack 0b1111, 5 octets
    sh = P.tc_sec_header(0b1111, 1, 2, 0)
    assert sh == h("2f 01 02 00 00") and len(sh) == P.TC_SEC_HEADER_LEN

    # docs/examples.rst: PusTm(service=17, subservice=2, apid=0x01, timestamp=bytes())
    assert P.tm(17, 2, apid=1) == h("08,01,c0,00,00,08,20,11,02,00,00,00,00,86,d7")
    # spacepackets/ecss/tm.py doctest: seq_count=5, apid=1, 7-octet timestamp; pack()[:-9]
    raw = P.tm(17, 2, timestamp=TEST_STAMP, apid=1, seq_count=5)
    assert raw[:-9] == h("08,01,c0,05,00,0f,20,11,02,00,00,00,00")
    # tests/ecss/test_pus_tm.py raw_check_before_stamp / test_raw / test_state
    raw = P.tm(17, 2, timestamp=TEST_STAMP, apid=0x123, seq_count=0x234)
    assert raw[:13] == h("09 23 c2 34 00 0f 20 11 02 00 00 00 00") and raw[13:20] == TEST_STAMP
    assert len(raw) == 22 and int.from_bytes(raw[20:22], "big") == crc16(raw[:20]) and crc16(raw) == 0
    assert raw[P.TM_TIMESTAMP_OFFSET:P.TM_TIMESTAMP_OFFSET + 7] == TEST_STAMP and P.TM_TIMESTAMP_OFFSET == 13
    # test_no_timestamp: packet_len 15
    assert len(P.tm(17, 2, apid=0x123, seq_count=0x234)) == 15
    # test_state_setting: apid 0x22, source data 42 38 -> packet_len 24, packet id 0x0822
    raw = P.tm(17, 2, timestamp=TEST_STAMP, source_data=h("42 38"), apid=0x22, seq_count=0x234)
    assert len(raw) == 24 and int.from_bytes(raw[0:2], "big") & 0x1FFF == 0x0822 and raw[20:22] == h("42 38")
    # test_srv17: service 17 wrapper = a TM with service 17
    assert P.srv17_tm(2, TEST_STAMP, apid=5)[7:9] == bytes([17, 2])

    # spacepackets/ecss/req_id.py doctest: PacketId(TC, False, 0x22), PSC(UNSEGMENTED, 17) -> 10,22,c0,11
    assert P.request_id(0, 1, 0, 0x22, 3, 17) == h("10,22,c0,11")
    assert P.request_id_fields(h("10,22,c0,11")) == (0, 1, 0, 0x22, 3, 17)
    # tests/ecss/test_pus_tm.py test_req_id: PacketId(TC, True, 0x42), PSC(UNSEGMENTED, 22)
    assert P.request_id(0, 1, 1, 0x42, 3, 22) == h("18 42 c0 16")
    # the request id of the ping TC is its first four octets
    assert P.request_id_of_tc(P.tc(17, 1, apid=2)) == P.request_id(0, 1, 1, 2, 3, 0)

    # tests/ecss/test_srv1.py test_verif_params: lengths 4, 5, 6, 11
    rid = P.request_id(0, 0, 0, 0x22, 3, 22)
    assert len(P.srv1_source_data(rid)) == 4
    assert len(P.srv1_source_data(rid, step=(12, 1))) == 5
    assert len(P.srv1_source_data(rid, step=(12, 2))) == 6
    assert len(P.srv1_source_data(rid, step=(12, 2), failure=((22, 2), bytes([0, 1, 2])))) == 11
    # test_failure_notice: code pfc 8 val 2, data 0 2 4 8 -> decoded back as 1 + 4 octets
    assert P.srv1_source_data(rid, failure=((2, 1), bytes([0, 2, 4, 8])))[4:] == h("02 00 02 04 08")
    # _generic_test_srv_1_failure (step failure): req id, 2-octet step 12, code 8, data 2 4
    ping = P.tc(17, 1, apid=2)
    src = P.srv1_source_data(ping[:4], step=(12, 2), failure=((8, 1), bytes([2, 4])))
    assert src == h("18 02 c0 00 00 0c 08 02 04")
    raw = P.srv1_tm(6, ping[:4], step=(12, 2), failure=((8, 1), bytes([2, 4])), timestamp=TEST_STAMP, apid=2)
    assert raw[7:9] == bytes([1, 6]) and raw[20:-2] == src and crc16(raw) == 0

    # forged short packets are what they claim to be
    for total in range(7, 22):
        for apid in (0, 1, 0x7FF, 0x555):
            b = P.forge_declared_len(total, P.TC, apid, 0x2AAA, h("2f 11 01 00 00") + bytes(16))
            if b is None:
                assert total == 7
                continue
            assert len(b) == total and crc16(b) == 0 and int.from_bytes(b[4:6], "big") == total - 7
    s = P.SeqWordSolver(1)
    w = s.solve(h("18 01"), b"\x00", 0x002F)
    b = h("18 01") + w.to_bytes(2, "big") + h("00 00 2f")
    assert crc16(b) == 0 and len(b) == 7
