"""ref/cds.py and ref/uslp.py against the vectors the repository's own tests / doctests
assert (tests/ccsds/test_time.py, doctest of CdsShortTimestamp.__init__, tests/test_uslp.py).
Nothing of the library is imported here."""

import datetime
from fractions import Fraction

from ref import cds, uslp


def _cds():
    # doctest in spacepackets/ccsds/time/cds.py: CdsShortTimestamp(0x0102, 0x03040506).pack().hex(sep=',')
    assert cds.cds_short(0x0102, 0x03040506).hex(",") == "40,01,02,03,04,05,06"
    assert cds.cds_short_fields(bytes.fromhex("40010203040506")) == (0x40, 0x0102, 0x03040506)
    # doctest: convert_ccsds_days_to_unix_days(0) == -4383
    assert cds.UNIX_EPOCH_CCSDS_DAY == 4383
    # test_basic: day 0, ms 0 is 1958-01-01T00:00:00Z, Unix seconds == -4383 * 86400
    dt = cds.as_datetime(0, 0)
    assert (dt.year, dt.month, dt.day, dt.hour, dt.minute, dt.second, dt.tzinfo) == (1958, 1, 1, 0, 0, 0, datetime.timezone.utc)
    assert cds.unix_seconds(0, 0) == -4383 * 86400
    # test_basic_from_dt: 1970-01-01T00:00:00Z -> day 4383, ms 0
    assert cds.from_datetime(datetime.datetime(1970, 1, 1, tzinfo=datetime.timezone.utc)) == (4383, 0, 0)
    assert cds.unix_seconds(4383, 0) == 0
    # test_addition_0 / _1 / _days_increment
    assert cds.add(0, 0, datetime.timedelta(seconds=10)) == (0, 10000)
    assert cds.add(0, 0, datetime.timedelta(days=2, minutes=12, milliseconds=15)) == (2, 12 * 60 * 1000 + 15)
    assert cds.cds_short(2, 12 * 60 * 1000 + 15)[1:3] == (2).to_bytes(2, "big")
    assert cds.cds_short(2, 12 * 60 * 1000 + 15)[3:7] == (12 * 60 * 1000 + 15).to_bytes(4, "big")
    assert cds.add(0, cds.MS_PER_DAY - 5, datetime.timedelta(milliseconds=10)) == (1, 5)
    # test_read_from_raw: (30000, 1000) round trip
    assert cds.cds_short_fields(cds.cds_short(30000, 1000)) == (0x40, 30000, 1000)
    # own sanity of the exact arithmetic (not library vectors)
    assert cds.add(65535, cds.MS_PER_DAY - 1, datetime.timedelta(milliseconds=1)) is None
    assert cds.add(5, cds.MS_PER_DAY - 1, datetime.timedelta(milliseconds=1)) == (6, 0)
    assert cds.as_datetime(4382, 1000) == datetime.datetime(1969, 12, 31, 0, 0, 1, tzinfo=datetime.timezone.utc)
    assert cds.unix_seconds(4382, 1000) == -86399
    assert cds.from_datetime(datetime.datetime(1969, 12, 31, 0, 0, 1, 1000, tzinfo=datetime.timezone.utc)) == (4382, 1001, 0)
    assert cds.as_datetime(65535, cds.MS_PER_DAY - 1) == datetime.datetime(2137, 6, 6, 23, 59, 59, 999000, tzinfo=datetime.timezone.utc)
    assert cds.unix_seconds_close(-86399.0, 4382, 1000) and not cds.unix_seconds_close(-86401.0, 4382, 1000)
    assert cds.unix_seconds_close(float(Fraction(1, 1000)), 4383, 1) and not cds.unix_seconds_close(0.002, 4383, 1)
    assert [p for p in range(256) if not cds.pfield_must_be_refused(p)] == [p for p in range(256) if (p & 0x74) == 0x40]


def _uslp_header():
    # tests/test_uslp.py test_header: scid 0xfffe, SOURCE, vcid 0b110111, map 0b0011, frame_len 0xfffd,
    # bypass 1, protocol command 1, OCF flag 1, no VCF count
    args = dict(scid=0xFFFE, src_dest=0, vcid=0b110111, map_id=0b0011, frame_len=0xFFFD, bypass=1, prot_cmd=1, ocf_flag=1)
    h = uslp.primary_header(**args)
    assert len(h) == 7
    assert (h[0] >> 4) & 0xF == 0x0C and h[0] & 0x0F == 0b1111 and h[1] == 0xFF and (h[2] >> 4) & 0xF == 0b1110
    assert (h[2] >> 3) & 1 == 0 and h[2] & 0b111 == 0b110 and (h[3] >> 5) & 0b111 == 0b111
    assert (h[3] >> 1) & 0xF == 0b0011 and h[3] & 1 == 0 and h[4] == 0xFF and h[5] == 0xFD
    assert (h[6] >> 7) & 1 == 1 and (h[6] >> 6) & 1 == 1 and (h[6] >> 4) & 0b11 == 0 and (h[6] >> 3) & 1 == 1 and h[6] & 0b111 == 0
    assert h.hex() == "cfffe6e6fffdc8"
    for n, cnt, tail in ((1, 0xAF, "af"), (2, 0xAFFE, "affe"), (3, 0xAFFEFE, "affefe"), (4, 0xAFFECAFE, "affecafe"),
                         (7, 0xAFFECAFEBABEAF, "affecafebabeaf")):
        v = uslp.primary_header(vcf_len=n, vcf_count=cnt, **args)
        assert v[6] & 0b111 == n and v[7:].hex() == tail and v[:6] == h[:6], (n, v.hex())
        assert uslp.primary_header_fields(v) == (0xC, 0xFFFE, 0, 0b110111, 0b0011, 0, 0xFFFD, 1, 1, 0, 1, n, cnt)
    # truncated header of the same test: scid 0x1111, DEST, vcid 0b101101, map 0b1101
    t = uslp.truncated_header(0b0001000100010001, 1, 0b101101, 0b1101)
    assert len(t) == 4 and (t[0] >> 4) == 0x0C and t[0] & 0xF == 1 and t[1] == 0b00010001 and (t[2] >> 4) == 1
    assert (t[2] >> 3) & 1 == 1 and t[2] & 0b111 == 0b101 and (t[3] >> 5) == 0b101 and (t[3] >> 1) & 0xF == 0b1101 and t[3] & 1 == 1
    assert t.hex() == "c1111dbb"
    assert uslp.truncated_header_fields(t) == (0xC, 0x1111, 1, 0b101101, 0b1101, 1)


def _uslp_frame():
    hdr = dict(scid=0x10, src_dest=0, vcid=0b110111, map_id=0b0011, bypass=0, prot_cmd=0)
    # test_frame: empty TFDZ, rule 000, UPID 0, FHP 0 -> 10 octets, frame length field 9, TFDF header 00 00 00
    f = uslp.frame(hdr, 0b000, 0, 0, b"")
    assert len(f) == 10 and (f[4] << 8 | f[5]) == 9 and f[7:10] == b"\x00\x00\x00"
    # rule 001, UPID 11111 (idle data), LVOP 0xAFFE -> 3f af fe
    f = uslp.frame(hdr, 0b001, 0b11111, 0xAFFE, b"")
    assert len(f) == 10 and (f[4] << 8 | f[5]) == 9 and f[7:10] == bytes([0x3F, 0xAF, 0xFE])
    # larger frame: insert zone 4 x 00, TFDZ 01 02 03 04 (FHP 0), OCF 01 02 03 04, FECF 03 04 -> 24 octets
    f = uslp.frame(hdr, 0b000, 0, 0, bytes([1, 2, 3, 4]), insert_zone=bytes(4), ocf=bytes([1, 2, 3, 4]), fecf=bytes([3, 4]))
    assert len(f) == 24 and (f[4] << 8 | f[5]) == 23 and f[7:11] == bytes(4) and f[14:18] == bytes([1, 2, 3, 4])
    assert f[18:22] == bytes([1, 2, 3, 4]) and f[22:] == bytes([3, 4]) and (f[6] >> 3) & 1 == 1
    # truncated frame: scid 12, SOURCE, vcid 5, map 12, rule 111, TFDZ 01 02 03 04 -> 9 octets
    t = uslp.truncated_frame(dict(scid=12, src_dest=0, vcid=5, map_id=12), 0b111, 0, bytes([1, 2, 3, 4]))
    assert len(t) == 9 and t[3] & 1 == 1 and t[4] == 0b11100000 and t[5:] == bytes([1, 2, 3, 4])
    # TFDF alone: VpLastSegment, UPID 0, empty -> one octet
    assert uslp.tfdf_header(0b110, 0) == bytes([0b11000000]) and uslp.tfdf_header(0, 0, 0) == bytes(3)


def run():
    _cds()
    _uslp_header()
    _uslp_frame()
