"""ref/tlv.py against the octets the repository's own tests assert (tests/cfdp/tlvslvs/*,
tests/cfdp/pdus/test_finished_pdu.py, test_metadata.py, test_eof_pdu.py).  Does not import
the library: the expected octets below are copied from the assertions of those tests."""

from ref import tlv as T
from ref.bits import unpack_fields


def run():
    # --- test_tlvs.py::test_length_field_missmatch: [ENTITY_ID, 1, 3, 4] decodes to value [3]
    assert T.tlv(T.T_ENTITY_ID, bytes([3])) == bytes([6, 1, 3])
    # test_tlvs.py::test_basic: CfdpTlv(FILESTORE_REQUEST, 00..04).packet_len == 7
    assert len(T.tlv(T.T_FILESTORE_REQUEST, bytes([0, 1, 2, 3, 4]))) == 7
    assert T.tlv(T.T_FILESTORE_REQUEST, bytes([0, 1, 2, 3, 4])) == bytes([0, 5, 0, 1, 2, 3, 4])
    # --- test_lvs.py::test_lvs / test_from_str
    packed = T.lv(bytes([0, 1, 2]))
    assert len(packed) == 4 and packed[0] == 3 and packed[1:4] == bytes([0, 1, 2])
    s = "hello.txt".encode()
    assert T.lv(s)[0] == len(s) and T.lv(s)[1:] == s and len(T.lv(s)) == len(s) + 1
    assert T.lv(b"") == bytes([0])
    # --- test_finished_pdu.py::test_with_fs_response (complete vector)
    exp = bytes([0x01, 11, 0x60, 0x08, 0x74, 0x65, 0x73, 0x74, 0x2E, 0x74, 0x78, 0x74, 0x00])
    assert T.filestore_response_tlv(T.A_REMOVE_DIR, 0b0000, b"test.txt") == exp, T.filestore_response_tlv(T.A_REMOVE_DIR, 0, b"test.txt").hex()
    # --- test_finished_pdu.py::test_finished_pdu (complete vector, two names, packet_len 23)
    exp = bytes([0x01, 0x15, 0x3F]) + bytes([8]) + b"test.txt" + bytes([9]) + b"test2.txt" + bytes([0])
    got = T.filestore_response_tlv(T.A_APPEND_FILE, 0b1111, b"test.txt", b"test2.txt")
    assert got == exp and len(got) == 23, got.hex()
    # --- test_metadata.py::test_metadata_pdu (complete vector, one name, packet_len 13)
    exp = bytes([0x00, 0x0B, 0x00, 0x09]) + b"hallo.txt"
    got = T.filestore_request_tlv(T.A_CREATE_FILE, b"hallo.txt")
    assert got == exp and len(got) == 13, got.hex()
    # a second name handed in for a one-name action is not emitted
    assert T.filestore_request_tlv(T.A_CREATE_FILE, b"hallo.txt", b"ignored") == exp
    # --- test_fs_req_tlv.py::test_basic: APPEND, "test.txt", no second name -> 13 octets
    got = T.filestore_request_tlv(T.A_APPEND_FILE, b"test.txt")
    assert len(got) == 13 and got == bytes([0x00, 11, 0x30, 8]) + b"test.txt" + bytes([0])
    assert T.filestore_common_len(T.A_APPEND_FILE, b"test.txt") == 13
    # --- test_entity_id.py / test_finished_pdu.py / test_eof_pdu.py: packet_len 6 and 4
    assert T.entity_id_tlv(bytes([0, 1, 2, 3])) == bytes([6, 4, 0, 1, 2, 3])
    assert len(T.entity_id_tlv(bytes([0x00, 0x02]))) == 4 and len(T.entity_id_tlv(bytes([0x00, 0x01]))) == 4
    # --- test_metadata.py: FaultHandlerOverrideTlv(POSITIVE_ACK_LIMIT_REACHED=1, ABANDON=4).packet_len == 3
    assert T.fault_handler_override_tlv(1, 4) == bytes([0x04, 0x01, 0x14])
    # --- test_flow_label_tlv.py / test_msg_to_user.py: value [0x00]
    assert T.flow_label_tlv(bytes([0])) == bytes([5, 1, 0])
    assert T.msg_to_user_tlv(bytes([0])) == bytes([2, 1, 0])

    # ------------------------------------------------------------ reserved messages
    def generic(data, custom_len, msg_type):  # test_reserved_cfdp_msg.py::_generic_raw_data_verification
        assert data[0] == 2 and data[1] >= 5 and data[1] == 5 + custom_len
        assert data[2:6].decode() == "cfdp" and data[6] == msg_type
        assert len(data) == 2 + data[1]

    # test_proxy.py::test_pack (every octet asserted there)
    raw = T.proxy_put_request(bytes([5]), b"hello.txt", b"hello2.txt")
    exp = bytes([2, 5 + 2 + 10 + 11]) + b"cfdp" + bytes([0x00, 1, 5, 9]) + b"hello.txt" + bytes([10]) + b"hello2.txt"
    assert raw == exp, raw.hex()
    generic(raw, 2 + 1 + 9 + 1 + 10, 0x00)
    # test_originating_transaction_id_pack: ByteFieldU16(1), ByteFieldU16(5)
    raw = T.originating_transaction_id(bytes([0, 1]), bytes([0, 5]))
    generic(raw, 1 + 2 + 2, 0x0A)
    assert (raw[7] >> 4) & 0b111 == 1 and raw[7] & 0b111 == 1
    assert raw[8:10] == bytes([0, 1]) and raw[10:12] == bytes([0, 5])
    assert raw == bytes([2, 10]) + b"cfdp" + bytes([0x0A, 0x11, 0, 1, 0, 5])
    # test_put_reponse_pack: NO_ERROR, DATA_COMPLETE, FILE_RETAINED(2)
    raw = T.proxy_put_response(0, 0, 2)
    generic(raw, 1, 0x07)
    assert (raw[7] >> 4) & 0b1111 == 0 and (raw[7] >> 2) & 0b1 == 0 and raw[7] & 0b11 == 2
    raw = T.proxy_put_response(0b1111, 1, 3)
    assert raw[7] == 0b11110111 and unpack_fields(raw[7:], [4, 1, 1, 2]) == [15, 0, 1, 3]
    # test_proxy_closure_requested_pack
    raw = T.proxy_closure_request(1)
    generic(raw, 1, 0x0B)
    assert raw[7] & 0b1 and raw[7] == 1
    # test_proxy_transmission_mode_pack: UNACKNOWLEDGED = 1
    raw = T.proxy_transmission_mode(1)
    generic(raw, 1, 0x04)
    assert raw[7] & 0b1 == 1 and raw[7] == 1
    # test_dir_listing_req_pack: "/tmp", "/tmp/listing.txt"
    raw = T.dir_listing_request(b"/tmp", b"/tmp/listing.txt")
    generic(raw, 5 + 17, 0x10)
    assert raw[7:] == bytes([4]) + b"/tmp" + bytes([16]) + b"/tmp/listing.txt"
    # test_dir_listing_response_pack: success bit is bit 7 of octet 7, LVs start at octet 8
    raw = T.dir_listing_response(1, b"/tmp", b"/tmp/listing.txt")
    generic(raw, 1 + 5 + 17, 0x11)
    assert (raw[7] >> 7) & 1 == 1 and raw[7] == 0x80
    assert raw[8:] == bytes([4]) + b"/tmp" + bytes([16]) + b"/tmp/listing.txt"
    assert T.dir_listing_response(0, b"", b"")[7:] == bytes([0, 0, 0])
    # test_dir_listing_options_pack: recursive = bit 1, all = bit 0, type 0x15
    raw = T.dir_listing_options(1, 1)
    generic(raw, 1, 0x15)
    assert (raw[7] >> 1) & 1 and raw[7] & 1 and raw[7] == 3
    assert T.dir_listing_options(1, 0)[7] == 2 and T.dir_listing_options(0, 1)[7] == 1
    # test_proxy_cancel_request_pack
    raw = T.proxy_put_cancel()
    generic(raw, 0, 0x09)
    assert raw == bytes([2, 5]) + b"cfdp" + bytes([9])
    # the marker is the ASCII string "cfdp" (727.0-B-5 6.1)
    assert T.MARKER == "cfdp".encode("ascii")
    # tables are consistent with each other
    assert set(T.STD_STATUS_CODES) == set(T.ACTION_CODES) and len(T.DEFINED_TYPES) == 6
    assert all(t not in T.DIRECTORY_TYPES and t != T.M_ORIGINATING_TRANSACTION_ID for t in T.PROXY_TYPES)
