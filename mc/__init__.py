"""Bounded-exhaustive exploration machinery for the spacepackets-py properties.

See /verif/DESIGN.md section 2.  Modules:

  runner     command line driver: shards -> workers -> evidence / replays / verdict
  rec        per-shard recorder (counts, violations, samples)
  domains    value alphabets (full / walk / edge / out-of-range probes / octet strings)
  vectors    engine V: choice-vector enumeration (deviation bounded, crossed axes)
  faults     engine F: truncation / substitution / bit-burst / suffix enumeration
  histories  engine H: explicit-state and stateless history exploration
  tlc        engine T: TLC runner, state-graph parser, conformance replay helper
  findings   KNOWN_FINDINGS.txt handling
"""
