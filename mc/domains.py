"""Value alphabets (DESIGN.md 3.3).  All functions return lists in a fixed order,
simplest value first, without duplicates."""

from __future__ import annotations

import itertools


def dedupe(seq):
    seen = set()
    out = []
    for x in seq:
        if x not in seen:
            seen.add(x)
            out.append(x)
    return out


def full(nbits: int):
    return list(range(1 << nbits))


def alt(nbits: int, start_one: bool):
    """0x55.. (start_one False -> 0101..) / 0xAA.. pattern limited to nbits."""
    v = 0
    for i in range(nbits):
        bit = (i % 2 == 0) if not start_one else (i % 2 == 1)
        if bit:
            v |= 1 << i
    return v


def edge(nbits: int):
    m = (1 << nbits) - 1
    if nbits == 1:
        return [0, 1]
    return dedupe([0, 1, (1 << (nbits - 1)) - 1, 1 << (nbits - 1), m - 1, m, alt(nbits, False), alt(nbits, True)])


def walk(nbits: int):
    """every bit in both polarities: 0, all-ones, each single-one, each single-zero, 0x55, 0xAA, 1, max-1"""
    m = (1 << nbits) - 1
    out = [0, m]
    out += [1 << k for k in range(nbits)]
    out += [m ^ (1 << k) for k in range(nbits)]
    out += [alt(nbits, False), alt(nbits, True), 1, m - 1]
    return dedupe([v for v in out if 0 <= v <= m])


def backgrounds(nbits: int, k: int):
    """K background values for 'the other fields': diagonals of the edge alphabet."""
    m = (1 << nbits) - 1
    base = [0, m, alt(nbits, False), alt(nbits, True), 1, m - 1, (1 << (nbits - 1)) & m, ((1 << (nbits - 1)) - 1) & m]
    return dedupe(base)[:k]


def out_of_range(maxv: int, n: int, minv: int = 0):
    """every value in [min-n, min-1] U [max+1, max+n], plus +-2^k for k <= 70 outside the range"""
    out = list(range(maxv + 1, maxv + 1 + n)) + list(range(minv - 1, minv - 1 - n, -1))
    for k in range(0, 71):
        for v in (1 << k, -(1 << k), (1 << k) + 1):
            if v > maxv or v < minv:
                out.append(v)
    return dedupe(out)


def all_bytes(maxlen: int):
    """every octet string of length <= maxlen, shortest first"""
    out = []
    for L in range(maxlen + 1):
        for t in itertools.product(range(256), repeat=L):
            out.append(bytes(t))
    return out


def shaped(length: int):
    """a few contents for longer octet strings: zeros, 0xFF, incrementing, decrementing, 0x55/0xAA"""
    if length == 0:
        return [b""]
    return dedupe([
        bytes(length),
        b"\xff" * length,
        bytes((i & 0xFF) for i in range(length)),
        bytes(((255 - i) & 0xFF) for i in range(length)),
        bytes((0x55 if i % 2 == 0 else 0xAA) for i in range(length)),
    ])


NAMES = ["", "a", "bc", "ä", "名/x", "dir/f.bin"]


def chunks(seq, n):
    """split a list into at most n contiguous parts of near-equal size (no empty part)"""
    seq = list(seq)
    n = max(1, min(n, len(seq)))
    k, r = divmod(len(seq), n)
    out = []
    i = 0
    for j in range(n):
        step = k + (1 if j < r else 0)
        out.append(seq[i:i + step])
        i += step
    return out
