"""Driver: ./bin/check <ID> [--tier quick|thorough] [--replay file] [--workers N]

exit 0  property held on everything explored (KNOWN-FINDING lines possible)
exit 1  + 'VIOLATION property=<id> replay=<path>' lines: violation(s) found
exit 2  harness error (never accompanied by a VIOLATION line)
"""

from __future__ import annotations

import argparse
import collections
import importlib
import json
import multiprocessing
import os
import re
import sys
import time
import traceback
import warnings

VERIF = os.path.dirname(os.path.dirname(os.path.abspath(__file__)))
REPO = os.environ.get("SPACEPACKETS_VERIF_REPO", "/repo")


class HarnessError(Exception):
    pass


def import_worktree():
    """Import spacepackets from the working tree and from nowhere else."""
    repo = os.path.realpath(REPO)
    if sys.path[0] != repo:
        sys.path.insert(0, repo)
    if VERIF not in sys.path:
        sys.path.insert(1, VERIF)
    warnings.simplefilter("ignore")
    import spacepackets

    f = os.path.realpath(spacepackets.__file__)
    if not f.startswith(repo + os.sep) or (os.sep + "build" + os.sep) in f[len(repo):]:
        raise HarnessError(f"spacepackets imported from {f}, expected under {repo}")
    return spacepackets


def load_check(pid: str):
    return importlib.import_module("checks." + pid.lower())


# --------------------------------------------------------------------------- workers
def _worker_init():
    import_worktree()
    import logging

    logging.disable(logging.CRITICAL)


def _library_frame(tb):
    """(relative file, function) of the innermost frame if the exception was raised inside the
    library under test, else None."""
    repo = os.path.realpath(REPO) + os.sep
    last = None
    while tb is not None:
        last = tb
        tb = tb.tb_next
    if last is None:
        return None
    f = os.path.realpath(last.tb_frame.f_code.co_filename)
    if f.startswith(repo + "spacepackets" + os.sep):
        return f[len(repo):], last.tb_frame.f_code.co_name
    return None


class ShardBudgetExceeded(BaseException):
    """a shard used far more CPU time than any shard does on a conforming tree (never a verdict: exit 2)"""


def _budget_handler(signum, frame):
    raise ShardBudgetExceeded()


SHARD_CPU_BUDGET_S = int(os.environ.get("VERIF_SHARD_CPU_BUDGET", "1500"))  # user CPU seconds; the longest shard needs < 120
SHARD_MEM_LIMIT = int(os.environ.get("VERIF_SHARD_MEM_LIMIT", str(12 << 30)))


def _arm_budget():
    import resource
    import signal

    try:
        signal.signal(signal.SIGVTALRM, _budget_handler)
        signal.setitimer(signal.ITIMER_VIRTUAL, SHARD_CPU_BUDGET_S)
        soft, hard = resource.getrlimit(resource.RLIMIT_AS)
        if soft == resource.RLIM_INFINITY or soft > SHARD_MEM_LIMIT:
            resource.setrlimit(resource.RLIMIT_AS, (SHARD_MEM_LIMIT, hard))
    except (ValueError, OSError):
        pass


def _disarm_budget():
    import signal

    try:
        signal.setitimer(signal.ITIMER_VIRTUAL, 0)
    except (ValueError, OSError):
        pass


def _worker_run(arg):
    pid, idx, item = arg
    mod = load_check(pid)
    try:
        _arm_budget()
        try:
            res = mod.run_shard(item)
        finally:
            _disarm_budget()
    except BaseException as e:
        lib = _library_frame(e.__traceback__) if isinstance(e, Exception) else None
        text = "".join(traceback.format_exception(type(e), e, e.__traceback__))[-4000:]
        if lib is not None:
            # An exception raised INSIDE the library escaped through an operation the check's script
            # expects to succeed (every expected refusal is caught where it is expected): the shard's
            # deterministic execution sequence is the witness.  Exceptions raised in harness frames
            # stay harness errors (exit 2), they are never a verdict.
            from mc.rec import Rec
            rec = Rec(pid, item)
            rec.case(True)
            rec.violation(f"{pid}.crash/{lib[0]}:{lib[1]}/{type(e).__name__}", {"__shard__": item},
                          observed=text[-1500:], expected="the operation succeeds (it does on the reference tree) or the refusal is one the check anticipates",
                          note="library exception escaped the check's script; replay re-executes the whole shard")
            res = rec.result()
            res["shard_item"] = item
            return idx, res
        if type(e).__name__ == "RefInputError":
            # a reference encoder was fed a value outside its field: on a tree where the alphabets pass (they are in range by
            # construction) that value was REPORTED by the library (ref/bits.py RefInputError) - a verdict, with the shard as witness
            from mc.rec import Rec
            rec = Rec(pid, item)
            rec.case(True)
            rec.violation(f"{pid}.observed/value-outside-its-field", {"__shard__": item}, observed=text[-1500:],
                          expected="every value the library reports fits the field it belongs to",
                          note="a value reported by the library did not fit its field in the reference encoder; replay re-executes the whole shard")
            res = rec.result()
            res["shard_item"] = item
            return idx, res
        # harness bug inside a shard: report, never a verdict
        return idx, {"harness_error": text, "shard": repr(item)[:300]}
    if isinstance(res, dict):
        res["shard_item"] = item
    return idx, res


def _replay_here(arg):
    pid, case = arg
    mod = load_check(pid)
    if isinstance(case, dict) and "__shard__" in case:
        _i, r = _worker_run((pid, 0, case["__shard__"]))
        return r
    try:
        return mod.replay(case)
    except BaseException as e:
        return {"harness_error": "replay failed:\n" + "".join(traceback.format_exception(type(e), e, e.__traceback__))[-3000:]}


def replay_case(pid, mod, case):
    """Re-execute one violation case in a freshly forked child of this (pristine) process, so that
    confirmations do not see each other's side effects.  A case {"__shard__": item} stands for the
    whole (deterministic) execution sequence of that shard."""
    if os.environ.get("VERIF_REPLAY_INPROC"):
        return _replay_here((pid, case))
    ctx = multiprocessing.get_context("fork")
    with ctx.Pool(1, initializer=_worker_init, maxtasksperchild=1) as pool:
        return pool.apply(_replay_here, ((pid, case),))


def run_shards(pid: str, items, workers: int, seed: int):
    order = list(range(len(items)))
    if seed and len(order) > 1:  # the seed only rotates the hand-out order, never the set of cases
        k = seed % len(order)
        order = order[k:] + order[:k]
    args = [(pid, i, items[i]) for i in order]
    results = [None] * len(items)
    if workers <= 1 or len(items) <= 1:
        _worker_init()
        for a in args:
            i, r = _worker_run(a)
            results[i] = r
    else:
        ctx = multiprocessing.get_context("fork")
        # maxtasksperchild=1: every shard runs in a fresh fork of the pristine parent, so what a shard observes
        # depends on nothing but its own (deterministic) execution sequence - "the shard is the replay" holds
        # also for process-global state leaking inside the library
        with ctx.Pool(min(workers, len(items)), initializer=_worker_init, maxtasksperchild=1) as pool:
            for i, r in pool.imap_unordered(_worker_run, args, chunksize=1):
                results[i] = r
    return results


# ------------------------------------------------------------------------- aggregate
def aggregate(results):
    agg = {
        "evaluations": 0, "ops": 0, "nontrivial": 0, "states": 0, "transitions": 0, "traces": 0,
        "viol_count": 0, "violations": collections.OrderedDict(), "samples": [],
        "counters": collections.Counter(), "outcomes": set(), "extra": [],
    }
    for r in results:
        if r is None:
            raise HarnessError("a shard returned nothing")
        if "harness_error" in r:
            raise HarnessError("shard %s failed:\n%s" % (r.get("shard"), r["harness_error"]))
        for k in ("evaluations", "ops", "nontrivial", "states", "transitions", "traces", "viol_count"):
            agg[k] += r.get(k, 0)
        for sig, v in r.get("violations", {}).items():
            v.setdefault("shard_item", r.get("shard_item"))
            old = agg["violations"].get(sig)
            # keep the simplest witness per signature (shortest case), ties: first in shard order
            if old is None or len(json.dumps(v["case"])) < len(json.dumps(old["case"])):
                agg["violations"][sig] = v
        for s in r.get("samples", []):
            if len(agg["samples"]) < 6:
                agg["samples"].append(s)
        agg["counters"].update(r.get("counters", {}))
        agg["outcomes"].update(r.get("outcomes", []))
        if r.get("extra"):
            agg["extra"].append(r["extra"])
    return agg


# ------------------------------------------------------------------------- findings
def load_findings(pid: str):
    path = os.path.join(VERIF, "KNOWN_FINDINGS.txt")
    out = []
    if not os.path.exists(path):
        return out
    for line in open(path, encoding="utf-8"):
        line = line.strip()
        if not line.startswith("finding:"):
            continue  # 'fixed:' lines and comments suppress nothing
        m = re.match(r"finding:\s+property=(\S+)\s+sig=(\S+)\s*(.*)", line)
        if m and m.group(1) == pid:
            out.append((m.group(2), m.group(3)))
    return out


def sig_to_name(sig: str) -> str:
    return re.sub(r"[^A-Za-z0-9_.=-]+", "_", sig)[:150]


def write_replay(pid: str, v: dict) -> str:
    d = os.path.join(VERIF, "replays", pid)
    os.makedirs(d, exist_ok=True)
    path = os.path.join(d, sig_to_name(v["sig"]) + ".json")
    doc = {"property": pid, "signature": v["sig"], "case": v["case"], "observed": v.get("observed"),
           "expected": v.get("expected"), "note": v.get("note"), "repro_py": v.get("repro_py"),
           "replay_cmd": f"./bin/check {pid} --replay {path}"}
    with open(path, "w", encoding="utf-8") as f:
        json.dump(doc, f, indent=1)
    return path


# ------------------------------------------------------------------------- evidence
def write_evidence(pid, mod, tier, seed, agg, wall, nviol, extra_cov):
    level = mod.LEVEL
    cov = {
        "evaluations": agg["evaluations"],
        "distinct_nontrivial": agg["nontrivial"],
        "rule": getattr(mod, "RULE", ""),
        "samples": agg["samples"][:6] or ["(no sample recorded)"],
        "exhaustive": bool(getattr(mod, "EXHAUSTIVE", True)),
        "library_operations_compared": agg["ops"],
        "violating_cases": agg["viol_count"],
        "distinct_observed_outcomes": len(agg["outcomes"]),
        "counters": dict(sorted(agg["counters"].items())),
        "bounds": getattr(mod, "BOUNDS", {}).get(tier, ""),
    }
    # every check is an explicit enumeration of executions of the implementation: a check that does not
    # keep its own state/transition counters (engines V and F) reports the distinct cases as states, the
    # compared library operations as transitions and the executed cases as validated traces
    cov["states"] = agg["states"] or agg["nontrivial"]
    cov["transitions"] = agg["transitions"] or agg["ops"]
    cov["traces_validated_against_impl"] = agg["traces"] or agg["evaluations"]
    cov.update(extra_cov or {})
    doc = {
        "property_id": pid, "tier": tier, "seed": seed, "level": level, "coverage": cov,
        "assumptions": list(getattr(mod, "ASSUMPTIONS", [])),
        "wall_s": round(wall, 3), "violations": nviol,
    }
    check_evidence(doc)
    d = os.path.join(VERIF, "evidence")
    os.makedirs(d, exist_ok=True)
    tmp = os.path.join(d, pid + ".json.tmp")
    with open(tmp, "w", encoding="utf-8") as f:
        json.dump(doc, f, indent=1, sort_keys=False)
    os.replace(tmp, os.path.join(d, pid + ".json"))


def check_evidence(doc):
    """Hand-written mirror of the rules of EVIDENCE.schema.json that matter (the /venv
    interpreter has no jsonschema; selftest/validate_evidence.sh uses the real one)."""
    for k in ("property_id", "tier", "seed", "level", "coverage", "wall_s"):
        if k not in doc:
            raise HarnessError("evidence lacks " + k)
    c = doc["coverage"]
    if doc["level"] in ("exploration", "fault_enumeration"):
        ok = c.get("evaluations", 0) >= 1 and c.get("distinct_nontrivial", 0) >= 2 and isinstance(c.get("rule"), str) and len(c.get("samples", [])) >= 1
    elif doc["level"] == "model_checking":
        ok = c.get("states", 0) >= 1 and c.get("transitions", 0) >= 1 and c.get("traces_validated_against_impl", -1) >= 0 and len(c.get("samples", [])) >= 1
    else:
        ok = True
    if not ok:
        raise HarnessError("evidence would not validate against the schema: %r" % {k: c.get(k) for k in ("evaluations", "distinct_nontrivial", "states", "transitions")})


# ----------------------------------------------------------------------------- main
def main(argv=None):
    ap = argparse.ArgumentParser()
    ap.add_argument("pid")
    ap.add_argument("--tier", default=os.environ.get("VERIF_TIER") or "quick", choices=["quick", "thorough"])
    ap.add_argument("--replay")
    ap.add_argument("--workers", type=int, default=int(os.environ.get("VERIF_WORKERS", "0")) or min(16, os.cpu_count() or 1))
    ap.add_argument("--no-evidence", action="store_true")
    a = ap.parse_args(argv)
    pid = a.pid.upper()
    try:
        seed = int(os.environ.get("VERIF_SEED", "0") or 0)
    except ValueError:
        seed = 0
    os.environ.setdefault("PYTHONHASHSEED", "0")
    t0 = time.time()
    try:
        import_worktree()
        import logging

        logging.disable(logging.CRITICAL)
        mod = load_check(pid)
        if a.replay:
            return do_replay(pid, mod, a.replay)
        items = mod.shards(a.tier)
        try:
            if json.loads(json.dumps(items)) != items:
                raise ValueError("not stable under a JSON round trip")
        except (TypeError, ValueError) as e:
            raise HarnessError(f"shards() of {pid} must return plain JSON data (a shard is also a replay artefact): {e}")
        results = run_shards(pid, items, a.workers, seed)
        agg = aggregate(results)
        extra_cov = mod.finalize(a.tier, agg) if hasattr(mod, "finalize") else {}
        known = load_findings(pid)
        new, listed = [], collections.OrderedDict()
        for sig, v in agg["violations"].items():
            hit = next((k for k in known if sig == k[0] or sig.startswith(k[0] + "/")), None)
            if hit:
                listed.setdefault(hit, v)
            else:
                new.append(v)
        # the harness never reports what it cannot reproduce (DESIGN.md 5.7)
        confirmed, unconfirmed = [], []
        for v in new[:40]:
            r = replay_case(pid, mod, v["case"])
            if "harness_error" in r:
                raise HarnessError(r["harness_error"])
            if v["sig"] not in r.get("violations", {}):
                # The single case does not fail in isolation.  Either the harness is not deterministic
                # (a harness error) or the outcome depends on what the library did EARLIER in the same
                # process (state leaking between calls: caches, shared templates, module-level buffers).
                # Decide by re-executing the shard's whole deterministic sequence: if the same signature
                # comes back, the history-dependent failure is real and the shard is its replay.
                shard = v.get("shard_item")
                r2 = replay_case(pid, mod, {"__shard__": shard}) if shard is not None else {}
                if "harness_error" in r2:
                    raise HarnessError(r2["harness_error"])
                if v["sig"] not in r2.get("violations", {}):
                    unconfirmed.append(v)
                    continue
                v = dict(v, case={"__shard__": shard, "first_failing_case": v["case"]},
                         note=((v.get("note") or "") + " [history-dependent: the case passes when executed alone in a fresh process and fails "
                               "within the shard's execution sequence, i.e. state leaks between library calls; replay re-executes the shard]").strip())
            confirmed.append(v)
        for v in unconfirmed:
            print("UNCONFIRMED [%s]: %s did not reproduce, neither alone nor in its shard: %s" % (pid, v["sig"], json.dumps(v["case"])[:300]), file=sys.stderr)
        if unconfirmed and not confirmed:
            # nothing reproducible to show: that is a defect of the harness (non-determinism), never a verdict
            raise HarnessError("%d violation signature(s) did not reproduce when re-executed, e.g. %s" % (len(unconfirmed), unconfirmed[0]["sig"]))
        wall = time.time() - t0
        if not a.no_evidence:
            write_evidence(pid, mod, a.tier, seed, agg, wall, len(confirmed), extra_cov)
        for (ksig, text), v in listed.items():
            print(f"KNOWN-FINDING: property={pid} sig={ksig} {text}")
        print(f"[{pid}] tier={a.tier} shards={len(items)} evaluations={agg['evaluations']} ops={agg['ops']} "
              f"nontrivial={agg['nontrivial']} states={agg['states']} transitions={agg['transitions']} "
              f"outcomes={len(agg['outcomes'])} violating_cases={agg['viol_count']} wall={wall:.1f}s")
        if confirmed:
            for v in confirmed:
                path = write_replay(pid, v)
                print(f"  {v['sig']}: observed={json.dumps(v.get('observed'))[:200]} expected={json.dumps(v.get('expected'))[:200]}")
                print(f"VIOLATION property={pid} replay={path}")
            sys.stdout.flush()
            return 1
        return 0
    except HarnessError as e:
        print(f"HARNESS-ERROR [{pid}]: {e}", file=sys.stderr)
        return 2
    except Exception:
        print(f"HARNESS-ERROR [{pid}]:\n{traceback.format_exc()}", file=sys.stderr)
        return 2


def do_replay(pid, mod, path):
    doc = json.load(open(path, encoding="utf-8"))
    r = replay_case(pid, mod, doc["case"])
    if "harness_error" in r:
        raise HarnessError(r["harness_error"])
    vs = r.get("violations", {})
    if vs:
        for sig, v in vs.items():
            print(f"  {sig}: observed={json.dumps(v.get('observed'))[:300]} expected={json.dumps(v.get('expected'))[:300]}")
        print(f"VIOLATION property={pid} replay={path}")
        return 1
    print(f"[{pid}] replay of {path}: no violation")
    return 0


if __name__ == "__main__":
    sys.exit(main())
