"""Engine T: run TLC on a model, dump the complete state graph, parse it.

TLC is started with `-dump dot,actionlabels`; provided `Next` is a flat disjunction of
`\\E ..: Action(args)` every edge is labelled `Action(arg,..)`.  State labels are conjunctions
`/\\ var = value` whose values are TLA+ tuples of integers / booleans (by construction of the
spec), so parsing is a substitution plus ast.literal_eval - not a TLA+ parser."""

from __future__ import annotations

import ast
import collections
import os
import re
import shutil
import subprocess


class TlcError(Exception):
    pass


def run_tlc(spec_path: str, cfg_text: str, scratch: str, workers: int = 1, timeout: int = 3600):
    os.makedirs(scratch, exist_ok=True)
    name = os.path.splitext(os.path.basename(spec_path))[0]
    shutil.copy(spec_path, os.path.join(scratch, name + ".tla"))
    with open(os.path.join(scratch, name + ".cfg"), "w") as f:
        f.write(cfg_text)
    dot = os.path.join(scratch, "graph.dot")
    cmd = ["tlc", "-workers", str(workers), "-noGenerateSpecTE", "-deadlock", "-metadir", os.path.join(scratch, "meta"),
           "-dump", "dot,actionlabels", dot, name + ".tla"]
    p = subprocess.run(cmd, cwd=scratch, stdout=subprocess.PIPE, stderr=subprocess.STDOUT, text=True, timeout=timeout)
    out = p.stdout
    if "Model checking completed. No error has been found." not in out:
        raise TlcError("TLC did not complete cleanly (a model property failed or the spec is broken):\n" + out[-3000:])
    m = re.search(r"(\d+) states generated, (\d+) distinct states found, 0 states left on queue", out)
    d = re.search(r"depth of the complete state graph search is (\d+)", out)
    if not m:
        raise TlcError("cannot find TLC's state counts:\n" + out[-2000:])
    return {"dot": dot, "generated": int(m.group(1)), "distinct": int(m.group(2)), "depth": int(d.group(1)) if d else None,
            "cmd": " ".join(cmd)}


_NODE = re.compile(r'^(-?\d+) \[label="(.*?)"[,\]]')
_EDGE = re.compile(r'^(-?\d+) -> (-?\d+) \[label="(\w+)(?:\(([^)]*)\))?"')


def parse_value(txt: str):
    t = txt.replace("<<", "[").replace(">>", "]").replace("TRUE", "True").replace("FALSE", "False")
    return ast.literal_eval(t)


def parse_state(label: str) -> dict:
    st = {}
    for part in label.split("\\n"):
        part = part.strip()
        if part.startswith("/\\\\"):
            part = part[3:].strip()
        if not part:
            continue
        var, _, val = part.partition(" = ")
        st[var.strip()] = parse_value(val.strip())
    return st


def parse_dot(path: str):
    """returns (init_id, states: id -> dict, edges: list of (src, dst, action, args tuple))"""
    states = collections.OrderedDict()
    edges = []
    init = None
    with open(path, encoding="utf-8") as f:
        for line in f:
            m = _EDGE.match(line)
            if m:
                args = tuple(int(a) for a in m.group(4).split(",")) if m.group(4) else ()
                edges.append((int(m.group(1)), int(m.group(2)), m.group(3), args))
                continue
            m = _NODE.match(line)
            if m:
                sid = int(m.group(1))
                if sid not in states:
                    states[sid] = parse_state(m.group(2))
                    if "style = filled" in line and init is None:
                        init = sid
    if init is None:
        raise TlcError("no initial state in the dump")
    return init, states, edges


def spanning_paths(init, edges):
    """breadth-first spanning tree: state id -> shortest list of (action, args) from the initial state"""
    out = collections.defaultdict(list)
    for s, d, a, args in edges:
        out[s].append((d, a, args))
    paths = {init: ()}
    q = collections.deque([init])
    while q:
        s = q.popleft()
        for d, a, args in out[s]:
            if d not in paths:
                paths[d] = paths[s] + ((a, args),)
                q.append(d)
    return paths
