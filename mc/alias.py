"""Independence oracle (engine-independent helper).

Everything the library hands out - a decoded object, a constructed object, the octets
returned by pack() - is a *value* the caller relies on: the properties say "decoding returns
these parameters", "packing yields these octets".  A result that silently changes when the
library is used again (a shared template object filled in place by every unpack, a
module-level output buffer, a flyweight cache of mutable fields, a class-level default
configuration) violates them although every call, looked at alone and at once, is right.

A Keeper holds the last `depth` results (the very objects the library returned, not copies)
together with a snapshot of their observation; after later library calls `recheck()` observes
them again.  Exhaustiveness: within a shard the enumeration order is fixed, so "every case is
re-observed after the next `depth` cases of the enumeration" is a deterministic, complete
sweep of the (earlier result, later operation) pairs that are adjacent in that order - in
particular every result is re-observed after operations on *different* values, which is what a
shared-state leak needs in order to show.

The violation's case is the case that produced the held result.  Executed alone it passes, so
the runner's confirmation step re-executes the whole shard (mc/runner.py: history-dependent
failures) and the shard becomes the replay artefact; the note names the later case.
"""

from __future__ import annotations

from mc.rec import jsonable


class Keeper:
    def __init__(self, rec, prop: str, depth: int = 3, live: bool = False):
        self.live = live  # count into rec immediately (no flush() needed)
        self.rec = rec
        self.prop = prop
        self.depth = depth
        self.ring = []
        self.holds = 0
        self.rechecks = 0

    def hold(self, subject: str, obj, observe, case):
        """subject: entry point that produced obj, e.g. 'PduHeader.unpack' or 'CdsShortTimestamp.pack';
        observe(obj) -> comparable plain value (ints / bytes / tuples), must copy mutable content."""
        if obj is None:
            return
        try:
            snap = observe(obj)
        except Exception:
            return  # whether obj can be observed at all is the check's own business
        self.holds += 1
        if self.live:
            self.rec.counters["independence_results_held"] += 1
        self.ring.append((subject, obj, observe, snap, case))
        if len(self.ring) > self.depth:
            self.ring.pop(0)

    def recheck(self, current_case=None):
        """call after every case (after all library calls of the case)"""
        keep = []
        for ent in self.ring:
            subject, obj, observe, snap, case = ent
            self.rechecks += 1
            if self.live:
                self.rec.counters["independence_reobservations"] += 1
                self.rec.ops += 1
            try:
                now = observe(obj)
            except Exception as e:  # noqa: BLE001 - any failure to re-observe is a change
                now = ("exception", type(e).__name__, str(e)[:100])
            if now != snap:
                self.rec.violation(
                    f"{self.prop}.independence/{subject}/result-changed-by-a-later-call",
                    case, observed=now, expected=snap,
                    note="a result handed out earlier changed after later library calls; later case: %s"
                    % (repr(jsonable(current_case))[:300],))
            else:
                keep.append(ent)
        self.ring = keep

    def flush(self):
        if self.live:
            return
        self.rec.count("independence_results_held", self.holds)
        self.rec.count("independence_reobservations", self.rechecks)
        self.rec.ops += self.rechecks
        self.holds = self.rechecks = 0


def receive_buffer(data) -> bytearray:
    """a mutable receive buffer holding `data` (the caller re-uses it after the decoder returned: see reuse_buffer)"""
    return bytearray(data)


def reuse_buffer(buf: bytearray):
    """the caller re-uses its receive buffer: every octet is overwritten.  A decoded object is a value; one that kept a
    view of the caller's buffer (memoryview / un-copied slice) changes now and is caught by the comparisons that follow."""
    for i in range(len(buf)):
        buf[i] ^= 0xFF
