"""Per-shard recorder.  A shard function receives a work item (plain data), creates a
Rec, executes every case of the shard against the implementation and returns
rec.result() (plain data again, so it pickles)."""

from __future__ import annotations

import collections
import signal


def jsonable(x, depth=0):
    """Best-effort conversion of observations to JSON-able data (bytes -> hex)."""
    if depth > 8:
        return repr(x)
    if x is None or isinstance(x, (bool, int, float, str)):
        if isinstance(x, int) and not isinstance(x, bool):
            return int(x)
        return x
    if isinstance(x, (bytes, bytearray, memoryview)):
        return "hex:" + bytes(x).hex()
    if isinstance(x, dict):
        return {str(k): jsonable(v, depth + 1) for k, v in x.items()}
    if isinstance(x, (list, tuple, set, frozenset)):
        return [jsonable(v, depth + 1) for v in x]
    return repr(x)


def unhex(x):
    """Inverse of the bytes encoding used by jsonable (recursively)."""
    if isinstance(x, str) and x.startswith("hex:"):
        return bytes.fromhex(x[4:])
    if isinstance(x, list):
        return [unhex(v) for v in x]
    if isinstance(x, dict):
        return {k: unhex(v) for k, v in x.items()}
    return x


class Hang(Exception):
    """Raised by the watchdog inside a worker when a single case exceeds its budget."""


class Watchdog:
    """Interval-timer watchdog for a single call: `with Watchdog(2.0): decode(b)`.
    A decoder that loops is interrupted with Hang (reported as a violation by the
    check), the property says 'never loops'."""

    def __init__(self, seconds: float):
        self.seconds = seconds

    @staticmethod
    def _handler(signum, frame):
        raise Hang()

    def __enter__(self):
        self._old = signal.signal(signal.SIGALRM, self._handler)
        signal.setitimer(signal.ITIMER_REAL, self.seconds)
        return self

    def __exit__(self, *exc):
        signal.setitimer(signal.ITIMER_REAL, 0)
        signal.signal(signal.SIGALRM, self._old)
        return False


MAX_SIGS_PER_SHARD = 200


class Rec:
    def __init__(self, prop: str, shard=None):
        self.prop = prop
        self.shard = shard
        self.evaluations = 0  # cases executed
        self.ops = 0  # library operations executed and compared
        self.nontrivial = 0  # distinct non-trivial cases (rule stated by the check)
        self.states = 0
        self.transitions = 0
        self.traces = 0
        self.violations = {}  # sig -> first witness
        self.viol_count = 0
        self.samples = []
        self.counters = collections.Counter()
        self.outcomes = set()  # small strings: distinct observable outcomes
        self.extra = {}

    # -- counting -----------------------------------------------------------------
    def case(self, nontrivial: bool = True, ops: int = 0):
        self.evaluations += 1
        if nontrivial:
            self.nontrivial += 1
        self.ops += ops

    def count(self, key: str, n: int = 1):
        self.counters[key] += n

    def outcome(self, s: str):
        if len(self.outcomes) < 5000:
            self.outcomes.add(s)

    def sample(self, s, limit: int = 3):
        if len(self.samples) < limit:
            self.samples.append(jsonable(s))

    # -- violations ---------------------------------------------------------------
    def violation(self, sig: str, case, observed=None, expected=None, note=None, repro=None):
        """sig: '<clause>/<subject>/<kind>[/<feature>=<v>...]'.  Only the first witness
        per signature is kept (the enumeration order is simplest-first)."""
        self.viol_count += 1
        if sig in self.violations or len(self.violations) >= MAX_SIGS_PER_SHARD:
            return
        self.violations[sig] = {
            "sig": sig,
            "case": jsonable(case),
            "observed": jsonable(observed),
            "expected": jsonable(expected),
            "note": note,
            "repro_py": repro,
        }

    def result(self) -> dict:
        return {
            "shard": jsonable(self.shard),
            "evaluations": self.evaluations,
            "ops": self.ops,
            "nontrivial": self.nontrivial,
            "states": self.states,
            "transitions": self.transitions,
            "traces": self.traces,
            "violations": self.violations,
            "viol_count": self.viol_count,
            "samples": self.samples,
            "counters": dict(self.counters),
            "outcomes": sorted(self.outcomes),
            "extra": self.extra,
        }
