---- MODULE PusVerificator ----
\* Documented state machine of spacepackets.ecss.pus_verificator.PusVerificator for NTC telecommands
\* (DESIGN.md section 4 C16 / Appendix A).  The action NAME carries the answer the call must give;
\* mc/tlc.py replays every edge of the dumped state graph against the implementation.
EXTENDS Naturals, Sequences, FiniteSets
CONSTANTS NTC, STEPIDS, MAXSTEPS
VARIABLES tracked, acc, sta, stp, cmp, allr, steps
TCS == 1..NTC
UNSET == 0  FAILURE == 1  SUCCESS == 2
vars == <<tracked, acc, sta, stp, cmp, allr, steps>>
Init == /\ tracked = [t \in TCS |-> FALSE]
        /\ acc = [t \in TCS |-> UNSET] /\ sta = [t \in TCS |-> UNSET]
        /\ stp = [t \in TCS |-> UNSET] /\ cmp = [t \in TCS |-> UNSET]
        /\ allr = [t \in TCS |-> FALSE] /\ steps = [t \in TCS |-> <<>>]
Reset(t) == /\ acc' = [acc EXCEPT ![t] = UNSET] /\ sta' = [sta EXCEPT ![t] = UNSET]
            /\ stp' = [stp EXCEPT ![t] = UNSET] /\ cmp' = [cmp EXCEPT ![t] = UNSET]
            /\ allr' = [allr EXCEPT ![t] = FALSE] /\ steps' = [steps EXCEPT ![t] = <<>>]
AddTcNew(t) == ~tracked[t] /\ tracked' = [tracked EXCEPT ![t] = TRUE] /\ Reset(t)
AddTcDup(t) == tracked[t] /\ UNCHANGED vars
AfterStepRule(t) == acc[t] # UNSET /\ sta[t] # UNSET
Apply(t, s, id) ==
  /\ UNCHANGED tracked
  /\ acc' = [acc EXCEPT ![t] = IF s = 1 THEN SUCCESS ELSE IF s = 2 THEN FAILURE ELSE @]
  /\ sta' = [sta EXCEPT ![t] = IF s = 3 THEN SUCCESS ELSE IF s = 4 THEN FAILURE ELSE @]
  /\ stp' = [stp EXCEPT ![t] = IF s = 5 THEN (IF @ = UNSET THEN SUCCESS ELSE @)
                               ELSE IF s = 6 THEN FAILURE ELSE @]
  /\ cmp' = [cmp EXCEPT ![t] = IF s = 7 THEN SUCCESS ELSE IF s = 8 THEN FAILURE ELSE @]
  /\ steps' = [steps EXCEPT ![t] = IF s \in {5,6} THEN Append(@, id) ELSE @]
  /\ allr' = [allr EXCEPT ![t] = @ \/ (s = 2) \/ (s = 4 /\ acc[t] # UNSET)
                                   \/ (s \in {6,7,8} /\ AfterStepRule(t))]
\* the action NAME carries the answer the call must give:
\* Done: result.completed = True, Open: False, Ignored/UnknownTc: None
AddTmDone(t, s)      == tracked[t] /\ s \in {2,4,7,8} /\ Apply(t, s, 0)
AddTmOpen(t, s)      == tracked[t] /\ s \in {1,3} /\ Apply(t, s, 0)
AddTmStepOpen(t, id) == tracked[t] /\ Len(steps[t]) < MAXSTEPS /\ Apply(t, 5, id)
AddTmStepDone(t, id) == tracked[t] /\ Len(steps[t]) < MAXSTEPS /\ Apply(t, 6, id)
AddTmIgnored(t, s)   == ~tracked[t] /\ UNCHANGED vars
AddTmUnknownTc(s)    == UNCHANGED vars
RemoveHit(t)  == tracked[t] /\ tracked' = [tracked EXCEPT ![t] = FALSE] /\ Reset(t)
RemoveMiss(t) == ~tracked[t] /\ UNCHANGED vars
RemoveCompleted ==
  /\ tracked' = [t \in TCS |-> tracked[t] /\ ~allr[t]]
  /\ acc' = [t \in TCS |-> IF allr[t] THEN UNSET ELSE acc[t]]
  /\ sta' = [t \in TCS |-> IF allr[t] THEN UNSET ELSE sta[t]]
  /\ stp' = [t \in TCS |-> IF allr[t] THEN UNSET ELSE stp[t]]
  /\ cmp' = [t \in TCS |-> IF allr[t] THEN UNSET ELSE cmp[t]]
  /\ steps' = [t \in TCS |-> IF allr[t] THEN <<>> ELSE steps[t]]
  /\ allr' = [t \in TCS |-> FALSE]
Next == \/ \E t \in TCS : AddTcNew(t)
        \/ \E t \in TCS : AddTcDup(t)
        \/ \E t \in TCS, s \in {2,4,7,8} : AddTmDone(t, s)
        \/ \E t \in TCS, s \in {1,3} : AddTmOpen(t, s)
        \/ \E t \in TCS, id \in STEPIDS : AddTmStepOpen(t, id)
        \/ \E t \in TCS, id \in STEPIDS : AddTmStepDone(t, id)
        \/ \E t \in TCS, s \in 1..8 : AddTmIgnored(t, s)
        \/ \E s \in 1..8 : AddTmUnknownTc(s)
        \/ \E t \in TCS : RemoveHit(t)
        \/ \E t \in TCS : RemoveMiss(t)
        \/ RemoveCompleted
Spec == Init /\ [][Next]_vars
TypeOK == \A t \in TCS :
   /\ acc[t] \in 0..2 /\ sta[t] \in 0..2 /\ stp[t] \in 0..2 /\ cmp[t] \in 0..2
   /\ Len(steps[t]) <= MAXSTEPS
   /\ (~tracked[t] => (acc[t] = UNSET /\ sta[t] = UNSET /\ stp[t] = UNSET
                       /\ cmp[t] = UNSET /\ allr[t] = FALSE /\ steps[t] = <<>>))
Same(t) == tracked[t] /\ tracked'[t]      \* the same registration before and after
StepFailSticky == [][\A t \in TCS : (Same(t) /\ stp[t] = FAILURE) => stp'[t] = FAILURE]_vars
AllMonotone    == [][\A t \in TCS : (Same(t) /\ allr[t]) => allr'[t]]_vars
StepsGrow      == [][\A t \in TCS : Same(t) =>
                     /\ Len(steps'[t]) \in {Len(steps[t]), Len(steps[t]) + 1}
                     /\ SubSeq(steps'[t], 1, Len(steps[t])) = steps[t]]_vars
AllOnlyByRule  == [][\A t \in TCS : (Same(t) /\ ~allr[t] /\ allr'[t]) =>
                     \/ acc'[t] = FAILURE
                     \/ (sta'[t] = FAILURE /\ acc[t] # UNSET)
                     \/ (acc[t] # UNSET /\ sta[t] # UNSET
                         /\ (stp'[t] = FAILURE \/ cmp'[t] # UNSET))]_vars
\* I3 frame condition: an event addressed to one telecommand changes no other record
RecOf(t) == <<tracked[t], acc[t], sta[t], stp[t], cmp[t], allr[t], steps[t]>>
FrameCond == [][(\E t \in TCS : \A u \in TCS \ {t} : RecOf(u)' = RecOf(u)) \/ RemoveCompleted]_vars
\* I7 RemoveCompleted removes exactly the finished records and nothing else changes
RemoveExact == [][RemoveCompleted => \A t \in TCS : /\ tracked'[t] = (tracked[t] /\ ~allr[t])
                                                    /\ (tracked'[t] => RecOf(t)' = RecOf(t))]_vars
====
