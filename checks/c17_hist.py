"""C17 - histories over USLP objects (explicit-state part of checks/c17.py, DESIGN.md 2.3).

A transfer frame / header object whose public attributes are assigned (the library's own unpack()
builds its results that way, tests/test_uslp.py assigns header attributes and packs again) is still
"a frame" / "a header" of the property: for its CURRENT values it must pack to the octets of the
standard, len() must equal the packed size and set_frame_len_in_header() must write size-1.  A
cached size / packed image that is refreshed by some assignments but not by others, or only goes
stale when it was read before the assignment, or only on objects that came out of unpack(), is
invisible to any single construct-pack-unpack case.

Model = a plain dict of the current values; reference octets = ref/uslp.py for those values.
A history is a word over  mutators + observers ; observers compare their own result with the
model (they are part of the alphabet because a read may fill a cache); after the last letter the
whole set of observers is run once more (final observation), then the frame length is updated and
the re-encoded frame is decoded again with the managed parameters of the model.  All words up to
the depth bound are executed from every start state (constructed through the public constructors
without any read, and decoded from the reference octets), shortest first."""

from __future__ import annotations

import itertools

from mc.rec import Rec
from ref import uslp as R
from units import uslp as UU

PROPERTY = "C17"
SUFFIX = b"\xee\xee"

VCFS = [(0, 0), (1, 0xA1), (3, 0xFFFEFD), (7, 0xA1A2A3A4A5A6A7), (2, 0x0102)]
PTRS = (0x0102, 0xFFFF, 0)
TRUNC_HDRS = [dict(scid=12, src_dest=0, vcid=5, map_id=12), dict(scid=0xFFFF, src_dest=1, vcid=63, map_id=15),
              dict(scid=0xA5A5, src_dest=1, vcid=0x2A, map_id=5), dict(scid=0, src_dest=0, vcid=0, map_id=0)]


def _f():
    import spacepackets.uslp.frame as f

    return f


def _h():
    import spacepackets.uslp.header as h

    return h


# ============================================================================ frames
def frame_starts(fk):
    """start recipes (units.uslp frame recipes): optional parts all present / all absent / mixed,
    empty and non-empty data zone, headers with and without VCF count"""
    fr, H, P = UU.frame_recipe, UU.HDRS, UU.tfdz_pattern
    if fk == "fixed":
        return [fr(H[0], 0, 0, 0x0102, P(5, 1), UU.IZS[2], UU.OCFS[1], UU.FECFS[1]),
                fr(H[1], 1, 31, 0xFFFF, P(0), None, None, None),
                fr(H[3], 2, 0x15, 0, P(1, 2), UU.IZS[1], None, UU.FECFS[2])]
    if fk == "var":
        return [fr(H[0], 7, 4, None, P(5, 3), UU.IZS[2], UU.OCFS[1], UU.FECFS[1]),
                fr(H[1], 3, 0, None, P(0), None, None, None),
                fr(H[2], 5, 31, None, P(16, 4), None, UU.OCFS[1], None)]
    return [fr(TRUNC_HDRS[0], 7, 4, None, P(4, 5), None, None, None),
            fr(TRUNC_HDRS[1], 3, 31, None, P(0), None, None, None)]


def frame_model(r, fk):
    tfdz, iz, ocf, fecf = UU.frame_parts(r)
    hdrs = TRUNC_HDRS if fk == "trunc" else UU.HDRS
    return {"hdr": dict(r["hdr"]), "hdr_i": next((i for i, h in enumerate(hdrs) if h == r["hdr"]), 0), "frame_len": 0,
            "rule": r["rule"], "upid": r["upid"], "ptr": r.get("ptr"), "tfdz": tfdz, "iz": iz, "ocf": ocf, "fecf": fecf}


def m_hdr(m, fk):
    h = m["hdr"]
    if fk == "trunc":
        return R.truncated_header(h["scid"], h["src_dest"], h["vcid"], h["map_id"])
    return R.primary_header(h["scid"], h["src_dest"], h["vcid"], h["map_id"], m["frame_len"], h["bypass"], h["prot_cmd"],
                            int(m["ocf"] is not None), h["vcf_len"], h["vcf_count"] if h["vcf_len"] else 0)


def m_tfdf(m, fk):
    return R.tfdf_header(m["rule"], m["upid"], None if fk == "trunc" else m["ptr"]) + m["tfdz"]


def m_frame(m, fk):
    return m_hdr(m, fk) + (m["iz"] or b"") + m_tfdf(m, fk) + (m["ocf"] or b"") + (m["fecf"] or b"")


def m_expected(m, fk):
    h = m["hdr"]
    if fk == "trunc":
        eh = ("trunc", h["scid"], h["src_dest"], h["vcid"], h["map_id"])
    else:
        eh = ("hdr", h["scid"], h["src_dest"], h["vcid"], h["map_id"], m["frame_len"], h["bypass"], h["prot_cmd"], int(m["ocf"] is not None),
              h["vcf_len"], h["vcf_count"] if h["vcf_len"] else 0)
    return ("frame", eh, m["iz"], ("tfdf", m["rule"], m["upid"], None if fk == "trunc" else m["ptr"], m["tfdz"]), m["ocf"], m["fecf"])


def m_key(m):
    return (tuple(sorted(m["hdr"].items())), m["frame_len"], m["rule"], m["upid"], m["ptr"], m["tfdz"], m["iz"], m["ocf"], m["fecf"])


def m_properties(m, fk, n):
    f = _f()
    args = dict(has_insert_zone=m["iz"] is not None, has_fecf=m["fecf"] is not None, insert_zone_len=len(m["iz"]) if m["iz"] is not None else None,
                fecf_len=len(m["fecf"]) if m["fecf"] is not None else None)
    if fk == "fixed":
        return f.FrameType.FIXED, f.FixedFrameProperties(fixed_len=n, **args)
    return f.FrameType.VARIABLE, f.VarFrameProperties(truncated_frame_len=n if fk == "trunc" else 12, **args)


def build_header(m, fk):
    if fk == "trunc":
        return UU.build_truncated_header(m["hdr"])
    return UU.build_primary_header(dict(m["hdr"], frame_len=m["frame_len"], ocf=int(m["ocf"] is not None)))


def build_tfdf(m, fk):
    return UU.build_tfdf(dict(rule=m["rule"], upid=m["upid"], ptr=None if fk == "trunc" else m["ptr"], tfdz=UU.hx(m["tfdz"])))


def start_frame(m, fk, origin):
    """constructed: public constructors only, nothing read yet (frame length field 0);
    decoded: TransferFrame.unpack of the reference octets (frame length field = size - 1)"""
    f = _f()
    if origin == "constructed":
        return f.TransferFrame(header=build_header(m, fk), tfdf=build_tfdf(m, fk), insert_zone=m["iz"], op_ctrl_field=m["ocf"], fecf=m["fecf"])
    if fk != "trunc":
        m["frame_len"] = len(m_frame(m, fk)) - 1
    raw = m_frame(m, fk)
    ft, props = m_properties(m, fk, len(raw))
    return f.TransferFrame.unpack(raw_frame=raw, frame_type=ft, frame_properties=props)


# ---- mutators: change the model and the object through public attributes / constructors
def _cyc(seq, cur):
    seq = list(seq)
    return seq[(seq.index(cur) + 1) % len(seq)] if cur in seq else seq[0]


def mu_tfdz_shorter(m, fr, fk):
    m["tfdz"] = m["tfdz"][: len(m["tfdz"]) // 2]
    fr.tfdf.tfdz = m["tfdz"]


def mu_tfdz_longer(m, fr, fk):
    m["tfdz"] = m["tfdz"] + b"\x5a\x5b\x5c"
    fr.tfdf.tfdz = m["tfdz"]


def mu_tfdz_inplace(m, fr, fk):
    """the caller keeps its own (mutable) buffer as data zone, extends it in place and assigns the same object again"""
    buf = fr.tfdf.tfdz
    if not isinstance(buf, bytearray):
        buf = bytearray(buf)
        fr.tfdf.tfdz = buf
    buf += b"\x7a\x7b"
    fr.tfdf.tfdz = buf
    m["tfdz"] = bytes(buf)


def mu_tfdz_same_len(m, fr, fk):
    m["tfdz"] = bytes(b ^ 0xFF for b in m["tfdz"])
    fr.tfdf.tfdz = m["tfdz"]


def mu_iz(m, fr, fk):
    m["iz"] = _cyc(UU.IZS, m["iz"])
    fr.insert_zone = m["iz"]


def mu_fecf(m, fr, fk):
    m["fecf"] = _cyc(UU.FECFS, m["fecf"])
    fr.fecf = m["fecf"]


def mu_ocf(m, fr, fk):
    m["ocf"] = _cyc(UU.OCFS, m["ocf"])
    fr.op_ctrl_field = m["ocf"]
    fr.header.op_ctrl_flag = m["ocf"] is not None  # pack() demands flag and field to agree


def mu_vcf(m, fr, fk):
    h = m["hdr"]
    h["vcf_len"], h["vcf_count"] = _cyc(VCFS, (h["vcf_len"], h["vcf_count"]))
    fr.header.vcf_count_len = h["vcf_len"]
    fr.header.vcf_count = h["vcf_count"]


def mu_ids(m, fr, fk):
    h = m["hdr"]
    h.update(scid=h["scid"] ^ 0xFFFF, vcid=h["vcid"] ^ 0x3F, map_id=h["map_id"] ^ 0xF, src_dest=h["src_dest"] ^ 1)
    fr.header.scid, fr.header.vcid, fr.header.map_id, fr.header.src_dest = h["scid"], h["vcid"], h["map_id"], h["src_dest"]


def mu_flags(m, fr, fk):
    h = m["hdr"]
    h.update(bypass=h["bypass"] ^ 1, prot_cmd=h["prot_cmd"] ^ (h["bypass"] & 1))
    fr.header.bypass_seq_ctrl_flag, fr.header.prot_ctrl_cmd_flag = h["bypass"], h["prot_cmd"]


def mu_frame_len(m, fr, fk):
    m["frame_len"] ^= 0xA5A5
    fr.header.frame_len = m["frame_len"]


def mu_ptr(m, fr, fk):
    m["ptr"] = _cyc(PTRS, m["ptr"])
    fr.tfdf.fhp_or_lvop = m["ptr"]  # value only: present stays present


def mu_upid(m, fr, fk):
    m["upid"] = (m["upid"] + 13) % 32
    fr.tfdf.uslp_ident = m["upid"]


def mu_rule(m, fr, fk):
    m["rule"] = _cyc(R.FIXED_RULES if fk == "fixed" else R.VARIABLE_RULES, m["rule"])  # same class: pointer presence unchanged
    fr.tfdf.tfdz_contr_rules = m["rule"]


def mu_tfdf_replace(m, fr, fk):
    m["tfdz"] = m["tfdz"] + b"\x6a\x6b"
    fr.tfdf = build_tfdf(m, fk)


def mu_hdr_replace(m, fr, fk):
    hdrs = TRUNC_HDRS if fk == "trunc" else UU.HDRS
    m["hdr_i"] = (m["hdr_i"] + 1) % len(hdrs)
    m["hdr"] = dict(hdrs[m["hdr_i"]])
    fr.header = build_header(m, fk)


MUTATORS = {
    "tfdf.tfdz=shorter": mu_tfdz_shorter, "tfdf.tfdz=longer": mu_tfdz_longer, "tfdf.tfdz=same-length": mu_tfdz_same_len,
    "tfdf.tfdz=own-buffer-extended": mu_tfdz_inplace, "insert_zone=": mu_iz, "fecf=": mu_fecf, "op_ctrl_field=": mu_ocf, "header.vcf_count(_len)=": mu_vcf, "header.ids=": mu_ids,
    "header.flags=": mu_flags, "header.frame_len=": mu_frame_len, "tfdf.fhp_or_lvop=": mu_ptr, "tfdf.uslp_ident=": mu_upid,
    "tfdf.tfdz_contr_rules=": mu_rule, "tfdf=TransferFrameDataField(..)": mu_tfdf_replace, "header=Header(..)": mu_hdr_replace,
}
TRUNC_MUTATORS = ("tfdf.tfdz=shorter", "tfdf.tfdz=longer", "tfdf.tfdz=same-length", "tfdf.tfdz=own-buffer-extended", "header.ids=", "tfdf.uslp_ident=", "tfdf.tfdz_contr_rules=",
                  "tfdf=TransferFrameDataField(..)", "header=Header(..)")
OBSERVERS = ("len()", "pack(frame_type)", "pack()", "set_frame_len_in_header()", "tfdf.len()", "tfdf.pack()", "header.pack()", "header.len()")


def frame_alphabet(fk):
    if fk == "trunc":
        mus = list(TRUNC_MUTATORS)
    else:
        mus = [k for k in MUTATORS if fk == "fixed" or k != "tfdf.fhp_or_lvop="]
    return mus + list(OBSERVERS)


class _Stop(Exception):
    pass


def run_frame_history(rec: Rec, fk, origin, r, ops, states=None):
    """one history; returns after the first disagreement (later letters would only repeat it)"""
    f = _f()
    case = {"kind": "hist", "subject": "frame", "fk": fk, "origin": origin, "r": r, "ops": list(ops)}
    rec.case(True, ops=len(ops) + len(OBSERVERS) + 3)
    rec.traces += 1
    rec.transitions += len(ops)
    trunc = fk == "trunc"
    ft = f.FrameType.FIXED if fk == "fixed" else f.FrameType.VARIABLE
    m = frame_model(r, fk)
    step = ["start"]

    def bad(kind, observed, expected):
        rec.violation(f"C17.history/TransferFrame/{kind}/{fk}/{origin}", case, {"at": step[0], "observed": observed}, expected,
                      repro=f"checks/c17_hist.py run_frame_history(rec, {fk!r}, {origin!r}, {r!r}, {list(ops)!r})")
        raise _Stop

    def observe(name):
        try:
            if name == "len()":
                got, exp = fr.len(), len(m_frame(m, fk))
            elif name == "pack(frame_type)":
                got, exp = bytes(fr.pack(truncated=True, frame_type=ft) if trunc else fr.pack(frame_type=ft)), m_frame(m, fk)
            elif name == "pack()":
                got, exp = bytes(fr.pack(truncated=True) if trunc else fr.pack()), m_frame(m, fk)
            elif name == "set_frame_len_in_header()":
                fr.set_frame_len_in_header()
                if trunc:
                    return
                m["frame_len"] = len(m_frame(m, fk)) - 1
                got, exp = fr.header.frame_len, m["frame_len"]
            elif name == "tfdf.len()":
                got, exp = fr.tfdf.len(), len(m_tfdf(m, fk))
            elif name == "tfdf.pack()":
                got, exp = bytes(fr.tfdf.pack(truncated=trunc, frame_type=ft)), m_tfdf(m, fk)
            elif name == "header.pack()":
                got, exp = bytes(fr.header.pack()), m_hdr(m, fk)
            else:
                got, exp = fr.header.len(), len(m_hdr(m, fk))
        except _Stop:
            raise
        except Exception as e:
            bad(name.split("(")[0] + "/exception/" + type(e).__name__, repr(e), "no exception")
        if got != exp:
            bad(name.split("(")[0], got, exp)

    try:
        try:
            fr = start_frame(m, fk, origin)
        except Exception as e:
            bad("start/exception/" + type(e).__name__, repr(e), "a frame")
        for i, op in enumerate(ops):
            step[0] = f"step {i + 1}: {op}"
            if op in MUTATORS:
                try:
                    MUTATORS[op](m, fr, fk)
                except Exception as e:
                    bad("assignment/exception/" + type(e).__name__, repr(e), "no exception")
                if states is not None:
                    states.add(m_key(m))
            else:
                observe(op)
        step[0] = "final observation after " + (ops[-1] if ops else "start")
        for name in OBSERVERS:  # set_frame_len_in_header() is among them: afterwards the field must be size - 1 in the octets too
            observe(name)
        step[0] = "re-encode after set_frame_len_in_header() and decode with the managed parameters of the current values"
        observe("pack(frame_type)")
        raw = m_frame(m, fk)
        try:
            ftype, props = m_properties(m, fk, len(raw))
            u = f.TransferFrame.unpack(raw_frame=bytes(fr.pack(truncated=True) if trunc else fr.pack(frame_type=ft)), frame_type=ftype, frame_properties=props)
            obs = UU.observe_frame(u)
        except Exception as e:
            bad("re-decode/exception/" + type(e).__name__, repr(e), m_expected(m, fk))
        if obs != m_expected(m, fk):
            bad("re-decode/fields", obs, m_expected(m, fk))
        if u.len() != len(raw):
            bad("re-decode/len", u.len(), len(raw))
    except _Stop:
        return False
    return True


# =========================================================================== headers
HFIELDS = ("scid", "src_dest", "vcid", "map_id", "frame_len", "bypass", "prot_cmd", "ocf", "vcf_len", "vcf_count")
TFIELDS = ("scid", "src_dest", "vcid", "map_id")
MASK = {"scid": 0xFFFF, "src_dest": 1, "vcid": 0x3F, "map_id": 0xF, "frame_len": 0xFFFF, "bypass": 1, "prot_cmd": 1, "ocf": 1}
ATTR = {"scid": "scid", "src_dest": "src_dest", "vcid": "vcid", "map_id": "map_id", "frame_len": "frame_len", "bypass": "bypass_seq_ctrl_flag",
        "prot_cmd": "prot_ctrl_cmd_flag", "ocf": "op_ctrl_flag"}
IN_RANGE = {"scid": 0x1234, "vcid": 0x15, "map_id": 0xA}


def header_alphabet(subject):
    ids = ["scid=", "src_dest=", "vcid=", "map_id="]
    bad = ["scid=out-of-range", "vcid=out-of-range", "map_id=out-of-range"]
    if subject == "TruncatedPrimaryHeader":
        return ids + bad + ["pack()", "len()"]
    return ids + ["frame_len=", "bypass=", "prot_cmd=", "ocf=", "vcf_count(_len)=", "vcf_count="] + bad + ["pack()", "len()"]


def header_starts(subject):
    if subject == "TruncatedPrimaryHeader":
        return [dict(h) for h in TRUNC_HDRS]
    return [dict(scid=0x1234, src_dest=0, vcid=0x15, map_id=0xA, frame_len=0x0102, bypass=0, prot_cmd=0, ocf=0, vcf_len=0, vcf_count=0),
            dict(scid=0xFFFF, src_dest=1, vcid=63, map_id=15, frame_len=0xFFFF, bypass=1, prot_cmd=1, ocf=1, vcf_len=7, vcf_count=0xFFFFFFFFFFFFFF),
            dict(scid=0, src_dest=0, vcid=0, map_id=0, frame_len=0, bypass=0, prot_cmd=1, ocf=0, vcf_len=3, vcf_count=0),
            dict(scid=0xA5A5, src_dest=1, vcid=0x2A, map_id=5, frame_len=0x5555, bypass=1, prot_cmd=0, ocf=1, vcf_len=2, vcf_count=0x0102)]


def h_valid(m):
    return 0 <= m["scid"] <= 0xFFFF and 0 <= m["vcid"] <= 63 and 0 <= m["map_id"] <= 15


def h_ref(m, subject):
    if subject == "TruncatedPrimaryHeader":
        return R.truncated_header(m["scid"], m["src_dest"], m["vcid"], m["map_id"])
    return R.primary_header(m["scid"], m["src_dest"], m["vcid"], m["map_id"], m["frame_len"], m["bypass"], m["prot_cmd"], m["ocf"],
                            m["vcf_len"], m["vcf_count"] if m["vcf_len"] else 0)


def h_len(m, subject):
    return 4 if subject == "TruncatedPrimaryHeader" else 7 + m["vcf_len"]


def run_header_history(rec: Rec, subject, origin, r, ops, states=None):
    h = _h()
    case = {"kind": "hist", "subject": subject, "origin": origin, "r": r, "ops": list(ops)}
    rec.case(True, ops=len(ops) + 2)
    rec.traces += 1
    rec.transitions += len(ops)
    trunc = subject == "TruncatedPrimaryHeader"
    m = dict(r)
    step = ["start"]

    def bad(kind, observed, expected):
        rec.violation(f"C17.history/{subject}/{kind}/{origin}", case, {"at": step[0], "observed": observed}, expected,
                      repro=f"checks/c17_hist.py run_header_history(rec, {subject!r}, {origin!r}, {r!r}, {list(ops)!r})")
        raise _Stop

    def observe(name):
        if name == "len()":
            try:
                got = hd.len()
            except Exception as e:
                bad("len/exception/" + type(e).__name__, repr(e), h_len(m, subject))
            if got != h_len(m, subject):
                bad("len", got, h_len(m, subject))
            return
        if not h_valid(m):
            try:
                got = bytes(hd.pack())
            except ValueError:
                rec.outcome("history:refused-after-assignment")
                return
            except Exception as e:
                bad("refuse/wrong-exception/" + type(e).__name__, repr(e), "ValueError")
            bad("refuse/accepted", got, "ValueError")
        try:
            got = bytes(hd.pack())
        except Exception as e:
            bad("pack/exception/" + type(e).__name__, repr(e), h_ref(m, subject))
        if got != h_ref(m, subject):
            bad("pack/octets", got, h_ref(m, subject))

    try:
        try:
            if origin == "constructed":
                hd = UU.build_truncated_header(m) if trunc else UU.build_primary_header(m)
            else:
                hd = (h.TruncatedPrimaryHeader if trunc else h.PrimaryHeader).unpack(h_ref(m, subject) + SUFFIX)
        except Exception as e:
            bad("start/exception/" + type(e).__name__, repr(e), "a header")
        for i, op in enumerate(ops):
            step[0] = f"step {i + 1}: {op}"
            if op in ("pack()", "len()"):
                observe(op)
                continue
            try:
                if op.endswith("=out-of-range"):
                    fld = op.split("=")[0]
                    m[fld] = MASK[fld] + 1
                    setattr(hd, fld, m[fld])
                elif op == "vcf_count(_len)=":
                    m["vcf_len"], m["vcf_count"] = _cyc(VCFS, (m["vcf_len"], m["vcf_count"]))
                    hd.vcf_count_len, hd.vcf_count = m["vcf_len"], m["vcf_count"]
                elif op == "vcf_count=":
                    if m["vcf_len"]:
                        m["vcf_count"] ^= (1 << (8 * m["vcf_len"])) - 1
                        hd.vcf_count = m["vcf_count"]
                else:
                    fld = op[:-1]
                    m[fld] = IN_RANGE[fld] if (fld in IN_RANGE and not 0 <= m[fld] <= MASK[fld]) else m[fld] ^ MASK[fld]
                    setattr(hd, ATTR[fld], m[fld])
            except Exception as e:
                bad("assignment/exception/" + type(e).__name__, repr(e), "no exception")
            if states is not None:
                states.add(tuple(sorted(m.items())))
        step[0] = "final observation after " + (ops[-1] if ops else "start")
        observe("len()")
        observe("pack()")
    except _Stop:
        return False
    return True


# ============================================================================ shards
def words(alphabet, depth, first=None):
    """all words of length 0..depth, shortest first (first: restrict to words starting with that letter)"""
    for d in range(0, depth + 1):
        if first is None:
            yield from itertools.product(alphabet, repeat=d)
        elif d >= 1:
            for rest in itertools.product(alphabet, repeat=d - 1):
                yield (first,) + rest


def shards(tier):
    depth = 3 if tier == "quick" else 4
    items = []
    for fk in ("fixed", "var", "trunc"):
        for origin in ("constructed", "decoded"):
            for si in range(len(frame_starts(fk))):
                if tier == "quick":
                    items.append({"kind": "hist", "subject": "frame", "fk": fk, "origin": origin, "start": si, "depth": depth, "first": None})
                else:  # one shard per first letter (the empty word rides with the first one)
                    for a in frame_alphabet(fk):
                        items.append({"kind": "hist", "subject": "frame", "fk": fk, "origin": origin, "start": si, "depth": depth, "first": a})
    for subject in ("PrimaryHeader", "TruncatedPrimaryHeader"):
        for origin in ("constructed", "decoded"):
            items.append({"kind": "hist", "subject": subject, "origin": origin, "depth": depth, "first": None})
    return items


def run_hist_shard(rec: Rec, item):
    states = set()
    n = 0
    if item["subject"] == "frame":
        fk, origin = item["fk"], item["origin"]
        r = frame_starts(fk)[item["start"]]
        alpha = frame_alphabet(fk)
        if item["first"] is not None and item["first"] == alpha[0]:
            run_frame_history(rec, fk, origin, r, (), states)
            n += 1
        for w in words(alpha, item["depth"], item["first"]):
            run_frame_history(rec, fk, origin, r, w, states)
            n += 1
        rec.count(f"frame_histories_{fk}_{origin}", n)
        if item["start"] == 0 and item["first"] in (None, alpha[0]) and fk == "fixed" and origin == "decoded":
            rec.sample({"history": {"start": "TransferFrame.unpack(reference octets)", "frame": r,
                                    "ops": ["len()", "tfdf.tfdz=longer", "set_frame_len_in_header()", "pack(frame_type)"]},
                        "alphabet": alpha}, limit=1)
    else:
        subject, origin = item["subject"], item["origin"]
        alpha = header_alphabet(subject)
        for r in header_starts(subject):
            for w in words(alpha, item["depth"]):
                run_header_history(rec, subject, origin, r, w, states)
                n += 1
        rec.count(f"header_histories_{subject}_{origin}", n)
    rec.states += len(states) + 1
    rec.count("history_model_states", len(states) + 1)


def replay_hist(rec: Rec, case):
    from mc.rec import unhex  # noqa: F401  (recipes keep their "hex:" strings; units.uslp decodes them)

    if case["subject"] == "frame":
        run_frame_history(rec, case["fk"], case["origin"], case["r"], tuple(case["ops"]))
    else:
        run_header_history(rec, case["subject"], case["origin"], case["r"], tuple(case["ops"]))
