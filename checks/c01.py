"""C01 - space packet primary header (engines V + H).  DESIGN.md section 4, C01.

Three sub-spaces, each enumerated completely:
  sweep/edge  every header value of the stated alphabets through a fixed script (construct, pack, unpack from
              three input forms, re-pack, compare, words, helpers), with the independence oracle (mc.alias.Keeper)
              holding every object and every pack() output the library handed out and re-observing it after the
              next case; the edge product additionally runs the sibling-mutation script (same-valued objects made
              before / after one of them is mutated must not influence each other);
  range       every out-of-range value of each validated field through every constructor taking the field, crossed
              with the other arguments of that constructor (packet type x flag, all four sequence flags, low/high
              backgrounds);
  hist        engine H, stateless: every sequence up to depth D over {every assignable attribute of
              SpacePacketHeader (through the header and through its packet_id / packet_seq_control words) x value
              alphabet, every read / pack-like observer}, from every start kind (constructed, unpacked from bytes,
              unpacked from a bytearray that is overwritten afterwards, from_composite_fields) x base header;
              compared with the reference encoding of a plain tuple of last-set values.
"""

from __future__ import annotations

import itertools

from mc import domains as D
from mc.alias import Keeper
from mc.rec import Rec
from ref import ccsds as R

PROPERTY = "C01"
LEVEL = "model_checking"  # bounded-exhaustive enumeration of executions against a reference model (DESIGN.md 1, 2.1, 2.3)
EXHAUSTIVE = True
RULE = (
    "header = three 16-bit words; each word swept over all 65536 values in K^2 backgrounds of the other two "
    "(K=4 quick, 8 thorough), plus the full product of the edge alphabets of the seven fields, plus every "
    "out-of-range APID / sequence count / data length in [-N,-1] U [max+1,max+N] and +-2^k through every "
    "constructor taking the field in every context of its other arguments (type x flag, four sequence flags, "
    "low/high background), plus every event history of length <= D over the menu {assignment of each settable "
    "header attribute (directly and through packet_id / packet_seq_control) x value alphabet, observers pack / "
    "packet_len / == / raw words / SpacePacket.pack / repr} from each (start kind, base header), checked against "
    "the reference encoding of the last-set values at every observer event and at the end of the history. "
    "Every object and pack() output handed out by the library is held and re-observed after the next case "
    "(independence). A case is counted as distinct non-trivial when no earlier sweep of the enumeration "
    "produced the same (w0,w1,w2) / (constructor,context,value) / (start,base,event sequence)."
)
BOUNDS = {
    "quick": "K=4, N=4096, histories D=3 over a menu of 38 events, 4 start kinds x 3 base headers",
    "thorough": "K=8, N=65536, histories D=4 over a menu of 43 events, 4 start kinds x 3 base headers",
}
ASSUMPTIONS = [
    "reference encoder ref/ccsds.py transcribes CCSDS 133.0-B-2 4.1.3 (checked against the repository's expected vectors in selftest)",
    "two arbitrary non-background values in two different words at once are only covered by the edge product",
    "setters are exercised with in-range values only (the property demands refusal from the constructors, the tree's setters do not validate)",
    "a result is re-observed after the next one or two cases of the fixed enumeration order, not after every later case",
    "a mutation through header.packet_id / header.packet_seq_control is expected to show in pack() only as far as the header's own getter reports it",
    "'decode(encode(h)) = h' is read with '=' being the classes' own ==, which therefore has to tell apart headers / words that differ in any one field (checked for adjacent cases and for one-bit neighbours in the edge product)",
    "from_composite_fields takes the values of the two words (as on this tree): assigning to the resulting header must not change the words passed in",
    "SpacePacket.pack() inside a history is compared with the encoding of what the packet's own sp_header reports",
]


def _k(tier):
    return 4 if tier == "quick" else 8


def _n(tier):
    return 4096 if tier == "quick" else 65536


def _sp():
    import spacepackets.ccsds.spacepacket as sp

    return sp


# ------------------------------------------------------------------------------- observation functions (copying)
def hdr_obs(h):
    return (h.ccsds_version, int(h.packet_type), int(h.sec_header_flag), h.apid, int(h.seq_flags), h.seq_count,
            h.data_len, h.packet_len, bytes(h.pack()))


def pid_obs(p):
    return (int(p.ptype), int(p.sec_header_flag), p.apid, p.raw())


def psc_obs(q):
    return (int(q.seq_flags), q.seq_count, q.raw())


def buf_obs(b):
    return bytes(b)


def hdr_exp(f):
    ver, typ, shf, apid, fl, cnt, dl = f
    return (ver, typ, shf, apid, fl, cnt, dl, dl + 7, R.sp_header(*f))


def _mk_header(sp, f):
    ver, typ, shf, apid, fl, cnt, dl = f
    return sp.SpacePacketHeader(sp.PacketType(typ), apid, cnt, dl, bool(shf), sp.SequenceFlags(fl), ver)


def _mutate_header(sp, h, f):
    """every assignable attribute gets the complement of its value"""
    ver, typ, shf, apid, fl, cnt, dl = f
    h.packet_type = sp.PacketType(1 - typ)
    h.sec_header_flag = not shf
    h.apid = apid ^ 0x7FF
    h.seq_flags = sp.SequenceFlags(fl ^ 3)
    h.seq_count = cnt ^ 0x3FFF
    h.data_len = dl ^ 0xFFFF


def _mutate_pid(sp, p, f):
    p.ptype = sp.PacketType(1 - f[1])
    p.sec_header_flag = not f[2]
    p.apid = f[3] ^ 0x7FF


def _mutate_psc(sp, q, f):
    q.seq_flags = sp.SequenceFlags(f[4] ^ 3)
    q.seq_count = f[5] ^ 0x3FFF


# --------------------------------------------------------------------------------------------- sweep / edge script
class Ctx:
    """per-shard context of the header script: the Keeper and the previous case's objects (inequality oracle)"""

    def __init__(self, rec, depth=10):
        self.keeper = Keepers(rec, depth)
        self.prev = None
        self.pending = []

    def hold(self, subject, obj, observe, case):
        self.pending.append((subject, obj, observe, case))

    def end_of_case(self, case):
        """re-observe what the PREVIOUS case was handed (after all library calls of this one), then take over
        this case's results; the rings hold exactly one case's worth"""
        self.keeper.recheck(case)
        for ent in self.pending:
            self.keeper.hold(*ent)
        self.pending = []


class Keepers:
    """two rings: returned buffers are re-observed BEFORE the held objects, because observing an object calls its
    pack() again - which would refill a buffer shared between calls with the old content and hide the leak"""

    def __init__(self, rec, depth, buf_depth=None):
        self.buffers = Keeper(rec, PROPERTY, depth=buf_depth or depth)
        self.objects = Keeper(rec, PROPERTY, depth=depth)

    def hold(self, subject, obj, observe, case):
        (self.buffers if observe is buf_obs else self.objects).hold(subject, obj, observe, case)

    def recheck(self, case):
        self.buffers.recheck(case)
        self.objects.recheck(case)

    def flush(self):
        self.buffers.flush()
        self.objects.flush()


def check_header(rec: Rec, w0, w1, w2, nontrivial=True, ctx=None, deep=False):
    ctx = ctx or Ctx(rec)
    case = {"kind": "hdr", "w": [w0, w1, w2], "deep": bool(deep)}
    rec.case(nontrivial, ops=22 + (60 if deep else 0))
    _header_script(rec, case, w0, w1, w2, ctx, deep)
    ctx.end_of_case(case)


def _header_script(rec, case, w0, w1, w2, ctx, deep):
    sp = _sp()
    keep = ctx
    f = R.words_to_fields(w0, w1, w2)
    ver, typ, shf, apid, fl, cnt, dl = f
    ref = R.sp_header(*f)

    def bad(kind, observed, expected):
        # value-dependent clauses carry the coarse value features; independence / equality clauses do not depend on the value
        feats = "" if kind.startswith(("independence/", "inverse/equality")) else "/".join(
            x for x, on in (("ver!=0", ver != 0), ("apid>=0x400", apid >= 0x400), ("cnt>=0x2000", cnt >= 0x2000)) if on)
        rec.violation(f"C01.{kind}" + ("/" + feats if feats else ""), case, observed, expected,
                      repro=f"w0,w1,w2={w0:#x},{w1:#x},{w2:#x}  # see checks/c01.py _header_script")

    try:
        h = _mk_header(sp, f)
        out = h.pack()
        got = bytes(out)
    except Exception as e:
        return bad("encode/SpacePacketHeader.pack/exception", repr(e), ref)
    if got != ref:
        return bad("encode/SpacePacketHeader.pack/octets", got, ref)
    keep.hold("SpacePacketHeader()", h, hdr_obs, case)
    keep.hold("SpacePacketHeader.pack", out, buf_obs, case)
    try:
        u = sp.SpacePacketHeader.unpack(ref + b"\xab")
    except Exception as e:
        return bad("decode/SpacePacketHeader.unpack/exception", repr(e), None)
    obs = (u.ccsds_version, int(u.packet_type), int(u.sec_header_flag), u.apid, int(u.seq_flags), u.seq_count, u.data_len, u.packet_len, u.header_len)
    exp = (ver, typ, shf, apid, fl, cnt, dl, dl + 7, 6)
    if obs != exp:
        return bad("decode/SpacePacketHeader.unpack/fields", obs, exp)
    keep.hold("SpacePacketHeader.unpack", u, hdr_obs, case)
    # "any octet string of length >= 6": exactly six octets, and a mutable buffer with a longer tail that the
    # caller reuses afterwards (the decoded header is a value, not a view of the caller's buffer)
    try:
        u6 = sp.SpacePacketHeader.unpack(ref)
        buf = bytearray(ref) + bytes([w1 & 0xFF, w0 & 0xFF]) * 5
        ub = sp.SpacePacketHeader.unpack(buf)
        for i in range(len(buf)):
            buf[i] ^= 0xFF
    except Exception as e:
        return bad("decode/SpacePacketHeader.unpack/exception-on-other-input-form", repr(e), None)
    if hdr_obs(u6) != hdr_exp(f):
        bad("decode/SpacePacketHeader.unpack/fields-from-exactly-6-octets", hdr_obs(u6), hdr_exp(f))
    if hdr_obs(ub) != hdr_exp(f):
        bad("decode/SpacePacketHeader.unpack/fields-from-bytearray-reused-by-caller", hdr_obs(ub), hdr_exp(f))
    if (h.packet_len, h.header_len) != (dl + 7, 6):
        bad("length/SpacePacketHeader.packet_len", (h.packet_len, h.header_len), (dl + 7, 6))
    uout = u.pack()
    if bytes(uout) != ref:
        bad("inverse/unpack-then-pack", bytes(uout), ref)
    keep.hold("SpacePacketHeader.unpack.pack", uout, buf_obs, case)
    if not (u == h and h == u):
        bad("inverse/pack-then-unpack-not-equal", None, None)
    # "=" must discriminate: the previous case of the enumeration has other words
    if ctx.prev is not None:
        ph, pw = ctx.prev
        try:
            same = bool(h == ph) or bool(ph == h)
        except Exception as e:  # noqa: BLE001
            same = repr(e)
        if same is not (pw == (w0, w1, w2)):
            bad("inverse/equality-does-not-discriminate", same, pw == (w0, w1, w2))
    ctx.prev = (h, (w0, w1, w2))
    pid, psc = w0 & 0x1FFF, w1
    if h.packet_id.raw() != pid or u.packet_id.raw() != pid:
        bad("words/PacketId.raw", h.packet_id.raw(), pid)
    if h.packet_seq_control.raw() != psc or u.packet_seq_control.raw() != psc:
        bad("words/PacketSeqCtrl.raw", h.packet_seq_control.raw(), psc)
    p = sp.PacketId.from_raw(pid)
    if (int(p.ptype), int(p.sec_header_flag), p.apid) != (typ, shf, apid) or p.raw() != pid or p != h.packet_id:
        bad("words/PacketId.from_raw", (int(p.ptype), int(p.sec_header_flag), p.apid), (typ, shf, apid))
    q = sp.PacketSeqCtrl.from_raw(psc)
    if (int(q.seq_flags), q.seq_count) != (fl, cnt) or q.raw() != psc or q != h.packet_seq_control:
        bad("words/PacketSeqCtrl.from_raw", (int(q.seq_flags), q.seq_count), (fl, cnt))
    keep.hold("PacketId.from_raw", p, pid_obs, case)
    keep.hold("PacketSeqCtrl.from_raw", q, psc_obs, case)
    # 16-bit inputs with junk above the word must not disturb from_raw (13-bit word inside a 16-bit one)
    p2 = sp.PacketId.from_raw(w0)
    if p2.raw() != pid:
        bad("words/PacketId.from_raw-with-version-bits", p2.raw(), pid)
    c = sp.SpacePacketHeader.from_composite_fields(p, q, dl, ver)
    if bytes(c.pack()) != ref:
        bad("encode/from_composite_fields", bytes(c.pack()), ref)
    keep.hold("SpacePacketHeader.from_composite_fields", c, hdr_obs, case)
    if tuple(sp.get_space_packet_id_bytes(sp.PacketType(typ), bool(shf), apid, ver)) != (ref[0], ref[1]):
        bad("helpers/get_space_packet_id_bytes", tuple(sp.get_space_packet_id_bytes(sp.PacketType(typ), bool(shf), apid, ver)), (ref[0], ref[1]))
    if sp.get_apid_from_raw_space_packet(ref) != apid:
        bad("helpers/get_apid_from_raw_space_packet", sp.get_apid_from_raw_space_packet(ref), apid)
    if sp.get_sp_packet_id_raw(sp.PacketType(typ), bool(shf), apid) != pid or sp.get_sp_psc_raw(sp.SequenceFlags(fl), cnt) != psc:
        bad("helpers/get_sp_*_raw", None, None)
    if sp.get_total_space_packet_len_from_len_field(dl) != dl + 7:
        bad("helpers/get_total_space_packet_len_from_len_field", sp.get_total_space_packet_len_from_len_field(dl), dl + 7)
    # SpacePacket.pack(): header || secondary header || user data, nothing else
    if (w2 & 0xFF) < 4 or deep:  # a few payload shapes per header, keyed on the low length bits so that every word value meets each
        sec = bytes([w0 & 0xFF]) * ((w2 & 3)) if shf else None
        usr = bytes([w1 & 0xFF, w1 >> 8]) if (not shf or (w2 & 1)) else None
        pkt = sp.SpacePacket(h, sec, usr)
        try:
            praw = pkt.pack()
            exp_raw = ref + (sec or b"") + (usr or b"")
            if bytes(praw) != exp_raw:
                bad("encode/SpacePacket.pack", bytes(praw), exp_raw)
            keep.hold("SpacePacket.pack", praw, buf_obs, case)
            # the packet's pack() appended to what the header's pack() returned: the header still encodes as before
            if bytes(h.pack()) != ref:
                bad("encode/SpacePacketHeader.pack/octets-after-SpacePacket.pack", bytes(h.pack()), ref)
        except Exception as e:
            bad("encode/SpacePacket.pack/exception", repr(e), None)
    if deep:
        _siblings(sp, bad, f)


def _siblings(sp, bad, f):
    """Same-valued results must be independent objects as far as their values go: make a, make b, assign every
    attribute of b, make c - a and c still carry the reference values (flyweight / memoised constructors and
    decoders, shared templates)."""
    ver, typ, shf, apid, fl, cnt, dl = f
    ref = R.sp_header(*f)
    pid, psc = (typ << 12 | shf << 11 | apid), (fl << 14 | cnt)
    hexp, pexp, qexp = hdr_exp(f), (typ, shf, apid, pid), (fl, cnt, psc)
    makers = [
        ("SpacePacketHeader()", lambda: _mk_header(sp, f), hdr_obs, hexp, _mutate_header),
        ("SpacePacketHeader.unpack", lambda: sp.SpacePacketHeader.unpack(ref), hdr_obs, hexp, _mutate_header),
        ("SpacePacketHeader.from_composite_fields",
         lambda: sp.SpacePacketHeader.from_composite_fields(sp.PacketId.from_raw(pid), sp.PacketSeqCtrl.from_raw(psc), dl, ver), hdr_obs, hexp, _mutate_header),
        ("PacketId()", lambda: sp.PacketId(sp.PacketType(typ), bool(shf), apid), pid_obs, pexp, _mutate_pid),
        ("PacketId.from_raw", lambda: sp.PacketId.from_raw(pid), pid_obs, pexp, _mutate_pid),
        ("PacketSeqCtrl()", lambda: sp.PacketSeqCtrl(sp.SequenceFlags(fl), cnt), psc_obs, qexp, _mutate_psc),
        ("PacketSeqCtrl.from_raw", lambda: sp.PacketSeqCtrl.from_raw(psc), psc_obs, qexp, _mutate_psc),
        ("PacketId.empty", sp.PacketId.empty, pid_obs, (0, 0, 0, 0), lambda s, o, _f: _mutate_pid(s, o, (0,) * 7)),
        ("PacketSeqCtrl.empty", sp.PacketSeqCtrl.empty, psc_obs, (0, 0, 0), lambda s, o, _f: _mutate_psc(s, o, (0,) * 7)),
    ]
    # all the a's first, then all the mutated b's, then the verdicts: sharing between results of DIFFERENT entry
    # points (a constructed and a decoded header of the same value) shows as well
    try:
        first = [make() for _n, make, _o, _e, _m in makers]
        for _n, make, _o, _e, mutate in makers:
            mutate(sp, make(), f)
    except Exception as e:  # noqa: BLE001
        return bad("independence/siblings/exception-in-make-mutate", repr(e), None)
    for (name, make, obs, exp, _m), a in zip(makers, first):
        try:
            oa, oc = obs(a), obs(make())
        except Exception as e:  # noqa: BLE001
            bad(f"independence/{name}/exception-observing-after-sibling-mutation", repr(e), None)
            continue
        if oa != exp:
            bad(f"independence/{name}/earlier-result-changed-by-assigning-to-a-same-valued-one", oa, exp)
        if oc != exp:
            bad(f"independence/{name}/later-result-wrong-after-assigning-to-a-same-valued-one", oc, exp)
    # from_composite_fields takes the VALUES of the two words: the header and the words stay independent
    p, q = sp.PacketId.from_raw(pid), sp.PacketSeqCtrl.from_raw(psc)
    c = sp.SpacePacketHeader.from_composite_fields(p, q, dl, ver)
    _mutate_header(sp, c, f)
    if pid_obs(p) != pexp or psc_obs(q) != qexp:
        bad("independence/from_composite_fields/argument-words-changed-by-assigning-to-the-header", (pid_obs(p), psc_obs(q)), (pexp, qexp))
    # "=" discriminates every field: flipping the lowest / highest bit of one field gives an unequal header / word
    h = _mk_header(sp, f)
    for i, width in enumerate((3, 1, 1, 11, 2, 14, 16)):
        for bit in {0, width - 1}:
            g = list(f)
            g[i] ^= 1 << bit
            n = _mk_header(sp, g)
            if (h == n) or (n == h) or not (n == _mk_header(sp, g)):
                bad("inverse/equality-does-not-discriminate", ("equal although field differs", i, bit), False)
    p = sp.PacketId.from_raw(pid)
    for bit in (0, 10, 11, 12):
        n = sp.PacketId.from_raw(pid ^ (1 << bit))
        if p == n or n == p or n.raw() != pid ^ (1 << bit):
            bad("inverse/equality-does-not-discriminate/PacketId", ("equal although bit differs", bit), False)
    q = sp.PacketSeqCtrl.from_raw(psc)
    for bit in (0, 13, 14, 15):
        n = sp.PacketSeqCtrl.from_raw(psc ^ (1 << bit))
        if q == n or n == q or n.raw() != psc ^ (1 << bit):
            bad("inverse/equality-does-not-discriminate/PacketSeqCtrl", ("equal although bit differs", bit), False)


# -------------------------------------------------------------------------------------------------- refusal clause
MAXV = {"apid": 2047, "seq_count": 16383, "data_len": 65535}
LO = {"typ": 0, "shf": 0, "apid": 0, "fl": 3, "cnt": 0, "dl": 0, "ver": 0}
HI = {"typ": 1, "shf": 1, "apid": 0x7FF, "fl": 0, "cnt": 0x3FFF, "dl": 0xFFFF, "ver": 7}


def _ctx(bg, **kw):
    d = dict(LO if bg == "lo" else HI)
    d.update(kw)
    return d


def range_ctors(field):
    """[(constructor name, context dict)] - every constructor taking the field x every context of its other arguments"""
    out = []
    ts = [(t, s) for t in (0, 1) for s in (0, 1)]
    if field == "apid":
        out += [("SpacePacketHeader", _ctx(bg, typ=t, shf=s)) for bg in ("lo", "hi") for t, s in ts]
        out += [("PacketId", {"typ": t, "shf": s}) for t, s in ts]
        out += [("get_sp_packet_id_raw", {"typ": t, "shf": s}) for t, s in ts]
    elif field == "seq_count":
        out += [("SpacePacketHeader", _ctx(bg, fl=x)) for bg in ("lo", "hi") for x in range(4)]
        out += [("PacketSeqCtrl", {"fl": x}) for x in range(4)]
        out += [("get_sp_psc_raw", {"fl": x}) for x in range(4)]
    elif field == "data_len":
        out += [("SpacePacketHeader", _ctx(bg, typ=t, shf=s)) for bg in ("lo", "hi") for t, s in ts]
        out += [("from_composite_fields", _ctx(bg, typ=t, shf=s)) for bg in ("lo", "hi") for t, s in ts]
    return out


def _range_call(sp, field, ctor, c, v):
    key = {"apid": "apid", "seq_count": "cnt", "data_len": "dl"}[field]
    c = dict(c)
    c[key] = v
    if ctor == "SpacePacketHeader":
        return sp.SpacePacketHeader(sp.PacketType(c["typ"]), c["apid"], c["cnt"], c["dl"], bool(c["shf"]), sp.SequenceFlags(c["fl"]), c["ver"]).pack()
    if ctor == "from_composite_fields":
        return sp.SpacePacketHeader.from_composite_fields(
            sp.PacketId(sp.PacketType(c["typ"]), bool(c["shf"]), c["apid"]), sp.PacketSeqCtrl(sp.SequenceFlags(c["fl"]), c["cnt"]), c["dl"], c["ver"]).pack()
    if ctor == "PacketId":
        return sp.PacketId(sp.PacketType(c["typ"]), bool(c["shf"]), c["apid"]).raw()
    if ctor == "get_sp_packet_id_raw":
        return sp.get_sp_packet_id_raw(sp.PacketType(c["typ"]), bool(c["shf"]), c["apid"])
    if ctor == "PacketSeqCtrl":
        return sp.PacketSeqCtrl(sp.SequenceFlags(c["fl"]), c["cnt"]).raw()
    if ctor == "get_sp_psc_raw":
        return sp.get_sp_psc_raw(sp.SequenceFlags(c["fl"]), c["cnt"])
    raise KeyError(ctor)


def check_range(rec: Rec, field, ctor_name, c, v):
    sp = _sp()
    case = {"kind": "range", "field": field, "ctor": ctor_name, "ctx": c, "v": str(v)}
    rec.case(True, ops=1)
    try:
        r = _range_call(sp, field, ctor_name, c, v)
    except ValueError:
        return
    except Exception as e:
        rec.violation(f"C01.refuse/{field}/{ctor_name}/wrong-exception/{type(e).__name__}", case, repr(e), "ValueError")
        return
    rec.violation(f"C01.refuse/{field}/{ctor_name}/accepted", case, r, "ValueError")


# ------------------------------------------------------------------------------------------------------ histories
BASES = [  # (ver, typ, shf, apid, fl, cnt, dl): no value below is a menu value, so every assignment changes the header
    (0, 0, 0, 0x001, 3, 0x0001, 0x0001),
    (7, 1, 1, 0x7FE, 0, 0x3FFE, 0xFFFE),
    (5, 1, 0, 0x555, 2, 0x2AAA, 0xAAAA),
]
STARTS = ["constructed", "unpacked", "unpacked-from-reused-bytearray", "from_composite_fields"]
VALS = {
    "quick": {"apid": [0, 0x7FF, 0x2AA], "cnt": [0, 0x3FFF, 0x1555], "dl": [0, 0xFFFF, 0x5555]},
    "thorough": {"apid": [0, 0x7FF, 0x2AA, 0x400], "cnt": [0, 0x3FFF, 0x1555, 0x2000], "dl": [0, 0xFFFF, 0x5555, 0x8000]},
}
OBSERVERS = ["pack", "packet_len", "eq", "packet_id.raw", "packet_seq_control.raw", "SpacePacket.pack", "repr"]
IDX = {"typ": 1, "shf": 2, "apid": 3, "fl": 4, "cnt": 5, "dl": 6}
SETTERS = {"packet_type": "typ", "sec_header_flag": "shf", "apid": "apid", "seq_flags": "fl", "seq_count": "cnt", "data_len": "dl"}
SUBSETTERS = {
    "packet_id.ptype": "typ", "packet_id.sec_header_flag": "shf", "packet_id.apid": "apid",
    "packet_seq_control.seq_flags": "fl", "packet_seq_control.seq_count": "cnt",
}


def menu(tier):
    v = dict(VALS[tier], typ=[0, 1], shf=[0, 1], fl=[0, 1, 2, 3])
    m = [["obs", o] for o in OBSERVERS]
    for attr, key in SETTERS.items():
        m += [["set", attr, x] for x in v[key]]
    for attr, key in SUBSETTERS.items():
        m += [["sub", attr, x] for x in v[key]]
    return m


def _conv(sp, key, x):
    if key == "typ":
        return sp.PacketType(x)
    if key == "shf":
        return bool(x)
    if key == "fl":
        return sp.SequenceFlags(x)
    return x


def _getter(h, key):
    return {"typ": lambda: int(h.packet_type), "shf": lambda: int(h.sec_header_flag), "apid": lambda: h.apid,
            "fl": lambda: int(h.seq_flags), "cnt": lambda: h.seq_count, "dl": lambda: h.data_len}[key]()


def _start(sp, start, f):
    """-> (subject, extra results to hold [(subject name, obj, observe)])"""
    ver, typ, shf, apid, fl, cnt, dl = f
    ref = R.sp_header(*f)
    if start == "constructed":
        return _mk_header(sp, f), []
    if start == "unpacked":
        return sp.SpacePacketHeader.unpack(ref + b"\xab\xcd"), []
    if start == "unpacked-from-reused-bytearray":
        buf = bytearray(ref + b"\xab\xcd")
        h = sp.SpacePacketHeader.unpack(buf)
        for i in range(len(buf)):
            buf[i] ^= 0xFF
        return h, []
    if start == "from_composite_fields":
        p = sp.PacketId.from_raw(typ << 12 | shf << 11 | apid)
        q = sp.PacketSeqCtrl.from_raw(fl << 14 | cnt)
        return sp.SpacePacketHeader.from_composite_fields(p, q, dl, ver), [("PacketId.from_raw", p, pid_obs), ("PacketSeqCtrl.from_raw", q, psc_obs)]
    raise KeyError(start)


def run_history(rec: Rec, keeper, start, base, events):
    sp = _sp()
    f0 = tuple(BASES[base])
    case = {"kind": "hist", "start": start, "base": base, "events": events}
    rec.case(True, ops=len(events) + 6)

    def bad(what, kind, observed, expected):
        rec.violation(f"C01.history/{what}/{kind}/start={start.split('-')[0]}", case, observed, expected,
                      note="model (ver,typ,shf,apid,flags,count,len) at the failing observation: %r" % (tuple(m),))

    # bystander made the same way from the same values before the subject is touched
    twin, _ = _start(sp, start, f0)
    keeper.hold(f"history-bystander/{start.split('-')[0]}", twin, hdr_obs, case)
    h, extra = _start(sp, start, f0)
    for name, obj, obs in extra:
        keeper.hold(f"history-argument/{name}", obj, obs, case)
    # one packet around the subject for the whole history (its pack() is an observer event)
    pkt = sp.SpacePacket(h, b"\x01\x02", b"\x03")
    m = list(f0)
    for ev in events:
        if ev[0] == "set":
            key = SETTERS[ev[1]]
            setattr(h, ev[1], _conv(sp, key, ev[2]))
            m[IDX[key]] = ev[2]
        elif ev[0] == "sub":
            key = SUBSETTERS[ev[1]]
            word, attr = ev[1].split(".")
            setattr(getattr(h, word), attr, _conv(sp, key, ev[2]))
            # the header's own getter says whether the word handed out is the live one (it is on this tree)
            g = _getter(h, key)
            if g not in (m[IDX[key]], ev[2]):  # neither the old nor the new value
                bad("SpacePacketHeader.fields", "values", g, ev[2])
            else:
                m[IDX[key]] = g
        else:
            ver, typ, shf, apid, fl, cnt, dl = m
            ref = R.sp_header(*m)
            o = ev[1]
            if o == "pack":
                r = h.pack()
                if bytes(r) != ref:
                    bad("SpacePacketHeader.pack", "octets", bytes(r), ref)
                keeper.hold("history/SpacePacketHeader.pack", r, buf_obs, case)
            elif o == "packet_len":
                if h.packet_len != dl + 7:
                    bad("SpacePacketHeader.packet_len", "value", h.packet_len, dl + 7)
            elif o == "eq":
                if not (h == _mk_header(sp, m)):
                    bad("SpacePacketHeader.__eq__", "not-equal-to-fresh-header-of-same-values", False, True)
            elif o == "packet_id.raw":
                if h.packet_id.raw() != (typ << 12 | shf << 11 | apid):
                    bad("PacketId.raw+PacketSeqCtrl.raw", "values", h.packet_id.raw(), typ << 12 | shf << 11 | apid)
            elif o == "packet_seq_control.raw":
                if h.packet_seq_control.raw() != (fl << 14 | cnt):
                    bad("PacketId.raw+PacketSeqCtrl.raw", "values", h.packet_seq_control.raw(), fl << 14 | cnt)
            elif o == "SpacePacket.pack":
                # expected from what the packet's own header reports (on this tree pkt.sp_header is the subject)
                ph = pkt.sp_header
                pf = (ph.ccsds_version, int(ph.packet_type), int(ph.sec_header_flag), ph.apid, int(ph.seq_flags), ph.seq_count, ph.data_len)
                if not all(0 <= v < (1 << n) for v, n in zip(pf, (3, 1, 1, 11, 2, 14, 16))):
                    # the header reports a value its field cannot hold (nothing in the history put it there)
                    bad("SpacePacketHeader.fields", "values", pf, tuple(m))
                else:
                    exp_raw = R.sp_header(*pf) + (b"\x01\x02" if pf[2] else b"") + b"\x03"
                    r = pkt.pack()
                    if bytes(r) != exp_raw:
                        bad("SpacePacket.pack", "octets", bytes(r), exp_raw)
                    keeper.hold("history/SpacePacket.pack", r, buf_obs, case)
            elif o == "repr":
                repr(h)
    # final observation: getters first, then the encoders (a history ending in an observer event has them the other way round)
    ver, typ, shf, apid, fl, cnt, dl = m
    ref = R.sp_header(*m)
    got = (h.ccsds_version, int(h.packet_type), int(h.sec_header_flag), h.apid, int(h.seq_flags), h.seq_count, h.data_len)
    if got != tuple(m):
        bad("SpacePacketHeader.fields", "values", got, tuple(m))
    if (h.packet_len, h.header_len) != (dl + 7, 6):
        bad("SpacePacketHeader.packet_len", "value", (h.packet_len, h.header_len), (dl + 7, 6))
    words = (h.packet_id.raw(), h.packet_seq_control.raw())
    if words != (typ << 12 | shf << 11 | apid, fl << 14 | cnt):
        bad("PacketId.raw+PacketSeqCtrl.raw", "values", words, (typ << 12 | shf << 11 | apid, fl << 14 | cnt))
    out = h.pack()
    if bytes(out) != ref:
        bad("SpacePacketHeader.pack", "octets", bytes(out), ref)
    else:
        back = sp.SpacePacketHeader.unpack(bytes(out))
        if not (back == h and h == back):
            bad("SpacePacketHeader.__eq__", "decode-of-encode-not-equal", False, True)
    fresh = _mk_header(sp, m)
    if not (h == fresh and fresh == h):
        bad("SpacePacketHeader.__eq__", "not-equal-to-fresh-header-of-same-values", False, True)
    same = bool(h == twin) or bool(twin == h)
    if same is not (tuple(m) == f0):
        bad("SpacePacketHeader.__eq__", "does-not-discriminate", same, tuple(m) == f0)
    keeper.hold("history/SpacePacketHeader.pack", out, buf_obs, case)
    keeper.hold(f"history-subject-at-rest/{start.split('-')[0]}", h, hdr_obs, case)
    keeper.recheck(case)
    rec.outcome(ref.hex())


def hist_sequences(m, depth, lo, hi):
    """every event sequence of length 1..depth whose first event has index in [lo,hi), shortest first
    (the empty history belongs to the part that starts at 0)"""
    if lo == 0:
        yield []
    for length in range(1, depth + 1):
        for first in range(lo, hi):
            for rest in itertools.product(m, repeat=length - 1):
                yield [m[first], *rest]


# --------------------------------------------------------------------------------------------------------- shards
def shards(tier):
    items = []
    parts = 8 if tier == "quick" else 16
    for word in range(3):
        for part in range(parts):
            items.append({"kind": "sweep", "word": word, "part": part, "parts": parts, "k": _k(tier)})
    for ver in range(8):
        items.append({"kind": "edge", "k": _k(tier), "ver": ver})
    for field in ("apid", "seq_count", "data_len"):
        items.append({"kind": "range", "field": field, "n": _n(tier)})
    n = len(menu(tier))
    depth = 3 if tier == "quick" else 4
    cuts = [0, n // 2, n] if tier == "quick" else list(range(n + 1))
    for start in STARTS:
        for base in range(len(BASES)):
            for lo, hi in zip(cuts, cuts[1:]):
                items.append({"kind": "hist", "tier": tier, "start": start, "base": base, "first": [lo, hi], "depth": depth})
    return items


def run_shard(item):
    rec = Rec(PROPERTY, item)
    kind = item["kind"]
    if kind == "sweep":
        ctx = Ctx(rec)
        word = item["word"]
        bg = D.backgrounds(16, item["k"])
        bgset = set(bg)
        lo = 65536 * item["part"] // item["parts"]
        hi = 65536 * (item["part"] + 1) // item["parts"]
        for v in range(lo, hi):
            for a in bg:
                for b in bg:
                    w = [a, b]
                    w.insert(word, v)
                    dup = word > 0 and v in bgset
                    check_header(rec, w[0], w[1], w[2], nontrivial=not dup, ctx=ctx)
        ctx.keeper.flush()
        rec.count(f"word{word}_values_swept", hi - lo)
        rec.sample({"sweep_word": word, "value": lo, "backgrounds": bg})
    elif kind == "edge":
        ctx = Ctx(rec)
        bgset = set(D.backgrounds(16, item["k"]))
        n = 0
        ver = item["ver"]
        for typ, shf, apid, fl, cnt, dl in itertools.product((0, 1), (0, 1), D.edge(11), D.full(2), D.edge(14), D.edge(16)):
            w0, w1, w2 = (ver << 13 | typ << 12 | shf << 11 | apid), (fl << 14 | cnt), dl
            dup = sum(1 for w in (w0, w1, w2) if w in bgset) >= 2
            check_header(rec, w0, w1, w2, nontrivial=not dup, ctx=ctx, deep=True)
            n += 1
        ctx.keeper.flush()
        rec.count("edge_product_headers", n)
        rec.count("sibling_mutation_scripts", n)
        rec.sample({"edge_product": "full(ver) x type x shf x edge(apid) x full(flags) x edge(count) x edge(len)", "ver": ver, "size": n})
    elif kind == "range":
        field = item["field"]
        vals = D.out_of_range(MAXV[field], item["n"])
        ctors = range_ctors(field)
        for name, c in ctors:
            for v in vals:
                check_range(rec, field, name, c, v)
        rec.count(f"out_of_range_{field}", len(vals) * len(ctors))
        rec.count(f"out_of_range_{field}_constructor_contexts", len(ctors))
        rec.sample({"refuse": field, "first": vals[:3], "count": len(vals), "constructor_contexts": len(ctors)})
    elif kind == "hist":
        keeper = Keepers(rec, 4, 8)  # objects: bystander, argument words and subject of the current history
        m = menu(item["tier"])
        lo, hi = item["first"]
        n = nev = 0
        for events in hist_sequences(m, item["depth"], lo, hi):
            run_history(rec, keeper, item["start"], item["base"], events)
            n += 1
            nev += len(events)
        keeper.flush()
        rec.count("histories", n)
        rec.count("history_events", nev)
        rec.count(f"histories_from_{item['start']}", n)
        rec.extra = {"history_depth": item["depth"], "menu": len(m)}
        rec.sample({"history": {"start": item["start"], "base": list(BASES[item["base"]]), "first_events": m[lo:hi][:3], "depth": item["depth"]}})
    outcomes = rec.outcomes if kind == "hist" else set()
    rec.outcomes = outcomes
    return rec.result()


def replay(case):
    rec = Rec(PROPERTY, "replay")
    if case["kind"] == "hdr":
        ctx = Ctx(rec)
        check_header(rec, *case["w"], ctx=ctx, deep=case.get("deep", False))
        ctx.end_of_case(case)
        ctx.keeper.flush()
    elif case["kind"] == "range":
        check_range(rec, case["field"], case["ctor"], case["ctx"], int(case["v"]))
    elif case["kind"] == "hist":
        keeper = Keepers(rec, 4, 8)  # objects: bystander, argument words and subject of the current history
        run_history(rec, keeper, case["start"], case["base"], case["events"])
        keeper.flush()
    return rec.result()


def finalize(tier, agg):
    c = agg["counters"]
    out = {"per_word_coverage": {f"word{i}": f"{c.get(f'word{i}_values_swept', 0)}/65536" for i in range(3)}}
    out["histories"] = {"executed": c.get("histories", 0), "menu_events": len(menu(tier)), "depth": 3 if tier == "quick" else 4,
                        "start_kinds": STARTS, "base_headers": len(BASES)}
    out["independence"] = {"results_held": c.get("independence_results_held", 0), "reobservations": c.get("independence_reobservations", 0)}
    return out
