"""C01 - space packet primary header (engine V).  DESIGN.md section 4, C01."""

from __future__ import annotations

import itertools

from mc import domains as D
from mc.rec import Rec
from ref import ccsds as R

PROPERTY = "C01"
LEVEL = "model_checking"  # bounded-exhaustive enumeration of executions against a reference model (DESIGN.md 1, 2.1)
EXHAUSTIVE = True
RULE = (
    "header = three 16-bit words; each word swept over all 65536 values in K^2 backgrounds of the other two "
    "(K=4 quick, 8 thorough), plus the full product of the edge alphabets of the seven fields, plus every "
    "out-of-range APID / sequence count / data length in [-N,-1] U [max+1,max+N] and +-2^k through every "
    "constructor taking the field. A case is counted as distinct non-trivial when no earlier sweep of the "
    "enumeration produced the same (w0,w1,w2) / (constructor,value)."
)
BOUNDS = {"quick": "K=4, N=4096", "thorough": "K=8, N=65536"}
ASSUMPTIONS = [
    "reference encoder ref/ccsds.py transcribes CCSDS 133.0-B-2 4.1.3 (checked against the repository's expected vectors in selftest)",
    "two arbitrary non-background values in two different words at once are only covered by the edge product",
]


def _k(tier):
    return 4 if tier == "quick" else 8


def _n(tier):
    return 4096 if tier == "quick" else 65536


def shards(tier):
    items = []
    for word in range(3):
        for part in range(8 if tier == "quick" else 16):
            items.append({"kind": "sweep", "word": word, "part": part, "parts": 8 if tier == "quick" else 16, "k": _k(tier)})
    items.append({"kind": "edge", "k": _k(tier)})
    for field in ("apid", "seq_count", "data_len"):
        items.append({"kind": "range", "field": field, "n": _n(tier)})
    return items


def _sp():
    import spacepackets.ccsds.spacepacket as sp

    return sp


def check_header(rec: Rec, w0, w1, w2, nontrivial=True):
    sp = _sp()
    ver, typ, shf, apid, fl, cnt, dl = R.words_to_fields(w0, w1, w2)
    ref = R.sp_header(ver, typ, shf, apid, fl, cnt, dl)
    case = {"kind": "hdr", "w": [w0, w1, w2]}
    rec.case(nontrivial, ops=14)

    def bad(kind, observed, expected):
        feats = "/".join(f for f, on in (("ver!=0", ver != 0), ("apid>=0x400", apid >= 0x400), ("cnt>=0x2000", cnt >= 0x2000)) if on)
        rec.violation(f"C01.{kind}" + ("/" + feats if feats else ""), case, observed, expected,
                      repro=f"w0,w1,w2={w0:#x},{w1:#x},{w2:#x}  # see checks/c01.py check_header")

    try:
        h = sp.SpacePacketHeader(sp.PacketType(typ), apid, cnt, dl, bool(shf), sp.SequenceFlags(fl), ver)
        got = bytes(h.pack())
    except Exception as e:
        return bad("encode/SpacePacketHeader.pack/exception", repr(e), ref)
    if got != ref:
        return bad("encode/SpacePacketHeader.pack/octets", got, ref)
    try:
        u = sp.SpacePacketHeader.unpack(ref + b"\xab")
    except Exception as e:
        return bad("decode/SpacePacketHeader.unpack/exception", repr(e), None)
    obs = (u.ccsds_version, int(u.packet_type), int(u.sec_header_flag), u.apid, int(u.seq_flags), u.seq_count, u.data_len, u.packet_len, u.header_len)
    exp = (ver, typ, shf, apid, fl, cnt, dl, dl + 7, 6)
    if obs != exp:
        return bad("decode/SpacePacketHeader.unpack/fields", obs, exp)
    if (h.packet_len, h.header_len) != (dl + 7, 6):
        bad("length/SpacePacketHeader.packet_len", (h.packet_len, h.header_len), (dl + 7, 6))
    if bytes(u.pack()) != ref:
        bad("inverse/unpack-then-pack", bytes(u.pack()), ref)
    if not (u == h and h == u):
        bad("inverse/pack-then-unpack-not-equal", None, None)
    pid, psc = w0 & 0x1FFF, w1
    if h.packet_id.raw() != pid or u.packet_id.raw() != pid:
        bad("words/PacketId.raw", h.packet_id.raw(), pid)
    if h.packet_seq_control.raw() != psc:
        bad("words/PacketSeqCtrl.raw", h.packet_seq_control.raw(), psc)
    p = sp.PacketId.from_raw(pid)
    if (int(p.ptype), int(p.sec_header_flag), p.apid) != (typ, shf, apid) or p.raw() != pid or p != h.packet_id:
        bad("words/PacketId.from_raw", (int(p.ptype), int(p.sec_header_flag), p.apid), (typ, shf, apid))
    q = sp.PacketSeqCtrl.from_raw(psc)
    if (int(q.seq_flags), q.seq_count) != (fl, cnt) or q.raw() != psc or q != h.packet_seq_control:
        bad("words/PacketSeqCtrl.from_raw", (int(q.seq_flags), q.seq_count), (fl, cnt))
    # 16-bit inputs with junk above the word must not disturb from_raw (13-bit word inside a 16-bit one)
    p2 = sp.PacketId.from_raw(w0)
    if p2.raw() != pid:
        bad("words/PacketId.from_raw-with-version-bits", p2.raw(), pid)
    c = sp.SpacePacketHeader.from_composite_fields(p, q, dl, ver)
    if bytes(c.pack()) != ref:
        bad("encode/from_composite_fields", bytes(c.pack()), ref)
    if tuple(sp.get_space_packet_id_bytes(sp.PacketType(typ), bool(shf), apid, ver)) != (ref[0], ref[1]):
        bad("helpers/get_space_packet_id_bytes", tuple(sp.get_space_packet_id_bytes(sp.PacketType(typ), bool(shf), apid, ver)), (ref[0], ref[1]))
    if sp.get_apid_from_raw_space_packet(ref) != apid:
        bad("helpers/get_apid_from_raw_space_packet", sp.get_apid_from_raw_space_packet(ref), apid)
    if sp.get_sp_packet_id_raw(sp.PacketType(typ), bool(shf), apid) != pid or sp.get_sp_psc_raw(sp.SequenceFlags(fl), cnt) != psc:
        bad("helpers/get_sp_*_raw", None, None)
    if sp.get_total_space_packet_len_from_len_field(dl) != dl + 7:
        bad("helpers/get_total_space_packet_len_from_len_field", sp.get_total_space_packet_len_from_len_field(dl), dl + 7)
    # SpacePacket.pack(): header || secondary header || user data, nothing else
    if (w2 & 0xFF) < 4:  # a few payload shapes per header, keyed on the low length bits so that every word value meets each
        sec = bytes([w0 & 0xFF]) * ((w2 & 3)) if shf else None
        usr = bytes([w1 & 0xFF, w1 >> 8]) if (not shf or (w2 & 1)) else None
        pkt = sp.SpacePacket(h, sec, usr)
        try:
            raw = bytes(pkt.pack())
            exp_raw = ref + (sec or b"") + (usr or b"")
            if raw != exp_raw:
                bad("encode/SpacePacket.pack", raw, exp_raw)
        except Exception as e:
            bad("encode/SpacePacket.pack/exception", repr(e), None)


CTORS = {
    "apid": [
        ("SpacePacketHeader", lambda sp, v: sp.SpacePacketHeader(sp.PacketType.TM, v, 0, 0).pack()),
        ("SpacePacketHeader(TC,shf)", lambda sp, v: sp.SpacePacketHeader(sp.PacketType.TC, v, 0x3FFF, 0xFFFF, True).pack()),
        ("PacketId", lambda sp, v: sp.PacketId(sp.PacketType.TM, False, v).raw()),
        ("get_sp_packet_id_raw", lambda sp, v: sp.get_sp_packet_id_raw(sp.PacketType.TC, True, v)),
    ],
    "seq_count": [
        ("SpacePacketHeader", lambda sp, v: sp.SpacePacketHeader(sp.PacketType.TM, 0, v, 0).pack()),
        ("PacketSeqCtrl", lambda sp, v: sp.PacketSeqCtrl(sp.SequenceFlags.UNSEGMENTED, v).raw()),
        ("PacketSeqCtrl(CONT)", lambda sp, v: sp.PacketSeqCtrl(sp.SequenceFlags.CONTINUATION_SEGMENT, v).raw()),
        ("get_sp_psc_raw", lambda sp, v: sp.get_sp_psc_raw(sp.SequenceFlags.FIRST_SEGMENT, v)),
    ],
    "data_len": [
        ("SpacePacketHeader", lambda sp, v: sp.SpacePacketHeader(sp.PacketType.TM, 0, 0, v).pack()),
        ("from_composite_fields", lambda sp, v: sp.SpacePacketHeader.from_composite_fields(sp.PacketId(sp.PacketType.TC, True, 0x7FF), sp.PacketSeqCtrl(sp.SequenceFlags.UNSEGMENTED, 0x3FFF), v).pack()),
    ],
}
MAXV = {"apid": 2047, "seq_count": 16383, "data_len": 65535}


def check_range(rec: Rec, field, ctor_name, v):
    sp = _sp()
    fn = dict(CTORS[field])[ctor_name]
    case = {"kind": "range", "field": field, "ctor": ctor_name, "v": str(v)}
    rec.case(True, ops=1)
    try:
        r = fn(sp, v)
    except ValueError:
        return
    except Exception as e:
        rec.violation(f"C01.refuse/{field}/{ctor_name}/wrong-exception/{type(e).__name__}", case, repr(e), "ValueError")
        return
    rec.violation(f"C01.refuse/{field}/{ctor_name}/accepted", case, r, "ValueError")


def run_shard(item):
    rec = Rec(PROPERTY, item)
    kind = item["kind"]
    if kind == "sweep":
        word = item["word"]
        bg = D.backgrounds(16, item["k"])
        bgset = set(bg)
        lo = 65536 * item["part"] // item["parts"]
        hi = 65536 * (item["part"] + 1) // item["parts"]
        for v in range(lo, hi):
            for a in bg:
                for b in bg:
                    w = [a, b]
                    w.insert(word, v)
                    dup = word > 0 and v in bgset
                    check_header(rec, w[0], w[1], w[2], nontrivial=not dup)
        rec.count(f"word{word}_values_swept", hi - lo)
        rec.sample({"sweep_word": word, "value": lo, "backgrounds": bg})
    elif kind == "edge":
        bgset = set(D.backgrounds(16, item["k"]))
        n = 0
        for ver, typ, shf, apid, fl, cnt, dl in itertools.product(D.full(3), (0, 1), (0, 1), D.edge(11), D.full(2), D.edge(14), D.edge(16)):
            w0, w1, w2 = (ver << 13 | typ << 12 | shf << 11 | apid), (fl << 14 | cnt), dl
            dup = sum(1 for w in (w0, w1, w2) if w in bgset) >= 2
            check_header(rec, w0, w1, w2, nontrivial=not dup)
            n += 1
        rec.count("edge_product_headers", n)
        rec.sample({"edge_product": "full(ver) x type x shf x edge(apid) x full(flags) x edge(count) x edge(len)", "size": n})
    elif kind == "range":
        field = item["field"]
        vals = D.out_of_range(MAXV[field], item["n"])
        for name, _ in CTORS[field]:
            for v in vals:
                check_range(rec, field, name, v)
        rec.count(f"out_of_range_{field}", len(vals) * len(CTORS[field]))
        rec.sample({"refuse": field, "first": vals[:3], "count": len(vals)})
    rec.outcomes = set()
    return rec.result()


def replay(case):
    rec = Rec(PROPERTY, "replay")
    if case["kind"] == "hdr":
        check_header(rec, *case["w"])
    elif case["kind"] == "range":
        check_range(rec, case["field"], case["ctor"], int(case["v"]))
    return rec.result()


def finalize(tier, agg):
    c = agg["counters"]
    return {"per_word_coverage": {f"word{i}": f"{c.get(f'word{i}_values_swept', 0)}/65536" for i in range(3)}}
