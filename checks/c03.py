"""C03 - PUS-C telemetry encode/decode for any timestamp length (engines V + F).  DESIGN.md section 4, C03."""

from __future__ import annotations

import itertools

from mc import domains as D
from mc.alias import Keeper
from mc.rec import Rec, unhex
from ref import pus as RP
from ref.crc16 import crc16

PROPERTY = "C03"
LEVEL = "model_checking"  # bounded-exhaustive enumeration of executions against a reference model (DESIGN.md 1, 2.1)
EXHAUSTIVE = True
RULE = (
    "telemetry = (service 8, subservice 8, APID 11, seq count 14, message counter 16, destination ID 16, time reference 4, "
    "packet version 3, timestamp, source data); decoder configuration = the timestamp length. d=1: every value of every "
    "field (150 040 values) in each of K diagonal backgrounds (each background has its own timestamp length and source "
    "data); timestamp axis: every length of the tier's alphabet x shaped contents in K backgrounds, and every timestamp "
    "of <= 2 octets (65 793); source data: every string of <= 2 octets under timestamp lengths 0 and 7, shaped data of "
    "lengths 0..17, 255..257, 1024 and the two largest that fit (and three that do not: must not be encoded); d=2 and "
    "d=3: every pair/triple of fields over the product of their 8-value edge alphabets, crossed with timestamp lengths; "
    "full product of the 4-value alphabets {0, max, 0x55.., 0xAA..} of all eight fields (65 536); the service-17 wrapper "
    "over the 4-value product of its six fields x timestamp lengths x 3 source data, plus d=1 walks. Each case runs "
    "construct/pack/unpack(ts_len)/re-pack/compare against ref/pus.py (and PusTm.service_from_bytes on the octets); generic space-packet view and check_pus_crc on every "
    "vector (thorough) or a covering subset (quick, see bounds). Range clause: service, subservice, message counter in "
    "[-N,-1] U [max+1,max+N] and +-2^k must not be encoded. Rejection clause: timestamp length T in {0,1,2,7} x every "
    "declared total length 7 <= P < 15+T x every APID x sequence-count alphabet x 3 continuations (none, a following valid "
    "TM, zeros): a CRC-consistent octet string whose only fault is the declared length. Distinct non-trivial: not produced "
    "by an earlier part of the enumeration (pairs/triples count only with all chosen values non-default; the parts use "
    "different source data so they are disjoint by construction); a forged buffer counts only when octet 6 reads as PUS-C. "
    "Conjunctions: timestamps of 33, 64, 255..257, 1024 octets and timestamps that (with the source data) exactly fill the space packet "
    "(65 527 + 0, 65 526 + 1, ...; one octet more must not be encoded); every shaped source-data length x every timestamp length of the "
    "quick alphabet; every shaped source-data length x every edge value of every field under timestamp lengths {0,7} (thorough {0,2,7,16}); "
    "every subset of the optional constructor arguments of PusTm (128), Service17Tm (32), PusTmSecondaryHeader (4) omitted (documented "
    "defaults), twice in a row, under each history timestamp length; the decoder is also handed a bytearray followed by neighbouring octets "
    "which the caller overwrites afterwards. "
    "Histories (engine H, stateless): ONE telemetry object, started in each of 5 ways (PusTm constructor, PusTm.unpack, from_composite_fields, "
    "Service17Tm constructor, Service17Tm.unpack - events then go to wrapper.pus_tm and pack() through the wrapper) from each of 4 backgrounds "
    "under each timestamp length, is driven through EVERY sequence of D events of the menu {pack(), pack(recalc_crc=False), calc_crc(), "
    "to_space_packet(), construct+pack+view+decode (PusTm and Service17Tm) of an unrelated telemetry packet with a 5-octet timestamp, all "
    "setters applied to a composed and a decoded twin carrying the same values, apid= (2 values), seq_flags= (2), tm_data= (shorter, equal, "
    "longer, 300 octets)} = 14 events; a plain dict holds the values last set; after the start "
    "and after every event: every accessor, data length, packet_len, == (both directions) with a fresh telemetry object composed from the "
    "model's values; every octet string a reading event returns = ref/pus.py of the model; crc16 right after the events that calculate it; "
    "pack(recalc_crc=False) judged only while no setter ran since the last CRC calculation (its documented precondition). A history is "
    "distinct by (background, timestamp length, start, event sequence). "
    "Independence (mc.alias.Keeper): every object the library hands out in the vector scripts (constructed / decoded PusTm, Service17Tm, "
    "decoded PusTmSecondaryHeader, from_composite_fields objects, the very bytearray pack() returned, the space-packet views) is held and "
    "observed again (accessors + pack()) after the rest of its own script and after the complete script of the next vector of the enumeration "
    "(which differs in at least one field value or in the timestamp length); a change is a violation whose replay is the shard."
)
BOUNDS = {
    "quick": "K=4; timestamp lengths {0,1,2,6,7,8,12,16}; triples crossed with lengths {0,7}; N=4096; reject seq count in edge(14); "
             "space-packet view + check_pus_crc on: every value of fields <= 11 bit, walk(n) and every 17th value of the 14/16-bit "
             "fields, covering arrays (index sum = 0 mod 4) of pairs/triples/4-value product, <=1-octet strings and 2-octet strings "
             "with (b0+b1) mod 16 = 0, all shaped lengths, every 4th wrapper vector; histories: D=3 (2 744 per start), timestamp lengths {0,2,7} x 4 "
             "backgrounds x 5 start states = 60 starts; independence: all vector shards",
    "thorough": "K=8; timestamp lengths 0..32; triples crossed with {0,1,2,6,7,8,12,16}; N=65536; reject seq count in walk(14); "
                "space-packet view + check_pus_crc on every vector; histories: timestamp lengths {0,1,2,6,7,8,12,16} x 4 backgrounds x 5 start states = 160 "
                "starts, D=4 (38 416 per start) from backgrounds 0-1 and D=3 from backgrounds 2-3; independence: all vector shards",
}
ASSUMPTIONS = [
    "ref/pus.py, ref/ccsds.py, ref/crc16.py transcribe ECSS-E-ST-70-41C / CCSDS 133.0-B-2 (bound to the repository's expected vectors by selftest/st_ref_pus.py)",
    "two arbitrary non-edge values in two different fields at once are only covered in the K backgrounds",
    "timestamps longer than 32 octets are represented by 33, 64, 255, 256, 257, 1024 and the packet-filling lengths; source data between 18 octets and the "
    "limit by lengths 255, 256, 257, 1024 only",
    "histories longer than D events, and setter values other than the two or three per property, are not explored; attributes of the component objects "
    "(space_packet_header.*, pus_tm_sec_header.*) are not written directly - only the setters the PusTm class itself offers (apid, seq_flags, tm_data)",
    "independence is observed across adjacent vectors of the fixed enumeration order (ring of 2 scripts), not across arbitrary pairs",
]

AXES = ("service", "subservice", "apid", "seq_count", "message_counter", "dest_id", "time_ref", "packet_version")
BITS = (8, 8, 11, 14, 16, 16, 4, 3)
TS_Q = [0, 1, 2, 6, 7, 8, 12, 16]
TS_BIG = [33, 64, 255, 256, 257, 1024]  # beyond any standard time code: "timestamp of any length"
TS_LIMIT = [(65527, 0), (65526, 1), (65525, 2), (65000, 527), (32768, 32759)]  # (timestamp length, source data length) that exactly fill a space packet
BG_TSLEN = [0, 7, 16, 1, 2, 12, 6, 8]
BG_DATA = [b"", b"\xff", b"\x55\xaa", b"\xaa\x55", b"\x01", b"\xfe\xff", b"\x80", b"\x7f\x00"]
PAIR_DATA = [b"", b"\xd2", b"\xd2\x2d"]
QUAD_DATA = b"\x0f\xf0\x0f"
S17_DATA = [b"", b"\x17", b"\x17\xe8\x17\xe8"]
LENGTHS = list(range(18)) + [255, 256, 257, 1024]


def sweep_lengths(tier):
    """payload lengths that make the 16-bit length field take every low-octet value under high octets 0..4 and every
    carry pattern (window -40..+8) around further multiples of 256 - a decoder that slices with the length field sees all of them"""
    vals = set(range(18, 1101))
    highs = list(range(5, 17)) + [31, 32, 63, 64, 127, 128, 254, 255] + ([] if tier == "quick" else list(range(17, 31)))
    for h in highs:
        vals.update(range(h * 256 - 40, h * 256 + 9))
    return sorted(vals)

STAMP = bytes([0x40, 1, 2, 3, 4, 5, 6]) + bytes(range(0x47, 0x47 + 32))
FILL_HDR = bytes([0x20, 17, 2, 0, 0, 0, 0])
REJECT_T = [0, 1, 2, 7]
MAXV = {"service": 255, "subservice": 255, "message_counter": 65535}


def _k(tier):
    return 4 if tier == "quick" else 8


def ts_lengths(tier):
    return TS_Q if tier == "quick" else list(range(33))


def background(k):
    return tuple(D.backgrounds(n, 8)[k] for n in BITS)


def four(n):
    return [0, (1 << n) - 1, D.alt(n, False), D.alt(n, True)]


def octets_of(spec) -> bytes:
    if spec[0] == "hex":
        return bytes.fromhex(spec[1])
    if spec[0] == "shaped":
        return D.shaped(spec[1])[spec[2]]
    if spec[0] == "stamp":  # a timestamp-looking string of the given length (CDS P-field first)
        return stamp_of(spec[1])
    raise AssertionError(spec)


def stamp_of(T: int) -> bytes:
    return STAMP[:T] if T <= len(STAMP) else STAMP + bytes((i * 7 + 3) & 0xFF for i in range(T - len(STAMP)))


def shards(tier):
    items = []
    k = _k(tier)
    deep = tier == "thorough"
    for axis, n in enumerate(BITS):
        parts = {16: 16, 14: 4}.get(n, 1) * (4 if tier == "thorough" else 1)
        for p in range(parts):
            items.append({"kind": "sweep", "axis": axis, "lo": (1 << n) * p // parts, "hi": (1 << n) * (p + 1) // parts, "k": k, "all_deep": deep})
    items.append({"kind": "ts-lengths", "lens": ts_lengths(tier), "k": k})
    items.append({"kind": "ts-lengths", "lens": TS_BIG, "k": k})
    items.append({"kind": "ts-limit"})
    parts = 4 if tier == "quick" else 16
    for p in range(parts):
        items.append({"kind": "ts-bytes", "bg": 0, "part": p, "parts": parts, "all_deep": deep})
    for tslen in (0, 7):
        for p in range(parts):
            items.append({"kind": "data-bytes", "bg": 1, "tslen": tslen, "part": p, "parts": parts, "all_deep": deep})
    for tslen in TS_Q:
        items.append({"kind": "lengths", "bg": tslen % 2, "tslen": tslen})
        if tslen in (0, 2, 7):
            for part in range(2):
                items.append({"kind": "len-sweep", "bg": tslen % 2, "tslen": tslen, "part": part, "parts": 2, "tier": tier})
    for axis in range(8):
        items.append({"kind": "len-x-edge", "axis": axis, "lens": [0, 7] if tier == "quick" else [0, 2, 7, 16]})
    for T in H_TS[tier]:
        items.append({"kind": "defaults", "T": T})
    items.append({"kind": "oversize"})
    for T in H_TS[tier]:
        for kk in range(H_K):
            for mode in H_MODES:
                items.append({"kind": "history", "k": kk, "T": T, "mode": mode, "depth": h_depth(tier) if kk < 2 else 3})
    pairs = list(itertools.combinations(range(8), 2))
    for chunk in D.chunks(pairs, 7 if tier == "quick" else 28):
        items.append({"kind": "tuples", "axes": [list(c) for c in chunk], "lens": ts_lengths(tier), "datas": [0, 1, 2], "all_deep": deep})
    triples = list(itertools.combinations(range(8), 3))
    for chunk in D.chunks(triples, 14 if tier == "quick" else 56):
        items.append({"kind": "tuples", "axes": [list(c) for c in chunk], "lens": [0, 7] if tier == "quick" else TS_Q, "datas": [0], "all_deep": deep})
    for i in range(4):
        for j in range(4):
            items.append({"kind": "quad", "i": i, "j": j, "all_deep": deep})
    for i in range(4):
        items.append({"kind": "srv17", "i": i, "lens": ts_lengths(tier), "all_deep": deep})
    items.append({"kind": "srv17-walk"})
    for field in ("service", "subservice", "message_counter"):
        items.append({"kind": "range", "field": field, "n": 4096 if tier == "quick" else 65536})
    for T in REJECT_T:
        for total in range(RP.tm_min_len(T) - 1, 6, -1):  # simplest witness first: one octet short
            for part in range(2):
                items.append({"kind": "reject", "T": T, "total": total, "apid_lo": 1024 * part, "apid_hi": 1024 * (part + 1), "tier": tier})
    for T in (0, 7):
        for total in (7, 8):
            items.append({"kind": "reject-solved", "T": T, "total": total, "tier": tier})
    first, rest, seen = [], [], set()
    for it in items:  # one shard of every kind first: the evidence samples (first six) then show different kinds of case
        (rest if it["kind"] in seen else first).append(it)
        seen.add(it["kind"])
    return first + rest


def _tm():
    import spacepackets.ecss.tm as m

    return m


def _s17():
    from spacepackets.ecss.pus_17_test import Service17Tm

    return Service17Tm


def _region(raw, ref, tslen):
    if len(raw) != len(ref):
        return "length"
    i = next(i for i in range(len(ref)) if raw[i] != ref[i])
    if i < 6:
        return "primary-header"
    if i < 13:
        return "secondary-header"
    if i < 13 + tslen:
        return "timestamp"
    return "crc" if i >= len(ref) - 2 else "source-data"


OBS = ("service", "subservice", "apid", "seq_count", "message_counter", "dest_id", "time_ref", "packet_version", "timestamp", "tm_data",
       "source_data", "crc16", "data_len", "packet_len", "packet_type", "sec_header_flag", "seq_flags")


def observe(u):
    h = u.pus_tm_sec_header
    return (u.service, u.subservice, u.apid, u.seq_count, h.message_counter, h.dest_id, int(h.spacecraft_time_ref), u.ccsds_version,
            bytes(u.timestamp), bytes(u.tm_data), bytes(u.source_data), None if u.crc16 is None else bytes(u.crc16),
            u.space_packet_header.data_len, u.packet_len, int(u.packet_type), int(bool(u.sec_header_flag)), int(u.seq_flags))


def short(b):
    if not isinstance(b, (bytes, bytearray)):
        return b
    b = bytes(b)
    return b if len(b) <= 72 else b[:40] + b"...." + b[-16:]


def keep_obs(o):
    """copying observation of a telemetry object held by the Keeper: plain attribute reads only (an observation that
    called pack() would itself write whatever hidden state the library shares, and could repair what it is looking for);
    the octets are held separately - the very bytearray pack() returned"""
    return observe(o)


KEEP_ROUTES = {"len-sweep": False, "sweep": False, "ts-bytes": False, "data-bytes": False, "ts-lengths": True, "lengths": True, "tuples": True, "quad": True,
               "srv17": False, "srv17-walk": False}  # shard kinds run with the independence oracle -> do their vectors use the alternative constructors


def keep_hdr(h):
    return (h.service, h.subservice, h.message_counter, h.dest_id, int(h.spacecraft_time_ref), bytes(h.timestamp), h.header_size, int(h.pus_version))


def keep_view(sp):
    h = sp.sp_header
    return (h.apid, h.seq_count, h.data_len, int(h.packet_type), int(h.seq_flags), h.ccsds_version, None if sp.sec_header is None else bytes(sp.sec_header),
            None if sp.user_data is None else bytes(sp.user_data))


def keep_depth(routes: bool, deep: bool) -> int:
    """ring size of the Keeper = twice the number of results one vector hands out, so that every result is
    observed again after the rest of its own script and after the complete script of the next vector"""
    return 2 * (3 + (2 if deep else 0) + (3 if routes else 0))


def check_tm(rec: Rec, f, ts_spec, data_spec, nontrivial=True, routes=False, deep=True, keeper=None):
    """one telemetry vector: the fixed script, then (independence clause) everything the library handed out for
    the previous vectors of the shard is observed again"""
    case = {"kind": "tm", "f": list(f), "ts": list(ts_spec), "data": list(data_spec)}
    try:
        _tm_script(rec, case, f, ts_spec, data_spec, nontrivial, routes, deep, keeper)
    finally:
        if keeper is not None:
            keeper.recheck(case)


def _tm_script(rec: Rec, case, f, ts_spec, data_spec, nontrivial, routes, deep, keeper):
    """the fixed script of operations for one telemetry vector (deep: see checks/c02.py check_tc)"""
    m = _tm()
    svc, sub, apid, cnt, mc, dest, tref, ver = f
    ts, data = octets_of(ts_spec), octets_of(data_spec)
    T = len(ts)
    ref = RP.tm(svc, sub, ts, data, apid, cnt, mc, tref, dest, ver)

    def hold(subject, obj, obs):
        if keeper is not None:
            keeper.hold(subject, obj, obs, case)

    rec.case(nontrivial, ops=11 + (3 if deep else 0) + (8 if routes else 0))
    if deep:
        rec.count("vectors_with_space_packet_view_and_check_pus_crc")
    if len(ref) <= 40 and any(f):
        rec.sample({"telemetry": dict(zip(AXES, f)), "timestamp": ts.hex(), "source_data": data.hex(), "decoder_timestamp_len": T,
                    "expected_octets": ref.hex()}, limit=1)

    def bad(kind, observed=None, expected=None):
        rec.violation("C03." + kind, case, observed, expected,
                      repro="PusTm(service=%d, subservice=%d, timestamp=bytes.fromhex(%r), source_data=bytes.fromhex(%r), apid=%d, seq_count=%d, "
                            "message_counter=%d, space_time_ref=%d, destination_id=%d, packet_version=%d); unpack(.., timestamp_len=%d)"
                            % (svc, sub, ts.hex(), data.hex()[:80], apid, cnt, mc, tref, dest, ver, T))

    try:
        tm = m.PusTm(service=svc, subservice=sub, timestamp=ts, source_data=data, apid=apid, seq_count=cnt, message_counter=mc,
                     space_time_ref=tref, destination_id=dest, packet_version=ver)
        raw_obj = tm.pack()
        raw = bytes(raw_obj)
    except Exception as e:
        return bad("encode/PusTm.pack/exception/" + type(e).__name__, repr(e), short(ref))
    hold("PusTm.pack", raw_obj, bytes)
    hold("PusTm()", tm, keep_obs)
    if raw != ref:
        return bad("encode/PusTm.pack/octets/" + _region(raw, ref, T), short(raw), short(ref))
    if tm.packet_len != len(ref):
        bad("length/PusTm.packet_len", tm.packet_len, len(ref))
    if tm.crc16 is None or bytes(tm.crc16) != ref[-2:]:
        bad("encode/PusTm.crc16", tm.crc16, ref[-2:])
    again = bytes(tm.pack(recalc_crc=False))
    if again != ref:
        bad("encode/PusTm.pack(recalc_crc=False)-after-pack/octets/" + _region(again, ref, T), short(again), short(ref))
    off = m.PUS_TM_TIMESTAMP_OFFSET
    if off != RP.TM_TIMESTAMP_OFFSET or raw[off:off + T] != ts:
        bad("offset/PUS_TM_TIMESTAMP_OFFSET", off, RP.TM_TIMESTAMP_OFFSET)
    # the helper that reads the service octet of packed telemetry (used to pick the decoder): octet 7 of the layout the property
    # fixes, for every telemetry packet whatever its other fields
    try:
        got_svc = m.PusTm.service_from_bytes(bytearray(ref))
        if got_svc != svc:
            bad("helper/PusTm.service_from_bytes/wrong-service", got_svc, svc)
    except Exception as e:
        bad("helper/PusTm.service_from_bytes/exception/" + type(e).__name__, repr(e), svc)
    if deep:
        from spacepackets.ecss import check_pus_crc

        try:
            sp = tm.to_space_packet()
            view = bytes(sp.pack())
            if view != ref:
                bad("view/PusTm.to_space_packet/octets/" + _region(view, ref, T), short(view), short(ref))
            hold("PusTm.to_space_packet", sp, keep_view)
        except Exception as e:
            bad("view/PusTm.to_space_packet/exception/" + type(e).__name__, repr(e), None)
        if check_pus_crc(ref) is not True:
            bad("crc/check_pus_crc/valid-packet-rejected", False, True)
    try:
        u = m.PusTm.unpack(ref, T)
    except Exception as e:
        return bad("decode/PusTm.unpack/exception/" + type(e).__name__, repr(e), None)
    exp = (svc, sub, apid, cnt, mc, dest, tref, ver, ts, data, data, ref[-2:], len(ref) - 7, len(ref), 0, 1, 3)
    obs = observe(u)
    if obs != exp:
        name = next(n for n, a, b in zip(OBS, obs, exp) if a != b)
        return bad("decode/PusTm.unpack/field=" + name, [short(x) for x in obs], [short(x) for x in exp])
    hold("PusTm.unpack", u, keep_obs)
    if not (u == tm and tm == u):
        bad("inverse/PusTm.unpack/decoded-not-equal-original")
    re = bytes(u.pack())
    if re != ref:
        bad("inverse/unpack-then-pack/octets/" + _region(re, ref, T), short(re), short(ref))
    if deep:
        sp = u.to_space_packet()
        view = bytes(sp.pack())
        if view != ref:
            bad("view/decoded.to_space_packet/octets/" + _region(view, ref, T), short(view), short(ref))
        hold("decoded.to_space_packet", sp, keep_view)
    rec.outcome("roundtrip-ok/ts%d" % T)
    if routes:
        from spacepackets.ccsds.spacepacket import PacketType, SequenceFlags, SpacePacketHeader

        try:
            c = m.PusTm.from_composite_fields(
                SpacePacketHeader(PacketType.TM, apid, cnt, len(ref) - 7, True, SequenceFlags.UNSEGMENTED, ver),
                m.PusTmSecondaryHeader(service=svc, subservice=sub, timestamp=ts, message_counter=mc, dest_id=dest, spacecraft_time_ref=tref), data)
            rc = bytes(c.pack())
            if rc != ref:
                bad("encode/PusTm.from_composite_fields/octets/" + _region(rc, ref, T), short(rc), short(ref))
            elif not c == tm:
                bad("encode/PusTm.from_composite_fields/not-equal-constructor")
            sh = m.PusTmSecondaryHeader.unpack(ref[6:], T)
            got = (sh.service, sh.subservice, sh.message_counter, sh.dest_id, int(sh.spacecraft_time_ref), bytes(sh.timestamp), sh.header_size)
            if got != (svc, sub, mc, dest, tref, ts, 7 + T) or bytes(sh.pack()) != ref[6:13 + T]:
                bad("decode/PusTmSecondaryHeader.unpack/fields", [short(x) for x in got], [svc, sub, mc, dest, tref, short(ts), 7 + T])
            # the other input form: the decoder is handed the bytearray pack() returns (followed by neighbouring octets), and the
            # caller's buffer is reused afterwards - what was decoded from it is a value, not a view of that buffer
            buf = bytearray(ref) + bytearray(b"\xa5" * 3)
            v = m.PusTm.unpack(buf, T)
            for i in range(len(buf)):
                buf[i] ^= 0xFF
            if observe(v) != exp or bytes(v.pack()) != ref or not v == tm:
                bad("decode/PusTm.unpack(bytearray)/fields-after-the-buffer-was-reused", [short(x) for x in observe(v)], [short(x) for x in exp])
            hold("PusTmSecondaryHeader.unpack", sh, keep_hdr)
            hold("PusTm.from_composite_fields", c, keep_obs)
        except Exception as e:
            bad("encode/alternative-constructors/exception/" + type(e).__name__, repr(e), None)


S17_AXES = ("subservice", "apid", "seq_count", "dest_id", "time_ref", "packet_version")
S17_BITS = (8, 11, 14, 16, 4, 3)


def check_srv17(rec: Rec, f, ts_spec, data_spec, nontrivial=True, deep=True, keeper=None):
    case = {"kind": "srv17", "f": list(f), "ts": list(ts_spec), "data": list(data_spec)}
    try:
        _srv17_script(rec, case, f, ts_spec, data_spec, nontrivial, deep, keeper)
    finally:
        if keeper is not None:
            keeper.recheck(case)


def _srv17_script(rec: Rec, case, f, ts_spec, data_spec, nontrivial, deep, keeper):
    """the service-17 wrapper: pack, unpack, accessor properties"""
    from spacepackets.ecss.pus_17_test import Service17Tm

    sub, apid, cnt, dest, tref, ver = f
    ts, data = octets_of(ts_spec), octets_of(data_spec)
    T = len(ts)
    ref = RP.srv17_tm(sub, ts, data, apid, cnt, tref, dest, ver)

    def hold(subject, obj, obs):
        if keeper is not None:
            keeper.hold(subject, obj, obs, case)

    rec.case(nontrivial, ops=8 + (1 if deep else 0))
    if any(f):
        rec.sample({"service17_tm": dict(zip(S17_AXES, f)), "timestamp": ts.hex(), "source_data": data.hex(), "expected_octets": ref.hex()}, limit=1)

    def bad(kind, observed=None, expected=None):
        rec.violation("C03." + kind, case, observed, expected,
                      repro="Service17Tm(apid=%d, subservice=%d, timestamp=bytes.fromhex(%r), ssc=%d, source_data=bytes.fromhex(%r), packet_version=%d, "
                            "space_time_ref=%d, destination_id=%d)" % (apid, sub, ts.hex(), cnt, data.hex(), ver, tref, dest))

    def acc(w):
        h = w.pus_tm.pus_tm_sec_header
        return (w.service, w.subservice, w.apid, w.seq_count, h.message_counter, h.dest_id, int(h.spacecraft_time_ref), w.ccsds_version,
                bytes(w.timestamp), bytes(w.source_data), w.sp_header.data_len, w.pus_tm.packet_len, int(w.packet_type),
                int(bool(w.sec_header_flag)), int(w.seq_flags), w.packet_id.raw(), w.packet_seq_control.raw())

    exp = (17, sub, apid, cnt, 0, dest, tref, ver, ts, data, len(ref) - 7, len(ref), 0, 1, 3, int.from_bytes(ref[0:2], "big") & 0x1FFF,
           int.from_bytes(ref[2:4], "big"))
    try:
        w = Service17Tm(apid=apid, subservice=sub, timestamp=ts, ssc=cnt, source_data=data, packet_version=ver, space_time_ref=tref, destination_id=dest)
        raw_obj = w.pack()
        raw = bytes(raw_obj)
    except Exception as e:
        return bad("wrapper/Service17Tm.pack/exception/" + type(e).__name__, repr(e), short(ref))
    hold("Service17Tm.pack", raw_obj, bytes)
    hold("Service17Tm()", w, acc)
    if raw != ref:
        return bad("wrapper/Service17Tm.pack/octets/" + _region(raw, ref, T), short(raw), short(ref))
    if acc(w) != exp:
        bad("wrapper/Service17Tm/accessors-of-constructed", [short(x) for x in acc(w)], [short(x) for x in exp])
    try:
        u = Service17Tm.unpack(ref, T)
    except Exception as e:
        return bad("wrapper/Service17Tm.unpack/exception/" + type(e).__name__, repr(e), None)
    if acc(u) != exp:
        name = next(i for i, (a, b) in enumerate(zip(acc(u), exp)) if a != b)
        return bad("wrapper/Service17Tm.unpack/accessor#%d" % name, [short(x) for x in acc(u)], [short(x) for x in exp])
    hold("Service17Tm.unpack", u, acc)
    if bytes(u.pack()) != ref:
        bad("wrapper/Service17Tm.unpack-then-pack/octets", short(bytes(u.pack())), short(ref))
    if not (u.pus_tm == w.pus_tm and w.pus_tm == _tm().PusTm.unpack(ref, T)):
        bad("wrapper/Service17Tm.unpack/decoded-not-equal-original")
    elif not (u == w and w == u):  # "returns an equal telemetry packet ... (also via the service-17 wrapper": the wrappers themselves
        bad("wrapper/Service17Tm.unpack/decoded-wrapper-not-equal-original-wrapper")
    else:
        other = Service17Tm(apid=apid, subservice=(sub + 1) % 256, timestamp=ts, ssc=cnt, source_data=data, packet_version=ver, space_time_ref=tref, destination_id=dest)
        if u == other or other == u or not (u != other):
            bad("wrapper/Service17Tm.unpack/equal-to-a-wrapper-with-another-subservice")
    if deep:
        view = bytes(u.pus_tm.to_space_packet().pack())
        if view != ref:
            bad("wrapper/Service17Tm.pus_tm.to_space_packet/octets", short(view), short(ref))
    rec.outcome("srv17-roundtrip-ok/ts%d" % T)


def check_oversize(rec: Rec, T, extra, idx):
    m = _tm()
    L = RP.max_tm_source_data(T) + extra
    data = D.shaped(L)[idx]
    case = {"kind": "oversize", "T": T, "extra": extra, "idx": idx}
    rec.case(True, ops=1)
    try:
        raw = m.PusTm(service=17, subservice=2, timestamp=stamp_of(T), source_data=data, apid=1).pack()
    except Exception as e:
        rec.outcome("oversize-refused:" + type(e).__name__)
        return
    rec.violation("C03.fit/PusTm/oversize-source-data-encoded", case, {"octets": len(raw), "length_field": bytes(raw[4:6])}, "an exception")


RANGE_CTORS = {
    "service": [
        ("PusTm", lambda v: _tm().PusTm(service=v, subservice=1, timestamp=b"").pack()),
        ("PusTm(ts7)", lambda v: _tm().PusTm(service=v, subservice=255, timestamp=STAMP[:7], source_data=b"\x01", apid=0x7FF, seq_count=0x3FFF).pack()),
        ("PusTmSecondaryHeader", lambda v: _tm().PusTmSecondaryHeader(service=v, subservice=1, timestamp=b"", message_counter=0).pack()),
    ],
    "subservice": [
        ("PusTm", lambda v: _tm().PusTm(service=1, subservice=v, timestamp=b"").pack()),
        ("PusTm(ts7)", lambda v: _tm().PusTm(service=255, subservice=v, timestamp=STAMP[:7], source_data=b"\x01", apid=0x7FF, seq_count=0x3FFF).pack()),
        ("PusTmSecondaryHeader", lambda v: _tm().PusTmSecondaryHeader(service=1, subservice=v, timestamp=b"", message_counter=0).pack()),
        ("Service17Tm", lambda v: _s17()(apid=1, subservice=v, timestamp=b"").pack()),
    ],
    "message_counter": [
        ("PusTm", lambda v: _tm().PusTm(service=1, subservice=1, timestamp=b"", message_counter=v).pack()),
        ("PusTm(ts7)", lambda v: _tm().PusTm(service=255, subservice=255, timestamp=STAMP[:7], source_data=b"\x01", message_counter=v).pack()),
        ("PusTmSecondaryHeader", lambda v: _tm().PusTmSecondaryHeader(service=1, subservice=1, timestamp=b"", message_counter=v).pack()),
    ],
}


def check_range(rec: Rec, field, ctor, v):
    fn = dict(RANGE_CTORS[field])[ctor]
    case = {"kind": "range", "field": field, "ctor": ctor, "v": str(v)}
    rec.case(True, ops=1)
    try:
        r = fn(v)
    except Exception as e:
        rec.outcome("range-refused:" + type(e).__name__)
        return
    rec.violation(f"C03.range/{field}/{ctor}/out-of-range-value-encoded", case, bytes(r), "an exception (ValueError)")


def check_reject(rec: Rec, buf: bytes, total: int, T: int, nontrivial: bool):
    """buf[:total] is a CRC-consistent space packet declaring total < 15+T octets; the decoder configured with
    timestamp length T must raise"""
    m = _tm()
    assert 7 <= total < RP.tm_min_len(T) and len(buf) >= total and crc16(buf[:total]) == 0 and int.from_bytes(buf[4:6], "big") == total - 7
    case = {"kind": "reject", "total": total, "T": T, "buf": buf}
    rec.case(nontrivial, ops=1)
    try:
        u = m.PusTm.unpack(buf, T)
    except (ValueError, m.InvalidTmCrc16) as e:
        rec.outcome("reject:" + type(e).__name__)
        return
    except Exception as e:
        rec.violation("C03.reject/PusTm.unpack/undocumented-exception/" + type(e).__name__, case, repr(e), "ValueError (or a documented decode error)")
        return
    rec.outcome("reject:ACCEPTED")
    h = u.pus_tm_sec_header
    rec.violation("C03.reject/PusTm.unpack/accepted-declared-length-too-small", case,
                  {"declared_total": total, "timestamp_len": T, "buffer_len": len(buf),
                   "decoded": {"service": u.service, "subservice": u.subservice, "message_counter": h.message_counter, "dest_id": h.dest_id,
                               "timestamp": bytes(u.timestamp), "tm_data": bytes(u.tm_data), "crc16": bytes(u.crc16)}},
                  "an exception: header, %d-octet timestamp and CRC need %d octets, the packet declares %d" % (T, RP.tm_min_len(T), total),
                  repro="PusTm.unpack(bytes.fromhex(%r), timestamp_len=%d)" % (buf.hex(), T))


def looks_pus_c(buf):
    return len(buf) > 6 and buf[6] >> 4 == RP.PUS_C


def reject_seqs(tier):
    return D.edge(14) if tier == "quick" else D.walk(14)


def tails(T):
    return [b"", RP.tm(17, 2, STAMP[:T], b"", apid=1, seq_count=5), bytes(24)]



# ---------------------------------------------------- entry-point forms: omitted keyword arguments
OPT_TM = ("source_data", "apid", "seq_count", "message_counter", "space_time_ref", "destination_id", "packet_version")  # documented defaults: b"", 0 ...
OPT_S17 = ("ssc", "source_data", "packet_version", "space_time_ref", "destination_id")
OPT_HDR = ("dest_id", "spacecraft_time_ref")


def check_defaults(rec: Rec, ctor, k, T, mask, rnd, keeper=None):
    """<ctor>(<required arguments>, <the optional arguments selected by mask>): every omitted one takes the documented default (0 / empty)"""
    m = _tm()
    svc, sub, apid, cnt, mc, dest, tref, ver = (x or 1 for x in background(k))  # all given values differ from the defaults
    ts, data = stamp_of(T), BG_DATA[k] or b"\x0d"
    case = {"kind": "defaults", "ctor": ctor, "k": k, "T": T, "mask": mask, "round": rnd}
    given = {"source_data": data, "apid": apid, "seq_count": cnt, "ssc": cnt, "message_counter": mc, "space_time_ref": tref, "spacecraft_time_ref": tref,
             "destination_id": dest, "dest_id": dest, "packet_version": ver}
    names = {"PusTm": OPT_TM, "Service17Tm": OPT_S17, "PusTmSecondaryHeader": OPT_HDR}[ctor]
    kw = {n: given[n] for i, n in enumerate(names) if mask >> i & 1}

    def g(*aliases):
        return next((kw[a] for a in aliases if a in kw), None)

    rec.case(rnd == 0 and mask != (1 << len(names)) - 1, ops=4)  # all given = a vector of the other parts; second round = same vectors again
    try:
        if ctor == "PusTmSecondaryHeader":
            ref = RP.tm_sec_header(g("spacecraft_time_ref") or 0, svc, sub, mc, g("dest_id") or 0, ts)
            o = m.PusTmSecondaryHeader(service=svc, subservice=sub, timestamp=ts, message_counter=mc, **kw)
            u = m.PusTmSecondaryHeader.unpack(ref, T)
            obs = keep_hdr
        else:
            if ctor == "Service17Tm":
                svc = 17
            ref = RP.tm(svc, sub, ts, g("source_data") or b"", g("apid") or 0 if ctor == "PusTm" else apid, g("seq_count", "ssc") or 0, g("message_counter") or 0,
                        g("space_time_ref") or 0, g("destination_id") or 0, g("packet_version") or 0)
            if ctor == "PusTm":
                o = m.PusTm(service=svc, subservice=sub, timestamp=ts, **kw)
                u = m.PusTm.unpack(ref, T)
                obs = keep_obs
            else:
                o = _s17()(apid=apid, subservice=sub, timestamp=ts, **kw)
                u = _s17().unpack(ref, T)
                obs = lambda w: keep_obs(w.pus_tm)  # noqa: E731
        raw_obj = o.pack()
        if bytes(raw_obj) != ref:
            rec.violation("C03.encode/%s(omitted-arguments)/octets" % ctor, case, short(bytes(raw_obj)), short(ref), repro="%s(<required>, **%r).pack()" % (ctor, kw))
        elif obs(u) != obs(o) or not (u == o and o == u) or (ctor == "Service17Tm" and not u.pus_tm == o.pus_tm):
            rec.violation("C03.encode/%s(omitted-arguments)/fields" % ctor, case, [short(x) for x in obs(o)], [short(x) for x in obs(u)])
        elif keeper is not None:
            keeper.hold(ctor + ".pack", raw_obj, bytes, case)
            keeper.hold(ctor + "()", o, obs, case)
            keeper.hold(ctor + ".unpack", u, obs, case)
        rec.outcome("defaults-ok/%s/%d-omitted" % (ctor, len(names) - bin(mask).count("1")))
    except Exception as e:
        rec.violation("C03.encode/%s(omitted-arguments)/exception/%s" % (ctor, type(e).__name__), case, repr(e), None)
    finally:
        if keeper is not None:
            keeper.recheck(case)


# ------------------------------------------------------------------- histories (engine H)
# One telemetry OBJECT is driven through every sequence of public operations under each timestamp length; a plain
# dict (the model) holds the values last set.  The property speaks about "the packed telemetry", its re-packing and
# its generic space-packet view for every value of the fields, every source data and every timestamp length: it
# holds for the values the object has NOW, however they got there (constructor, decoder, property setter) and
# whatever was read from the object before.
H_SET = {
    "apid": [0x7FF, 0x2AA],
    "seq_flags": [1, 2],  # FIRST_SEGMENT, LAST_SEGMENT: each of the two bits in the other polarity than UNSEGMENTED
    "tm_data": [b"", b"\x5a", b"\x01\x02\x03\x04\x05", b"\xc3" * 300],  # shorter / as long as / longer than the start values' source data / > 255
}
H_READ = ["pack", "pack(recalc_crc=False)", "calc_crc", "to_space_packet", "decode-another", "setters-on-a-twin"]
H_EVENTS = H_READ + ["%s=%d" % (k, i) for k in ("apid", "seq_flags", "tm_data") for i in range(len(H_SET[k]))]
H_MODES = ["constructed", "decoded", "from_composite_fields", "Service17Tm()", "Service17Tm.unpack", "constructed(bytearray)", "decoded(bytearray)"]  # the last two: timestamp / source data / receive buffer handed over as bytearray (mutable: in-place aliasing shows only here)
H_KEYS = ("service", "subservice", "timestamp", "source_data", "apid", "seq_count", "msg_counter", "time_ref", "dest_id", "version", "seq_flags")
H_OTHER = dict(service=0xC3, subservice=0x3C, timestamp=b"\xa1\xa2\xa3\xa4\xa5", source_data=b"\xde\xad\xbe\xef\x99\x77", apid=0x123, seq_count=0x0ABC,
               msg_counter=0x2468, time_ref=0b0110, dest_id=0x1357, version=0b101, seq_flags=3)
H_TS = {"quick": [0, 2, 7], "thorough": TS_Q}
H_K = 4
_REF_MEMO = {}


def h_depth(tier):
    return 3 if tier == "quick" else 4


def h_ref(model) -> bytes:
    key = tuple(model[k] for k in H_KEYS)
    r = _REF_MEMO.get(key)
    if r is None:
        r = _REF_MEMO[key] = RP.tm(**model)
    return r


def h_start(k, T, mode):
    svc, sub, apid, cnt, mc, dest, tref, ver = background(k)
    if mode.startswith("Service17Tm"):  # the wrapper fixes service 17 and offers no message counter
        svc, mc = 17, 0
    return dict(service=svc, subservice=sub, timestamp=STAMP[:T], source_data=BG_DATA[k], apid=apid, seq_count=cnt, msg_counter=mc, time_ref=tref,
                dest_id=dest, version=ver, seq_flags=3)


def h_twin(m, v):
    """a fresh telemetry object with the model's values, built from its parts (no setter involved)"""
    from spacepackets.ccsds.spacepacket import PacketType, SequenceFlags, SpacePacketHeader

    return m.PusTm.from_composite_fields(
        SpacePacketHeader(PacketType.TM, v["apid"], v["seq_count"], len(h_ref(v)) - 7, True, SequenceFlags(v["seq_flags"]), v["version"]),
        m.PusTmSecondaryHeader(service=v["service"], subservice=v["subservice"], timestamp=v["timestamp"], message_counter=v["msg_counter"],
                               dest_id=v["dest_id"], spacecraft_time_ref=v["time_ref"]), v["source_data"])


def h_make(m, mode, v):
    """-> (telemetry object the events are applied to, object whose pack() is read)"""
    if mode == "constructed":
        o = m.PusTm(service=v["service"], subservice=v["subservice"], timestamp=v["timestamp"], source_data=v["source_data"], apid=v["apid"],
                    seq_count=v["seq_count"], message_counter=v["msg_counter"], space_time_ref=v["time_ref"], destination_id=v["dest_id"],
                    packet_version=v["version"])
        return o, o
    if mode == "decoded":
        o = m.PusTm.unpack(h_ref(v), len(v["timestamp"]))
        return o, o
    if mode == "from_composite_fields":
        o = h_twin(m, v)
        return o, o
    if mode == "constructed(bytearray)":
        o = m.PusTm(service=v["service"], subservice=v["subservice"], timestamp=bytearray(v["timestamp"]), source_data=bytearray(v["source_data"]), apid=v["apid"],
                    seq_count=v["seq_count"], message_counter=v["msg_counter"], space_time_ref=v["time_ref"], destination_id=v["dest_id"],
                    packet_version=v["version"])
        return o, o
    if mode == "decoded(bytearray)":
        o = m.PusTm.unpack(bytearray(h_ref(v)), len(v["timestamp"]))
        return o, o
    if mode == "Service17Tm()":
        w = _s17()(apid=v["apid"], subservice=v["subservice"], timestamp=v["timestamp"], ssc=v["seq_count"], source_data=v["source_data"],
                   packet_version=v["version"], space_time_ref=v["time_ref"], destination_id=v["dest_id"])
        return w.pus_tm, w
    if mode == "Service17Tm.unpack":
        w = _s17().unpack(h_ref(v), len(v["timestamp"]))
        return w.pus_tm, w
    raise AssertionError(mode)


H_PURE = ("service", "subservice", "apid", "seq_count", "message_counter", "dest_id", "time_ref", "packet_version", "timestamp", "tm_data", "source_data",
          "data_len", "packet_len", "packet_type", "sec_header_flag", "seq_flags", "wrapper.service", "wrapper.subservice", "wrapper.timestamp",
          "wrapper.source_data", "wrapper.data_len")


def h_pure(o, w):
    """observations that are plain attribute reads (no cache is filled by making them); w is o or the service-17 wrapper around it"""
    x = observe(o)
    return x[:11] + x[12:] + (w.service, w.subservice, bytes(w.timestamp), bytes(w.source_data), w.sp_header.data_len)


def h_expected(v):
    ref = h_ref(v)
    return (v["service"], v["subservice"], v["apid"], v["seq_count"], v["msg_counter"], v["dest_id"], v["time_ref"], v["version"], v["timestamp"],
            v["source_data"], v["source_data"], len(ref) - 7, len(ref), 0, 1, v["seq_flags"], v["service"], v["subservice"], v["timestamp"],
            v["source_data"], len(ref) - 7)


def run_history(rec: Rec, k, T, mode, events, nontrivial=True):
    """executes one history on a fresh object; after the start and after every event the pure observations are
    compared with the model, and what a reading event returns is compared with the reference octets of the model.
    crc16 is demanded right after the operations that (re)calculate it; pack(recalc_crc=False) is judged only
    while no setter ran since the last calculation (its documented precondition)."""
    m = _tm()
    model = h_start(k, T, mode)
    rec.case(nontrivial, ops=0)
    state = {"i": -1, "failed": False}

    def bad(kind, observed=None, expected=None):
        i = state["i"]
        state["failed"] = True
        case = {"kind": "history", "k": k, "T": T, "mode": mode, "events": list(events[: i + 1])}
        lines = ["model = %r" % (h_start(k, T, mode),), "tm = <%s from model>" % mode] + ["tm: " + e for e in events[: i + 1]]
        rec.violation("C03.history/" + kind, case, observed, expected, repro="; ".join(lines),
                      note="start values: background %d with a %d-octet timestamp, start state: %s; setter values: %r; the expected octets are ref/pus.py of the values last set"
                           % (k, T, mode, {n: [x.hex() if isinstance(x, bytes) else x for x in vs] for n, vs in H_SET.items()}))

    def pure(after):
        exp = h_expected(model)
        try:
            obs = h_pure(o, w)
        except Exception as e:
            return bad("%s/then-accessors/exception/%s" % (after, type(e).__name__), repr(e), None)
        rec.ops += 1
        if obs != exp:
            name = next(n for n, a, b in zip(H_PURE, obs, exp) if a != b)
            return bad("%s/then/field=%s" % (after, name), [short(x) for x in obs], [short(x) for x in exp])
        twin = h_twin(m, model)
        if not (o == twin and twin == o):
            bad("%s/then/not-equal-to-a-fresh-telemetry-with-the-same-values" % after)
        elif w is not o:  # the wrapper compares like the telemetry it carries
            tw = _s17()(apid=0, subservice=0, timestamp=b"")
            tw.pus_tm = twin
            if not (w == tw and tw == w):
                bad("%s/then/wrapper-not-equal-to-a-fresh-wrapper-with-the-same-values" % after)

    try:
        o, w = h_make(m, mode, model)
    except Exception as e:
        return bad("start=%s/exception/%s" % (mode, type(e).__name__), repr(e), None)
    decoded = mode in ("decoded", "Service17Tm.unpack", "decoded(bytearray)")
    crc = "fresh" if decoded else "none"
    pure("start=" + mode)
    if decoded and (o.crc16 is None or bytes(o.crc16) != h_ref(model)[-2:]):
        bad("start=%s/crc16" % mode, o.crc16, h_ref(model)[-2:])
    for i, ev in enumerate(events):
        if state["failed"]:
            break  # simplest witness: the history up to the first deviation
        state["i"] = i
        rec.ops += 1
        ref = h_ref(model)
        name = "PusTm." + ev.split("=")[0]
        try:
            if ev == "pack":
                out = bytes(w.pack())  # through the wrapper where there is one
                crc = "fresh"
                if out != ref:
                    bad("PusTm.pack/octets/" + _region(out, ref, T), short(out), short(ref))
            elif ev == "pack(recalc_crc=False)":
                out = bytes(o.pack(recalc_crc=False))
                if crc == "stale":
                    rec.count("history_pack_without_recalc_on_stale_crc_not_judged")
                else:
                    crc = "fresh"
                    if out != ref:
                        bad("PusTm.pack(recalc_crc=False)/octets/" + _region(out, ref, T), short(out), short(ref))
                name = None
            elif ev == "calc_crc":
                o.calc_crc()
                crc = "fresh"
            elif ev == "to_space_packet":
                sp = o.to_space_packet()
                crc = "fresh"
                out = bytes(sp.pack())
                if out != ref:
                    bad("PusTm.to_space_packet/octets/" + _region(out, ref, T), short(out), short(ref))
                elif (sp.apid, sp.seq_count) != (model["apid"], model["seq_count"]):
                    bad("PusTm.to_space_packet/accessors", (sp.apid, sp.seq_count), (model["apid"], model["seq_count"]))
            elif ev == "decode-another":
                # an unrelated telemetry packet with another timestamp length is built, packed, viewed and decoded in
                # between (also through the wrapper's decoder): must not touch this one
                v = H_OTHER
                other_ref = h_ref(v)
                x = m.PusTm(service=v["service"], subservice=v["subservice"], timestamp=v["timestamp"], source_data=v["source_data"], apid=v["apid"],
                            seq_count=v["seq_count"], message_counter=v["msg_counter"], space_time_ref=v["time_ref"], destination_id=v["dest_id"],
                            packet_version=v["version"])
                y = m.PusTm.unpack(other_ref, len(v["timestamp"]))
                z = _s17().unpack(other_ref, len(v["timestamp"]))
                if (bytes(x.pack()) != other_ref or bytes(y.pack()) != other_ref or bytes(z.pack()) != other_ref or bytes(y.to_space_packet().pack()) != other_ref
                        or h_pure(y, z) != h_expected(v)):
                    bad("another-telemetry/octets", short(bytes(y.pack())), short(other_ref))
                name = None
            elif ev == "setters-on-a-twin":
                # two more telemetry objects with the SAME values (one composed, one decoded) are modified through every setter: this one must not follow
                from spacepackets.ccsds.spacepacket import SequenceFlags

                tw = dict(model, apid=model["apid"] ^ 0x155, seq_flags=model["seq_flags"] ^ 3, source_data=model["source_data"] + b"\x77")
                for twin in (h_twin(m, model), m.PusTm.unpack(h_ref(model), T)):
                    twin.apid, twin.seq_flags, twin.tm_data = tw["apid"], SequenceFlags(tw["seq_flags"]), tw["source_data"]
                    out = bytes(twin.pack())
                    if out != h_ref(tw):
                        bad("twin-telemetry/octets/" + _region(out, h_ref(tw), T), short(out), short(h_ref(tw)))
                name = None
            else:
                field, idx = ev.split("=")
                val = H_SET[field][int(idx)]
                if field == "seq_flags":
                    from spacepackets.ccsds.spacepacket import SequenceFlags

                    o.seq_flags = SequenceFlags(val)
                    model["seq_flags"] = val
                elif field == "tm_data":
                    o.tm_data = val
                    model["source_data"] = val
                else:
                    setattr(o, field, val)
                    model[field] = val
                if crc == "fresh":
                    crc = "stale"
                name = None
        except Exception as e:
            bad("PusTm.%s/exception/%s" % (ev.split("=")[0], type(e).__name__), repr(e), None)
            break
        if name is not None and crc == "fresh" and not state["failed"]:
            c = o.crc16
            if c is None or bytes(c) != ref[-2:]:
                bad(name + "/then/crc16", c, ref[-2:])
        if not state["failed"]:
            pure("PusTm." + ev.split("=")[0] + ("=" if "=" in ev else ""))
    rec.outcome("history-end/ts%d/crc-%s" % (T, crc))


def run_histories(rec: Rec, item):
    depth = item["depth"]
    n = 0
    for idx in itertools.product(range(len(H_EVENTS)), repeat=depth):
        run_history(rec, item["k"], item["T"], item["mode"], [H_EVENTS[i] for i in idx])
        n += 1
    rec.count("histories_depth_%d" % depth, n)
    rec.count("history_events_applied", n * depth)
    rec.count("history_states", sum(len(H_EVENTS) ** d for d in range(depth + 1)))  # distinct (start, prefix) pairs
    rec.sample({"history": {"start_values": {k_: (v.hex() if isinstance(v, bytes) else v) for k_, v in h_start(item["k"], item["T"], item["mode"]).items()},
                            "start_state": item["mode"], "decoder_timestamp_len": item["T"], "events": [H_EVENTS[i] for i in idx], "event_menu": H_EVENTS},
                "expected": "after every event: accessors, packet_len, == fresh object, and every octet string read = ref/pus.py of the values last set"}, limit=1)


# ------------------------------------------------------------------------------ shards
def run_shard(item):
    rec = Rec(PROPERTY, item)
    kind = item["kind"]
    keeper = None
    if kind in KEEP_ROUTES:
        keeper = Keeper(rec, PROPERTY, depth=keep_depth(KEEP_ROUTES[kind], bool(item.get("all_deep")) or kind in ("ts-lengths", "lengths")))
    if kind == "sweep":
        axis = item["axis"]
        n = BITS[axis]
        walk = set(D.walk(n))
        for k in range(item["k"]):
            bg = background(k)
            ts_spec, data_spec = ("stamp", BG_TSLEN[k]), ("hex", BG_DATA[k].hex())
            for v in range(item["lo"], item["hi"]):
                deep = item["all_deep"] or n <= 11 or v % 17 == 0 or v in walk
                check_tm(rec, bg[:axis] + (v,) + bg[axis + 1:], ts_spec, data_spec, nontrivial=not (v == bg[axis] and axis > 0), deep=deep, keeper=keeper)
        rec.count("sweep_values_" + AXES[axis], item["hi"] - item["lo"])
    elif kind == "ts-lengths":
        for k in range(item["k"]):
            for L in item["lens"]:
                for idx in range(len(D.shaped(L))):  # shaped content differs from the 'stamp' content of the sweeps except for L = 0
                    check_tm(rec, background(k), ("shaped", L, idx), ("hex", BG_DATA[k].hex()), nontrivial=not (L == 0 and BG_TSLEN[k] == 0), routes=True, keeper=keeper)
                    rec.count("timestamp_lengths_x_contents")
    elif kind == "ts-bytes":
        k = item["bg"]
        allb = D.all_bytes(2)
        lo, hi = len(allb) * item["part"] // item["parts"], len(allb) * (item["part"] + 1) // item["parts"]
        for t in allb[lo:hi]:
            deep = item["all_deep"] or len(t) <= 1 or (t[0] + t[1]) % 16 == 0
            dup = t in (b"", b"\x00", b"\xff", b"\x55", b"\x00\x00", b"\xff\xff", b"\x00\x01", b"\xff\xfe", b"\x55\xaa")  # shaped(0..2) of ts-lengths, bg 0
            check_tm(rec, background(k), ("hex", t.hex()), ("hex", BG_DATA[k].hex()), nontrivial=not dup, deep=deep, keeper=keeper)
        rec.count("timestamps_len<=2", hi - lo)
    elif kind == "data-bytes":
        k = item["bg"]
        allb = D.all_bytes(2)
        lo, hi = len(allb) * item["part"] // item["parts"], len(allb) * (item["part"] + 1) // item["parts"]
        for d in allb[lo:hi]:
            deep = item["all_deep"] or len(d) <= 1 or (d[0] + d[1]) % 16 == 0
            check_tm(rec, background(k), ("stamp", item["tslen"]), ("hex", d.hex()), nontrivial=not (d == BG_DATA[k] and item["tslen"] == BG_TSLEN[k]), deep=deep, keeper=keeper)
        rec.count("source_data_len<=2", hi - lo)
    elif kind == "lengths":
        T = item["tslen"]
        mx = RP.max_tm_source_data(T)
        for L in LENGTHS + [mx - 1, mx]:
            for idx in range(len(D.shaped(L))):
                # lengths 0..2 under timestamp lengths 0/7 are part of data-bytes (bg 1) when this shard also uses bg 1
                dup = (L <= 2 and item["bg"] == 1 and T in (0, 7)) or (L == 0 and T == 0 and item["bg"] == 0)  # the latter is background 0 itself
                check_tm(rec, background(item["bg"]), ("stamp", T), ("shaped", L, idx), nontrivial=not dup, routes=True, keeper=keeper)
                rec.count("shaped_source_data")
    elif kind == "len-sweep":
        T = item["tslen"]
        mx = RP.max_tm_source_data(T)
        n = 0
        for i, L in enumerate(sweep_lengths(item["tier"])):
            if i % item["parts"] != item["part"] or L > mx:
                continue
            check_tm(rec, background(item["bg"]), ("stamp", T), ("shaped", L, (i + T) % len(D.shaped(L))), nontrivial=L not in LENGTHS, deep=(i % 8 == 0), keeper=keeper)
            n += 1
        rec.count("length_sweep_source_data", n)
    elif kind == "history":
        run_histories(rec, item)
    elif kind == "defaults":
        keeper = Keeper(rec, PROPERTY, depth=6)
        for rnd in range(2):  # the second round shows a default value that the first round's use has changed
            for ctor, names in (("PusTm", OPT_TM), ("Service17Tm", OPT_S17), ("PusTmSecondaryHeader", OPT_HDR)):
                for k in range(4):
                    for mask in range(1 << len(names)):
                        check_defaults(rec, ctor, k, item["T"], mask, rnd, keeper)
                        rec.count("omitted_argument_forms", 1 - rnd)
    elif kind == "ts-limit":
        keeper = Keeper(rec, PROPERTY, depth=keep_depth(True, True))
        for T, L in TS_LIMIT:
            assert L == RP.max_tm_source_data(T)
            for k in range(2):
                check_tm(rec, background(k), ("stamp", T), ("shaped", L, min(2, len(D.shaped(L)) - 1)), routes=True, keeper=keeper)
                rec.count("timestamps_filling_the_packet")
    elif kind == "len-x-edge":
        axis = item["axis"]
        keeper = Keeper(rec, PROPERTY, depth=keep_depth(False, True))
        bg = background(0)
        for T in item["lens"]:
            mx = RP.max_tm_source_data(T)
            for L in LENGTHS + [mx]:
                for idx in (range(len(D.shaped(L))) if L <= 1024 else [2]):  # the largest that fits: incrementing content only
                    for v in D.edge(BITS[axis]):
                        # value 0 of this axis = background 0 itself = a vector of the lengths shard of this timestamp length when that uses bg 0
                        check_tm(rec, bg[:axis] + (v,) + bg[axis + 1:], ("stamp", T), ("shaped", L, idx), nontrivial=v != 0 or (T % 2 == 1 and axis == 0), keeper=keeper)
                        rec.count("length_x_edge_vectors")
    elif kind == "oversize":
        for T in (0, 7, 16):
            for extra in (1, 2, 4096):
                for idx in range(5):
                    check_oversize(rec, T, extra, idx)
        for T, extra in ((65527, 1), (65526, 2), (65528, 1), (65529, 2), (70000, 4474)):  # the timestamp alone (nearly) fills or overflows the packet
            check_oversize(rec, T, extra, 0)
    elif kind == "tuples":
        e = [D.edge(n) for n in BITS]
        for axes in item["axes"]:
            for combo in itertools.product(*[range(8) for _ in axes]):
                f = [0] * 8
                for a, i in zip(axes, combo):
                    f[a] = e[a][i]
                nt = all(f[a] != 0 for a in axes)
                deep0 = item["all_deep"] or sum(combo) % 4 == 0
                for j, L in enumerate(item["lens"]):
                    for di in item["datas"]:
                        check_tm(rec, tuple(f), ("stamp", L), ("hex", PAIR_DATA[di].hex()), nontrivial=nt, deep=deep0 and (item["all_deep"] or (j + di) % 4 == 0),
                                 routes=(j + di) % 2 == 0, keeper=keeper)
                rec.count("edge_%d-tuples" % len(axes))
    elif kind == "quad":
        al = [four(n) for n in BITS]
        for c in itertools.product(range(4), repeat=6):
            idx = (item["i"], item["j"]) + c
            f = tuple(al[a][i] for a, i in enumerate(idx))
            L = (0, 7)[sum(idx) % 2]
            check_tm(rec, f, ("stamp", L), ("hex", QUAD_DATA.hex()), deep=item["all_deep"] or sum(idx) % 4 == 0, routes=True, keeper=keeper)
            rec.count("four_value_product_vectors")
    elif kind == "srv17":
        al = [four(n) for n in S17_BITS]
        n = 0
        for c in itertools.product(range(4), repeat=5):
            idx = (item["i"],) + c
            f = tuple(al[a][i] for a, i in enumerate(idx))
            for L in item["lens"]:
                for di, d in enumerate(S17_DATA):
                    check_srv17(rec, f, ("stamp", L), ("hex", d.hex()), deep=item["all_deep"] or n % 4 == 0, keeper=keeper)
                    n += 1
        rec.count("srv17_vectors", n)
    elif kind == "srv17-walk":
        for axis, nb in enumerate(S17_BITS):
            for k in range(2):
                bg = tuple(D.backgrounds(b, 8)[k] for b in S17_BITS)
                for v in D.full(nb) if nb <= 11 else D.walk(nb):
                    # the background vectors themselves are members of the 4-value product only with S17_DATA; this part uses other data
                    check_srv17(rec, bg[:axis] + (v,) + bg[axis + 1:], ("stamp", (0, 7)[k]), ("hex", "a5"), nontrivial=not (v == bg[axis] and axis > 0), keeper=keeper)
                    rec.count("srv17_walk_vectors")
    elif kind == "range":
        field = item["field"]
        vals = D.out_of_range(MAXV[field], item["n"])
        for name, _ in RANGE_CTORS[field]:
            for v in vals:
                check_range(rec, field, name, v)
        rec.count("out_of_range_" + field, len(vals) * len(RANGE_CTORS[field]))
        rec.sample({"out_of_range": field, "first_values": vals[:3], "count": len(vals), "through": [n for n, _ in RANGE_CTORS[field]], "expected": "not encoded"}, limit=1)
    elif kind == "reject":
        T, total = item["T"], item["total"]
        fill = FILL_HDR + STAMP[:T] + bytes(4)
        tl = tails(T)
        for apid in range(item["apid_lo"], item["apid_hi"]):
            for seq in reject_seqs(item["tier"]):
                pkt = RP.forge_declared_len(total, RP.TM, apid, seq, fill)
                if pkt is None:
                    rec.count("reject_unbuildable_len7")
                    continue
                for t in tl:
                    buf = pkt + t
                    check_reject(rec, buf, total, T, nontrivial=looks_pus_c(buf))
                rec.count("reject_forged_packets")
        rec.sample({"decoder_timestamp_len": T, "forged_packet_declaring_total_len": total, "minimum_valid_len": RP.tm_min_len(T),
                    "octets": (RP.forge_declared_len(total, RP.TM, item["apid_lo"] + 1, 1, fill) or b"").hex(),
                    "followed_by_each_of": [t.hex() for t in tails(T)], "expected": "PusTm.unpack raises"}, limit=1)
    elif kind == "reject-solved":
        T, total = item["T"], item["total"]
        seqs = set(reject_seqs(item["tier"]))
        solver = RP.SeqWordSolver(total - 6)
        if total == 7:
            targets = [0x0020 | tref for tref in range(16)]
        else:
            targets = [(0x20 | tref) << 8 | svc for tref in (D.edge(4) if item["tier"] == "quick" else D.full(4)) for svc in D.edge(8)]
        length_field = (total - 7).to_bytes(2, "big")
        tl = tails(T)
        for apid in range(2048):
            first2 = (0x0800 | apid).to_bytes(2, "big")
            for want in targets:
                w = solver.solve(first2, length_field[: total - 6], want)
                rec.count("reject_solved_words")
                if w >> 14 != RP.UNSEGMENTED:
                    continue
                pkt = RP.forge_declared_len(total, RP.TM, apid, w & 0x3FFF, b"")
                assert pkt is not None and looks_pus_c(pkt), (total, apid, w)
                for t in tl:
                    check_reject(rec, pkt + t, total, T, nontrivial=(w & 0x3FFF) not in seqs)
                rec.count("reject_solved_packets")
    if keeper is not None:
        keeper.flush()
    return rec.result()


def replay(case):
    rec = Rec(PROPERTY, "replay")
    case = unhex(case)
    kind = case["kind"]
    if kind == "tm":
        check_tm(rec, tuple(case["f"]), tuple(case["ts"]), tuple(case["data"]), routes=True, deep=True)
    elif kind == "srv17":
        check_srv17(rec, tuple(case["f"]), tuple(case["ts"]), tuple(case["data"]), deep=True)
    elif kind == "defaults":
        check_defaults(rec, case["ctor"], case["k"], case["T"], case["mask"], case["round"])
    elif kind == "history":
        run_history(rec, case["k"], case["T"], case["mode"], list(case["events"]))
    elif kind == "oversize":
        check_oversize(rec, case["T"], case["extra"], case["idx"])
    elif kind == "range":
        check_range(rec, case["field"], case["ctor"], int(case["v"]))
    elif kind == "reject":
        check_reject(rec, bytes(case["buf"]), case["total"], case["T"], True)
    return rec.result()


def finalize(tier, agg):
    c = agg["counters"]
    return {
        "per_axis_values_swept": {a: "%d/%d" % (c.get("sweep_values_" + a, 0), 1 << n) for a, n in zip(AXES, BITS)},
        "timestamp_lengths": ts_lengths(tier),
        "reject_timestamp_lengths": REJECT_T,
        "backgrounds": _k(tier),
        "deviation_bound": "d=1 full alphabets in K backgrounds; d=2, d=3 over edge alphabets; d=8 over the 4-value alphabets",
        "histories": {"depth": h_depth(tier), "event_menu": H_EVENTS, "start_states": H_MODES, "timestamp_lengths": H_TS[tier],
                      "executed": {"depth_3": c.get("histories_depth_3", 0), "depth_4": c.get("histories_depth_4", 0)}, "states": c.get("history_states", 0),
                      "transitions": c.get("history_events_applied", 0)},
        "independence": {"results_held": c.get("independence_results_held", 0), "reobservations": c.get("independence_reobservations", 0)},
        "observed_outcomes": sorted(agg["outcomes"])[:60],
    }
