"""C17 - USLP primary headers, truncated headers and transfer frames (engine V).
DESIGN.md section 4, C17."""

from __future__ import annotations

import itertools

from checks import c17_hist as H
from mc import domains as D
from mc.alias import Keeper
from mc.alias import receive_buffer, reuse_buffer
from mc.rec import Rec
from ref import uslp as R
from units import uslp as UU

PROPERTY = "C17"
LEVEL = "model_checking"  # bounded-exhaustive enumeration of executions against a reference model (DESIGN.md 1, 2.1)
EXHAUSTIVE = True
RULE = (
    "a case is one of: a primary header field vector (scid, src/dst, vcid, map, frame length, bypass, protocol-command, "
    "OCF flag, VCF length, VCF count) [pack, len, unpack, re-pack, header type]; a truncated header vector; a refused "
    "out-of-range ID through one constructor; a transfer frame (kind fixed/variable/truncated, header, rule, UPID, pointer, "
    "TFDZ, insert zone, OCF, FECF) [pack with explicit and automatic frame type, len, frame-length field, TFDF alone (unpack with "
    "and without frame type, its len and re-pack), unpack with matching managed parameters, len / TFDF len / re-pack / "
    "set_frame_len_in_header of the DECODED frame, and every detectable mismatching parameter set]; a history (see below). "
    "Largest frames: per construction rule the two largest data zones that fit a 65536-octet frame (7-octet header, data field "
    "65529 octets with its own header) as full frame cases, and the next larger one, which the constructor must refuse. "
    "Headers: SCID and frame "
    "length full(16), VCID x MAP x src/dst full, flags full, VCF length 0..7 x walk(8n) x flags, each in K background vectors, "
    "plus the full product of the edge alphabets. A header vector is counted distinct non-trivial the first time its tuple "
    "is produced inside a shard and when no earlier axis sweep (scid, then frame length) contains it; frames, truncated "
    "headers and refusals are disjoint by construction (shard coordinates are part of the case). "
    "Independence: every object the library hands out in a case (constructed and decoded headers, frames, the decoded frame's "
    "header and data field, data fields, and the very bytearray returned by every pack()) is held and re-observed (pure attribute "
    "reads / bytes) after the remaining calls of its case and after all calls of the next case of the enumeration, whose values differ. "
    "Histories: from every start state (constructed through the public constructors with nothing read yet; decoded from the "
    "reference octets) every word up to the depth bound over  mutators (assignment of tfdf.tfdz shorter/longer/same length, "
    "insert_zone, fecf, op_ctrl_field+flag, header VCF count (length), header IDs, header flags, header.frame_len, tfdf.fhp_or_lvop "
    "value, tfdf.uslp_ident, tfdf.tfdz_contr_rules within its class, a new TransferFrameDataField, a new header)  +  observers "
    "(len, pack with explicit / automatic frame type, set_frame_len_in_header, tfdf.len, tfdf.pack, header.pack, header.len) is executed "
    "against a plain-dict model; each observer is compared with ref/uslp.py for the model's current values where it occurs, after the "
    "last letter all observers run once more, the frame length is updated, and the re-encoded frame is decoded with the managed "
    "parameters of the current values. Header histories likewise (one mutator per field, out-of-range assignment of each ID which "
    "pack() must refuse with ValueError until it is assigned in range again, observers pack and len). A history is a distinct "
    "non-trivial case by its word and start state."
)
BOUNDS = {
    "quick": "K=4 backgrounds, N=4096 out-of-range values per side; frames: 8 rules x 32 UPIDs x 19 TFDZ lengths x 3 insert zones x 2 OCF x 3 FECF, "
             "header and pointer kind rotated so that every (header, pointer kind, insert zone, OCF, FECF, TFDZ length) combination occurs; "
             "histories: depth <= 3 (frames: 3+3+2 start states x 2 origins, alphabet 23 fixed / 22 variable / 16 truncated; headers: 4 start vectors x 2 origins, alphabet 15 / 9)",
    "thorough": "K=8, N=65536; frames as quick x all 4 headers, plus pointer full(16) per fixed rule; histories: depth <= 4",
}
ASSUMPTIONS = [
    "reference ref/uslp.py transcribes CCSDS 732.1-B-2 4.1.2 / 4.1.4.2 / annex D; bound to the octets asserted by tests/test_uslp.py in selftest/st_ref_misc.py",
    "truncated frames: truncated header + one-octet TFDF header + TFDZ, variable construction rules only, no OCF (annex D); insert zone and FECF, which the library's managed parameters offer for truncated frames too, are exercised on a reduced product with the same layout as for the other frames",
    "mismatching managed parameters that must be refused are the detectable ones: frame kind flipped, fixed length != frame, truncated frame declared fixed, "
    "variable properties for a fixed call, insert-zone / FECF sizes leaving no data field or less than its header (3 octets for the fixed rules), truncated length beyond the input; a wrong size that still fits is undetectable and not demanded",
    "a raw frame shorter than its own length field (no managed parameter involved) is C10's prefix clause, not judged here",
    "out-of-range IDs include negative integers (DESIGN.md 3.3 alphabet)",
    "an object whose public attributes were assigned is a header / frame with those values (TransferFrame.unpack and PrimaryHeader.unpack build their results by such "
    "assignments, tests/test_uslp.py assigns header attributes and packs again); NOT demanded: a pointer that appears or disappears by assignment "
    "(tfdf.fhp_or_lvop None <-> value: the data-field size is only recomputed by the tfdz setter on the reference tree), a construction rule assigned across the "
    "fixed/variable classes, an OCF whose header flag is not assigned with it",
    "independence is observed between cases adjacent in the enumeration order (a result is re-observed after its own and the next case)",
]

NEGATIVE_IDS = True
TFDZ_LENS = list(range(17)) + [255, 1024]
MAXV = {"scid": 0xFFFF, "vcid": 63, "map_id": 15}
SUFFIX = b"\xee\xee"
TFDF_MAX = 65536 - 7  # largest transfer frame data field (its header included): 16-bit frame length, 7-octet primary header


def _k(tier):
    return 4 if tier == "quick" else 8


def _n(tier):
    return 4096 if tier == "quick" else 65536


def _h():
    import spacepackets.uslp.header as h

    return h


def _f():
    import spacepackets.uslp.frame as f

    return f


# ------------------------------------------------------------------------- shards
def shards(tier):
    k = _k(tier)
    items = []
    for axis in ("scid", "frame_len"):
        for p in range(8):
            items.append({"kind": "hdr_sweep", "axis": axis, "part": p, "parts": 8, "k": k})
    items.append({"kind": "hdr_small", "k": k})
    for p in range(8):
        items.append({"kind": "hdr_edge", "part": p, "parts": 8})
    for p in range(4):
        items.append({"kind": "trunc_hdr", "part": p, "parts": 4, "k": k})
    for field in ("scid", "vcid", "map_id"):
        items.append({"kind": "range", "field": field, "n": _n(tier)})
    hdrs = [None] if tier == "quick" else list(range(len(UU.HDRS)))
    for rule in range(8):
        for p in range(4):
            for hi in hdrs:
                items.append({"kind": "frames", "rule": rule, "part": p, "parts": 4, "hdr": hi})
    for rule in R.VARIABLE_RULES:
        items.append({"kind": "trunc_frames", "rule": rule})
    for rule in range(8):
        items.append({"kind": "big_frames", "rule": rule})
    items.append({"kind": "no_pointer"})
    if tier == "thorough":
        for rule in R.FIXED_RULES:
            for p in range(4):
                items.append({"kind": "pointer_sweep", "rule": rule, "part": p, "parts": 4})
    return items + H.shards(tier)


# ------------------------------------------------------------------ header vectors
FIELDS = ("scid", "src_dest", "vcid", "map_id", "frame_len", "bypass", "prot_cmd", "ocf", "vcf_len", "vcf_count")
BG_VCF_LEN = (0, 7, 2, 5, 1, 6, 3, 4)


def background(i, k):
    """i-th background header vector: the diagonals of the edge alphabets"""
    vl = BG_VCF_LEN[i]
    b16, b6, b4 = D.backgrounds(16, 8), D.backgrounds(6, 8), D.backgrounds(4, 8)
    flags = (0, 1, 0, 1, 1, 0, 1, 0)[i]
    return dict(scid=b16[i], src_dest=flags, vcid=b6[i], map_id=b4[i], frame_len=b16[i], bypass=flags, prot_cmd=flags ^ (i >> 2 & 1),
                ocf=flags, vcf_len=vl, vcf_count=(D.backgrounds(8 * vl, 8) + [0] * 8)[i] if vl else 0)


def vec(r):
    return tuple(r[f] for f in FIELDS)


AXIS_GROUPS = (("scid",), ("frame_len",), ("vcid", "map_id", "src_dest"), ("bypass", "prot_cmd", "ocf", "vcf_len", "vcf_count"))


def in_axis_sweeps(r, bgs, groups=AXIS_GROUPS[:2]):
    """was this vector already produced by an earlier sweep (a background with one axis group replaced)?"""
    for bg in bgs:
        for group in groups:
            if all(r[f] == bg[f] for f in FIELDS if f not in group):
                return True
    return False


# Observers of the independence oracle are pure attribute reads that copy: they must not call pack()/len() themselves,
# a library call made while re-observing could rewrite the very shared state (output buffer, template) whose change
# is being looked for and so mask it.
_obs_hdr = UU.observe_primary_header
_obs_trunc_hdr = UU.observe_truncated_header
_obs_any_hdr = UU.observe_header
_obs_frame = UU.observe_frame
_obs_tfdf = UU.observe_tfdf


HOLDS = {"hdr": 6, "trunc_hdr": 6, "frame": 14}  # results held per case; every result is re-observed after its own and after the next case


def keeper_for(rec, kind):
    return Keeper(rec, PROPERTY, depth=2 * HOLDS[kind])


def check_header(rec: Rec, r: dict, nontrivial=True, keep=None):
    case = {"kind": "hdr", "r": r}
    keep = keep or keeper_for(rec, "hdr")
    try:
        _check_header(rec, r, case, nontrivial, keep)
    finally:
        keep.recheck(case)


def _check_header(rec, r, case, nontrivial, keep):
    h = _h()
    rec.case(nontrivial, ops=9)
    ref = UU.UNITS["UslpPrimaryHeader"].ref(r)
    exp = UU.expected_primary_header(r)
    repro = f"PrimaryHeader({', '.join(f'{k}={r[k]:#x}' for k in FIELDS)})  # pack() expected {ref.hex()}; see checks/c17.py check_header"

    def bad(kind, observed, expected):
        rec.violation("C17.header/" + kind, case, observed, expected, repro=repro)

    try:
        hd = UU.build_primary_header(r)
        out = hd.pack()
        got = bytes(out)
    except Exception as e:
        return bad("PrimaryHeader.pack/exception/" + type(e).__name__, repr(e), ref)
    keep.hold("PrimaryHeader()", hd, _obs_hdr, case)
    keep.hold("PrimaryHeader.pack", out, bytes, case)
    if got != ref:
        return bad("PrimaryHeader.pack/octets/" + ("fixed-part" if got[:7] != ref[:7] else "vcf-count"), got, ref)
    if hd.len() != len(ref) or hd.truncated():
        bad("PrimaryHeader.len", (hd.len(), hd.truncated()), (len(ref), False))
    for name, raw in (("exact", ref), ("followed-by-data", ref + SUFFIX)):
        try:
            rb = receive_buffer(raw) if name != "exact" else raw
            u = h.PrimaryHeader.unpack(rb)
            if name != "exact":
                reuse_buffer(rb)
        except Exception as e:
            return bad(f"PrimaryHeader.unpack/exception/{type(e).__name__}", {"input": name, "error": repr(e)}, exp)
        obs = UU.observe_primary_header(u)
        if obs != exp:
            return bad("PrimaryHeader.unpack/fields/" + ("vcf-count" if obs[:-1] == exp[:-1] else "fixed-part"), obs, exp)
        keep.hold("PrimaryHeader.unpack", u, _obs_hdr, case)
        if u.len() != len(ref):
            bad("PrimaryHeader.unpack/len", u.len(), len(ref))
    try:
        out2 = u.pack()
        again = bytes(out2)
        keep.hold("PrimaryHeader.pack", out2, bytes, case)
        if again != ref:
            bad("unpack-then-pack/octets", again, ref)
    except Exception as e:
        bad("unpack-then-pack/exception/" + type(e).__name__, repr(e), ref)
    if h.determine_header_type(ref) != h.HeaderType.NON_TRUNCATED:
        bad("determine_header_type", repr(h.determine_header_type(ref)), "NON_TRUNCATED")


def check_trunc_header(rec: Rec, r: dict, nontrivial=True, keep=None):
    case = {"kind": "trunc_hdr", "r": r}
    keep = keep or keeper_for(rec, "trunc_hdr")
    try:
        _check_trunc_header(rec, r, case, nontrivial, keep)
    finally:
        keep.recheck(case)


def _check_trunc_header(rec, r, case, nontrivial, keep):
    h = _h()
    rec.case(nontrivial, ops=7)
    ref = R.truncated_header(r["scid"], r["src_dest"], r["vcid"], r["map_id"])
    exp = UU.expected_truncated_header(r)

    def bad(kind, observed, expected):
        rec.violation("C17.truncated-header/" + kind, case, observed, expected,
                      repro=f"TruncatedPrimaryHeader(scid={r['scid']:#x}, src_dest={r['src_dest']}, vcid={r['vcid']:#x}, map_id={r['map_id']:#x})  # pack() expected {ref.hex()}")

    try:
        hd = UU.build_truncated_header(r)
        out = hd.pack()
        got = bytes(out)
    except Exception as e:
        return bad("TruncatedPrimaryHeader.pack/exception/" + type(e).__name__, repr(e), ref)
    keep.hold("TruncatedPrimaryHeader()", hd, _obs_trunc_hdr, case)
    keep.hold("TruncatedPrimaryHeader.pack", out, bytes, case)
    if got != ref:
        return bad("TruncatedPrimaryHeader.pack/octets", got, ref)
    if hd.len() != 4 or not hd.truncated():
        bad("TruncatedPrimaryHeader.len", (hd.len(), hd.truncated()), (4, True))
    for raw in (ref, ref + SUFFIX):
        try:
            u = h.TruncatedPrimaryHeader.unpack(raw)
        except Exception as e:
            return bad("TruncatedPrimaryHeader.unpack/exception/" + type(e).__name__, repr(e), exp)
        if UU.observe_truncated_header(u) != exp:
            return bad("TruncatedPrimaryHeader.unpack/fields", UU.observe_truncated_header(u), exp)
        keep.hold("TruncatedPrimaryHeader.unpack", u, _obs_trunc_hdr, case)
    out2 = u.pack()
    keep.hold("TruncatedPrimaryHeader.pack", out2, bytes, case)
    if bytes(out2) != ref or u.len() != 4:
        bad("unpack-then-pack/octets", bytes(out2), ref)
    if h.determine_header_type(ref) != h.HeaderType.TRUNCATED:
        bad("determine_header_type", repr(h.determine_header_type(ref)), "TRUNCATED")


RANGE_CTORS = ["PrimaryHeader", "PrimaryHeader(all-ones)", "TruncatedPrimaryHeader"]


def check_range(rec: Rec, field, ctor, v):
    h = _h()
    case = {"kind": "range", "field": field, "ctor": ctor, "v": str(v)}
    rec.case(True, ops=1)
    ids = dict(scid=0, vcid=0, map_id=0) if ctor != "PrimaryHeader(all-ones)" else dict(scid=0xFFFF, vcid=63, map_id=15)
    ids[field] = v
    side = "negative" if v < 0 else "too-large"
    repro = f"{ctor.split('(')[0]}(scid={ids['scid']}, vcid={ids['vcid']}, map_id={ids['map_id']}, ...).pack()  # expected ValueError"
    try:
        if ctor == "TruncatedPrimaryHeader":
            raw = h.TruncatedPrimaryHeader(scid=ids["scid"], src_dest=h.SourceOrDestField.DEST, vcid=ids["vcid"], map_id=ids["map_id"]).pack()
        else:
            raw = h.PrimaryHeader(scid=ids["scid"], src_dest=h.SourceOrDestField.SOURCE, vcid=ids["vcid"], map_id=ids["map_id"], frame_len=0x0102,
                                  bypass_seq_ctrl_flag=h.BypassSequenceControlFlag.SEQ_CTRLD_QOS, prot_ctrl_cmd_flag=h.ProtocolCommandFlag.USER_DATA,
                                  op_ctrl_flag=False).pack()
    except ValueError:
        rec.outcome(f"refused:{field}:{side}")
        return
    except Exception as e:
        rec.violation(f"C17.refuse/{field}/wrong-exception/{type(e).__name__}/{side}", case, repr(e), "ValueError", repro=repro)
        return
    rec.violation(f"C17.refuse/{field}/accepted/{side}", case, bytes(raw), "ValueError", repro=repro)


# -------------------------------------------------------------------------- frames
def mismatches(r, fk, n):
    """Detectable mismatching managed-parameter sets for the frame of recipe r whose packed
    length is n.  Each entry: (kind, frame_type 'fixed'/'var', properties kind, kwargs)."""
    tfdz, iz, ocf, fecf = UU.frame_parts(r)
    izl, fl = (len(iz) if iz is not None else None), (len(fecf) if fecf is not None else None)
    base = dict(has_insert_zone=iz is not None, has_fecf=fecf is not None, insert_zone_len=izl, fecf_len=fl)
    tfdf_len = len(tfdz) + (3 if fk == "fixed" else 1)
    min_tfdf = 3 if fk == "fixed" else 1
    out = []
    if fk == "fixed":
        out.append(("frame-kind-flipped", "var", "var", dict(base, truncated_frame_len=n)))
        for d in (-2, -1, 1, 2, 100):
            if n + d > 0:
                out.append(("fixed-length-differs", "fixed", "fixed", dict(base, fixed_len=n + d)))
        out.append(("variable-properties-for-fixed-call", "fixed", "var", dict(base, truncated_frame_len=n)))
    elif fk == "var":
        out.append(("frame-kind-flipped", "fixed", "fixed", dict(base, fixed_len=n)))
        out.append(("variable-properties-for-fixed-call", "fixed", "var", dict(base, truncated_frame_len=n)))
    else:
        out.append(("truncated-frame-declared-fixed", "fixed", "fixed", dict(base, fixed_len=n)))
        for d in (1, 2, 100):
            out.append(("truncated-length-beyond-input", "var", "var", dict(base, truncated_frame_len=n + d)))
    # insert zone / FECF sizes that leave less than a data-field header
    ft = "fixed" if fk == "fixed" else "var"
    own = dict(fixed_len=n) if fk == "fixed" else dict(truncated_frame_len=n)
    for room in list(range(min_tfdf - 1, -2, -1)) + [-1000]:  # octets left for the data field after the declared sizes
        kind = "no-room-for-data-field" if room <= 0 else "data-field-shorter-than-its-header"
        out.append((kind, ft, ft, dict(base, has_insert_zone=True, insert_zone_len=(izl or 0) + tfdf_len - room, **own)))
        out.append((kind, ft, ft, dict(base, has_fecf=True, fecf_len=(fl or 0) + tfdf_len - room, **own)))
    return out


def make_props(pk, kw):
    f = _f()
    kw = dict(kw)
    if pk == "fixed":
        return f.FixedFrameProperties(fixed_len=kw.pop("fixed_len"), **kw)
    return f.VarFrameProperties(truncated_frame_len=kw.pop("truncated_frame_len"), **kw)


def check_frame(rec: Rec, r: dict, fk: str, nontrivial=True, keep=None):
    case = {"kind": "frame", "fk": fk, "r": r}
    keep = keep or keeper_for(rec, "frame")
    try:
        _check_frame(rec, r, fk, case, nontrivial, keep)
    finally:
        keep.recheck(case)


def _check_frame(rec, r, fk, case, nontrivial, keep):
    f = _f()
    trunc = fk == "trunc"
    ref = UU.ref_frame(r, trunc)
    exp = UU.expected_frame(r, trunc)
    n = len(ref)
    mm = mismatches(r, fk, n)
    rec.case(nontrivial, ops=17 + len(mm))
    ft = f.FrameType.FIXED if fk == "fixed" else f.FrameType.VARIABLE
    repro = f"units.uslp.build_frame({r!r}, truncated={trunc})  # pack expected {ref.hex() if n <= 64 else ref[:64].hex() + '..'}; see checks/c17.py check_frame"

    def bad(kind, observed, expected):
        rec.violation(f"C17.frame/{kind}/{fk}", case, observed, expected, repro=repro)

    try:
        fr = UU.build_frame(r, trunc)
    except Exception as e:
        return bad("TransferFrame/constructor-exception/" + type(e).__name__, repr(e), None)
    keep.hold("TransferFrame()", fr, _obs_frame, case)
    packs = [("pack(truncated=True)", dict(truncated=True)), ("pack(truncated=True,VARIABLE)", dict(truncated=True, frame_type=ft))] if trunc else \
        [("pack(frame_type)", dict(frame_type=ft)), ("pack()", dict())]
    for name, kw in packs:
        try:
            out = fr.pack(**kw)
            got = bytes(out)
        except Exception as e:
            return bad(f"TransferFrame.pack/exception/{type(e).__name__}", {"call": name, "error": repr(e)}, ref)
        keep.hold("TransferFrame.pack", out, bytes, case)
        if got != ref:
            return bad("TransferFrame.pack/octets", {"call": name, "octets": got}, ref)
    if fr.len() != n:
        bad("TransferFrame.len", fr.len(), n)
    if not trunc and (fr.header.frame_len != n - 1 or (ref[4] << 8 | ref[5]) != n - 1):
        bad("TransferFrame.set_frame_len_in_header", fr.header.frame_len, n - 1)
    # the data field on its own
    tfdz, iz, ocf, fecf = UU.frame_parts(r)
    tref = R.tfdf_header(r["rule"], r["upid"], None if trunc else r.get("ptr")) + tfdz
    texp = ("tfdf", r["rule"], r["upid"], None if trunc else r.get("ptr"), tfdz)
    try:
        tf = UU.build_tfdf(r)
        keep.hold("TransferFrameDataField()", tf, _obs_tfdf, case)
        tout = tf.pack(truncated=trunc, frame_type=ft)
        tgot = bytes(tout)
        keep.hold("TransferFrameDataField.pack", tout, bytes, case)
        if tgot != tref:
            bad("TransferFrameDataField.pack/octets", tgot, tref)
        if not trunc and tf.len() != len(tref):
            bad("TransferFrameDataField.len", tf.len(), len(tref))
        if tf.should_have_fhp_or_lvp_field(truncated=trunc, frame_type=ft) != (fk == "fixed") or not tf.verify_frame_type(ft):
            bad("TransferFrameDataField.should_have_fhp_or_lvp_field", None, fk == "fixed")
        # frame_type=None: the construction rule alone tells whether the pointer is there (not for truncated frames,
        # whose caller says truncated=True)
        for tname, tft in (("frame_type", ft), ("frame_type=None", None)):
            tu = f.TransferFrameDataField.unpack(raw_tfdf=tref + SUFFIX, truncated=trunc, exact_len=len(tref), frame_type=tft)
            if UU.observe_tfdf(tu) != texp:
                bad("TransferFrameDataField.unpack/fields", {"call": tname, "decoded": UU.observe_tfdf(tu)}, texp)
            elif tu.len() != len(tref) or bytes(tu.pack(truncated=trunc, frame_type=ft)) != tref:
                bad("TransferFrameDataField.unpack/len-or-repack", {"call": tname, "len": tu.len(), "pack": bytes(tu.pack(truncated=trunc, frame_type=ft))}, (len(tref), tref))
            keep.hold("TransferFrameDataField.unpack", tu, _obs_tfdf, case)
    except Exception as e:
        bad("TransferFrameDataField/exception/" + type(e).__name__, repr(e), tref)
    # matching managed parameters
    try:
        ftype, props = UU.matching_properties(r, fk, n)
        rb = receive_buffer(ref)
        u = f.TransferFrame.unpack(raw_frame=rb, frame_type=ftype, frame_properties=props)
        reuse_buffer(rb)  # the caller re-uses its receive buffer: the decoded frame must not change
    except Exception as e:
        return bad("TransferFrame.unpack/exception/" + type(e).__name__, repr(e), exp)
    obs = UU.observe_frame(u)
    if obs != exp:
        part = next((i for i, (a, b) in enumerate(zip(obs, exp)) if a != b), 0)
        return bad("TransferFrame.unpack/fields/" + ("?", "header", "insert-zone", "tfdf", "ocf", "fecf")[part], obs, exp)
    rec.outcome(f"frame-ok:{fk}:iz={len(iz) if iz else 0}:ocf={int(ocf is not None)}:fecf={len(fecf) if fecf else 0}")
    try:
        # a decoded frame is a frame like any other: length, data-field length, frame-length update, re-pack
        if u.len() != n:
            bad("TransferFrame.unpack/len", u.len(), n)
        if u.tfdf.len() != len(tref):
            bad("TransferFrame.unpack/tfdf.len", u.tfdf.len(), len(tref))
        out = u.pack(truncated=True) if trunc else u.pack(frame_type=ft)
        again = bytes(out)
        keep.hold("TransferFrame.pack", out, bytes, case)
        if again != ref:
            bad("unpack-then-pack/octets", again, ref)
        if not trunc:
            u.header.frame_len = 0
            u.set_frame_len_in_header()
            if u.header.frame_len != n - 1:
                bad("TransferFrame.unpack/set_frame_len_in_header", u.header.frame_len, n - 1)
            elif bytes(u.pack(frame_type=ft)) != ref:
                bad("unpack-then-pack/octets", bytes(u.pack(frame_type=ft)), ref)
    except Exception as e:
        bad("unpack-then-pack/exception/" + type(e).__name__, repr(e), ref)
    # held from here on (after the check's own frame-length update): the later calls of this case and of the next one must not change them
    keep.hold("TransferFrame.unpack", u, _obs_frame, case)
    keep.hold("TransferFrame.unpack.header", u.header, _obs_any_hdr, case)
    keep.hold("TransferFrame.unpack.tfdf", u.tfdf, _obs_tfdf, case)
    # mismatching managed parameters
    allowed = (ValueError,) + UU.uslp_errors()
    for kind, ftk, pk, kw in mm:
        try:
            props = make_props(pk, kw)
            got = f.TransferFrame.unpack(raw_frame=ref, frame_type=f.FrameType.FIXED if ftk == "fixed" else f.FrameType.VARIABLE, frame_properties=props)
        except allowed as e:
            rec.outcome(f"mismatch:{kind}:{type(e).__name__}")
            continue
        except Exception as e:  # one signature per mismatch kind: accepted or answered with a foreign exception, the witness says which
            rec.violation(f"C17.mismatch/TransferFrame.unpack/not-refused/{kind}/{fk}", case, {"parameters": kw, "frame_type": ftk, "outcome": "foreign exception", "error": repr(e)},
                          "one of the Uslp* errors or ValueError", repro=repro)
            continue
        rec.violation(f"C17.mismatch/TransferFrame.unpack/not-refused/{kind}/{fk}", case, {"parameters": kw, "frame_type": ftk, "outcome": "accepted", "decoded": UU.observe_frame(got)},
                      "one of the Uslp* errors or ValueError", repro=repro)


    # managed parameters that say the same thing differently: a zone that is switched OFF may still have its length
    # configured (a mission table keeps the lengths and toggles the flags) - flag False means absent, whatever the length
    base_kw = dict(has_insert_zone=iz is not None, insert_zone_len=len(iz) if iz is not None else None,
                   has_fecf=fecf is not None, fecf_len=len(fecf) if fecf is not None else None)
    own_kw = dict(fixed_len=n) if fk == "fixed" else dict(truncated_frame_len=n if trunc else 12)
    alts = []
    if iz is None:
        alts.append(dict(base_kw, insert_zone_len=4))
    if fecf is None:
        alts.append(dict(base_kw, fecf_len=2))
    if iz is None and fecf is None:
        alts.append(dict(base_kw, insert_zone_len=1, fecf_len=4))
    for kw in alts:
        try:
            props = make_props("fixed" if fk == "fixed" else "var", dict(kw, **own_kw))
        except (ValueError, TypeError):
            rec.outcome("equivalent-parameters:not-constructible")  # a constructor that refuses the combination makes no wrong promise
            continue
        try:
            got = f.TransferFrame.unpack(raw_frame=ref, frame_type=ftype, frame_properties=props)
            gobs = UU.observe_frame(got)
        except Exception as e:
            bad("TransferFrame.unpack/zone-switched-off-with-length-configured/exception/" + type(e).__name__, {"parameters": kw, "error": repr(e)}, exp)
            continue
        if gobs != exp:
            bad("TransferFrame.unpack/zone-switched-off-with-length-configured/fields", {"parameters": kw, "decoded": gobs}, exp)
    # a wrong fixed length must also be refused when the receive buffer is long enough to hold it (frames back to back)
    if fk == "fixed":
        for wrong in (n + 1, n + 2, n + 7, 2 * n):
            try:
                props = make_props("fixed", dict(base_kw, fixed_len=wrong))
                got = f.TransferFrame.unpack(raw_frame=ref + ref, frame_type=f.FrameType.FIXED, frame_properties=props)
            except allowed as e:
                rec.outcome(f"mismatch:fixed-length-too-large/long-buffer:{type(e).__name__}")
                continue
            except Exception as e:
                rec.violation(f"C17.mismatch/TransferFrame.unpack/not-refused/fixed-length-too-large-with-long-buffer/{fk}", case,
                              {"fixed_len": wrong, "frame": n, "buffer": 2 * n, "outcome": "foreign exception", "error": repr(e)}, "one of the Uslp* errors or ValueError", repro=repro)
                continue
            rec.violation(f"C17.mismatch/TransferFrame.unpack/not-refused/fixed-length-too-large-with-long-buffer/{fk}", case,
                          {"fixed_len": wrong, "frame": n, "buffer": 2 * n, "outcome": "accepted", "decoded": UU.observe_frame(got)}, "one of the Uslp* errors or ValueError", repro=repro)


PTR_KINDS = 4


def frame_recipes(rule, hdr_index, tier_all_hdrs):
    """rule x UPID full(5) x TFDZ lengths x insert zone x OCF x FECF; header and pointer rotate
    (or the header is fixed to hdr_index in the thorough tier).  With j the index of (UPID, TFDZ length)
    and c the index of (insert zone, OCF, FECF): header (j + c) mod 4, pointer kind (j div 4 + c) mod 4,
    so that for every c and every TFDZ length all 16 (header, pointer kind) pairs occur (j runs through
    every residue mod 16 for a fixed length because 19 is a unit mod 16), and consecutive cases differ
    in header, pointer, FECF and length."""
    j = 0
    for upid in range(32):
        for n in TFDZ_LENS:
            c = 0
            for iz in UU.IZS:
                for ocf in UU.OCFS:
                    for fecf in UU.FECFS:
                        hdr = UU.HDRS[hdr_index] if tier_all_hdrs else UU.HDRS[(j + c) % len(UU.HDRS)]
                        ptr = (0, 0xFFFF, 0x0102, max(n - 1, 0))[(j // 4 + c) % PTR_KINDS] if rule in R.FIXED_RULES else None
                        yield upid, UU.frame_recipe(hdr, rule, upid, ptr, UU.tfdz_pattern(n, j * 18 + c), iz, ocf, fecf)
                        c += 1
            j += 1


TRUNC_HDRS = [dict(scid=12, src_dest=0, vcid=5, map_id=12), dict(scid=0xFFFF, src_dest=1, vcid=63, map_id=15),
              dict(scid=0xA5A5, src_dest=1, vcid=0x2A, map_id=5), dict(scid=0, src_dest=0, vcid=0, map_id=0)]


def check_no_pointer(rec, rule, n, hi):
    """a fixed-length construction rule without its pointer: the library documents the refusal (UslpFhpVhopFieldMissing); whatever
    it does instead, "its length equals the packed size" still binds - octets that come back must be as long as len() says"""
    f = _f()
    case = {"kind": "noptr", "rule": rule, "n": n, "hdr": hi}
    rec.case(True, ops=4)
    r = UU.frame_recipe(UU.HDRS[hi], rule, 7, None, UU.tfdz_pattern(n, rule), None, None, None)
    try:
        tf = UU.build_tfdf(r)
        fr = UU.build_frame(r)
    except Exception as e:
        if isinstance(e, (ValueError,) + UU.uslp_errors()):
            return rec.outcome("no-pointer:refused-at-construction")
        raise
    for name, call, want in (("TransferFrameDataField.pack(FIXED)", lambda: tf.pack(frame_type=f.FrameType.FIXED), lambda: tf.len()),
                             ("TransferFrameDataField.pack()", lambda: tf.pack(), lambda: tf.len()),
                             ("TransferFrame.pack(FIXED)", lambda: fr.pack(frame_type=f.FrameType.FIXED), lambda: fr.len()),
                             ("TransferFrame.pack()", lambda: fr.pack(), lambda: fr.len())):
        try:
            out = bytes(call())
        except Exception as e:
            if isinstance(e, (ValueError,) + UU.uslp_errors()):
                rec.outcome("no-pointer:pack-refused:" + type(e).__name__)
                continue
            raise
        if len(out) != want():
            rec.violation(f"C17.frame/missing-pointer/{name.split('(')[0]}/packed-size-differs-from-len", case, {"call": name, "len()": want(), "packed": out[:24]}, want())
        else:
            rec.outcome("no-pointer:packed-consistently")


def check_oversize(rec, rule):
    fixed = rule in R.FIXED_RULES
    n = TFDF_MAX - (3 if fixed else 1) + 1
    hdr0 = next(h for h in UU.HDRS if h["vcf_len"] == 0)
    r = UU.frame_recipe(hdr0, rule, 5 + rule, 0x0102 if fixed else None, UU.tfdz_pattern(n, rule), None, None, None)
    case = {"kind": "big", "rule": rule, "tfdz_len": n}
    rec.case(True, ops=1)
    try:
        UU.build_tfdf(r)
    except ValueError:
        rec.outcome("oversize-data-zone-refused")
    except Exception as e:
        rec.violation(f"C17.range/TransferFrameDataField/oversize-wrong-exception/{type(e).__name__}", case, repr(e), "ValueError")
    else:
        rec.violation("C17.range/TransferFrameDataField/oversize-data-zone-accepted", case, n, "ValueError")


# ---------------------------------------------------------------------- run_shard
def run_shard(item):
    rec = Rec(PROPERTY, item)
    kind = item["kind"]
    if kind == "hist":
        H.run_hist_shard(rec, item)
        return rec.result()
    seen = set()
    # independence oracle: one keeper per shard, every result of a case is re-observed after the case and after the next one
    keep = keeper_for(rec, "hdr" if kind.startswith("hdr") else "trunc_hdr" if kind == "trunc_hdr" else "frame")

    def hdr_case(r, earlier=False):
        v = vec(r)
        dup = earlier or v in seen
        seen.add(v)
        check_header(rec, r, nontrivial=not dup, keep=keep)

    if kind == "hdr_sweep":
        axis, k = item["axis"], item["k"]
        bgs = [background(i, k) for i in range(k)]
        lo, hi = 65536 * item["part"] // item["parts"], 65536 * (item["part"] + 1) // item["parts"]
        for v in range(lo, hi):
            for bg in bgs:
                # the frame-length sweep repeats a vector of the SCID sweep when v is that background's own frame length
                hdr_case(dict(bg, **{axis: v}), earlier=(axis == "frame_len" and v == bg["frame_len"]))
        rec.count(f"{axis}_values_swept", hi - lo)
        if item["part"] == 5:
            r = dict(bgs[2], **{axis: 0xA5A5})
            rec.sample({"header": r, "octets": UU.UNITS["UslpPrimaryHeader"].ref(r)}, limit=1)
    elif kind == "hdr_small":
        k = item["k"]
        bgs = [background(i, k) for i in range(k)]
        n = 0
        for bg in bgs:
            for vcid, mapid, sd in itertools.product(D.full(6), D.full(4), (0, 1)):
                r = dict(bg, vcid=vcid, map_id=mapid, src_dest=sd)
                hdr_case(r, earlier=in_axis_sweeps(r, bgs))
                n += 1
            for byp, pcc, ocf in itertools.product((0, 1), repeat=3):
                for vl in range(8):
                    for vc in (D.walk(8 * vl) if vl else [0]):
                        r = dict(bg, bypass=byp, prot_cmd=pcc, ocf=ocf, vcf_len=vl, vcf_count=vc)
                        hdr_case(r, earlier=in_axis_sweeps(r, bgs))
                        n += 1
        rec.count("vcid_map_flags_vcf_vectors", n)
        r = dict(bgs[0], vcf_len=3, vcf_count=0xAFFEFE, scid=0xFFFE)
        rec.sample({"header": r, "octets": UU.UNITS["UslpPrimaryHeader"].ref(r)}, limit=1)
    elif kind == "hdr_edge":
        scids = D.chunks(D.edge(16), item["parts"])[item["part"]]
        bgs = [background(i, 8) for i in range(8)]
        n = 0
        for scid, sd, vcid, mapid, flen, flags, vl in itertools.product(scids, (0, 1), D.edge(6), D.edge(4), D.edge(16), range(8), (0, 1, 3, 4, 7)):
            vc = (0, (1 << (8 * vl)) - 1, D.alt(8 * vl, True) if vl else 0)[(flags + vl) % 3] if vl else 0
            r = dict(scid=scid, src_dest=sd, vcid=vcid, map_id=mapid, frame_len=flen, bypass=flags >> 2, prot_cmd=(flags >> 1) & 1, ocf=flags & 1,
                     vcf_len=vl, vcf_count=vc)
            hdr_case(r, earlier=in_axis_sweeps(r, bgs, AXIS_GROUPS))  # against all 8 backgrounds: may under-count, never over-count
            n += 1
        rec.count("edge_product_headers", n)
    elif kind == "trunc_hdr":
        k = item["k"]
        lo, hi = 65536 * item["part"] // item["parts"], 65536 * (item["part"] + 1) // item["parts"]
        b6, b4 = D.backgrounds(6, k), D.backgrounds(4, k)
        n = 0
        for scid in range(lo, hi):
            for i in range(k):
                check_trunc_header(rec, dict(scid=scid, src_dest=i & 1, vcid=b6[i], map_id=b4[i]), keep=keep)
                n += 1
        if item["part"] == 0:
            for scid in D.edge(16):
                for vcid, mapid, sd in itertools.product(D.full(6), D.full(4), (0, 1)):
                    dup = scid in range(lo, hi) and any((sd, vcid, mapid) == (i & 1, b6[i], b4[i]) for i in range(k))
                    check_trunc_header(rec, dict(scid=scid, src_dest=sd, vcid=vcid, map_id=mapid), nontrivial=not dup, keep=keep)
                    n += 1
            r = dict(scid=0x1111, src_dest=1, vcid=0b101101, map_id=0b1101)
            rec.sample({"truncated_header": r, "octets": R.truncated_header(0x1111, 1, 0b101101, 0b1101)}, limit=1)
        rec.count("truncated_headers", n)
    elif kind == "range":
        field = item["field"]
        vals = [v for v in D.out_of_range(MAXV[field], item["n"]) if NEGATIVE_IDS or v >= 0]
        for ctor in RANGE_CTORS:
            for v in vals:
                check_range(rec, field, ctor, v)
        rec.count(f"out_of_range_{field}", len(vals) * len(RANGE_CTORS))
    elif kind == "frames":
        rule = item["rule"]
        fk = "fixed" if rule in R.FIXED_RULES else "var"
        lo, hi = 32 * item["part"] // item["parts"], 32 * (item["part"] + 1) // item["parts"]
        n = 0
        for upid, r in frame_recipes(rule, item["hdr"] or 0, item["hdr"] is not None):
            if lo <= upid < hi:
                check_frame(rec, r, fk, keep=keep)
                n += 1
                if n == 700 and rule in (1, 6):
                    rec.sample({"frame": r, "kind": fk, "octets": UU.ref_frame(r)}, limit=1)
        rec.count(f"frames_{fk}", n)
    elif kind == "big_frames":
        # the largest frames: the 16-bit frame-length field allows 65536 octets, i.e. with the 7-octet header a data field of
        # 65529 octets including its own 1- or 3-octet header; the two largest data zones that fit must be built, packed and
        # decoded like any other, the next larger one cannot be expressed and must be refused by the constructor
        rule = item["rule"]
        fixed = rule in R.FIXED_RULES
        hlen = 3 if fixed else 1
        hdr0 = next(h for h in UU.HDRS if h["vcf_len"] == 0)
        for n in (TFDF_MAX - hlen - 1, TFDF_MAX - hlen):
            r = UU.frame_recipe(hdr0, rule, 5 + rule, 0x0102 if fixed else None, UU.tfdz_pattern(n, rule), None, None, None)
            check_frame(rec, r, "fixed" if fixed else "var", keep=keep)
            rec.count("largest_frames")
        check_oversize(rec, rule)
    elif kind == "no_pointer":
        for rule in R.FIXED_RULES:
            for n in (0, 1, 5, 16):
                for hi in range(len(UU.HDRS)):
                    check_no_pointer(rec, rule, n, hi)
    elif kind == "trunc_frames":
        rule = item["rule"]
        n = 0
        for upid in range(32):
            for ln in TFDZ_LENS:
                r = UU.frame_recipe(TRUNC_HDRS[n % 4], rule, upid, None, UU.tfdz_pattern(ln, n), None, None, None)
                check_frame(rec, r, "trunc", keep=keep)
                n += 1
        rec.count("frames_trunc", n)
        # the library also offers insert zone and FECF for truncated frames (managed parameters has_insert_zone / has_fecf
        # with truncated_frame_len): layout header, insert zone, data field, FECF as for the other frames
        m = 0
        for upid in (0, 31):
            for ln in (0, 1, 5, 16):
                for iz in UU.IZS:
                    for fecf in UU.FECFS:
                        if iz is None and fecf is None:
                            continue
                        r = UU.frame_recipe(TRUNC_HDRS[m % 4], rule, upid, None, UU.tfdz_pattern(ln, m), iz, None, fecf)
                        check_frame(rec, r, "trunc", keep=keep)
                        m += 1
        rec.count("frames_trunc_with_insert_zone_or_fecf", m)
    elif kind == "pointer_sweep":
        rule = item["rule"]
        lo, hi = 65536 * item["part"] // item["parts"], 65536 * (item["part"] + 1) // item["parts"]
        for ptr in range(lo, hi):
            check_frame(rec, UU.frame_recipe(UU.HDRS[ptr % 4], rule, ptr & 31, ptr, UU.tfdz_pattern(ptr % 5, ptr), UU.IZS[ptr % 3], UU.OCFS[ptr % 2], UU.FECFS[(ptr // 3) % 3]), "fixed",
                        nontrivial=ptr not in (0, 0xFFFF, 0x0102), keep=keep)
        rec.count("pointer_values_swept", hi - lo)
    keep.flush()
    # engine V shards: a distinct case is a state, a compared library operation a transition, an executed case a trace
    rec.states, rec.transitions, rec.traces = rec.nontrivial, rec.ops, rec.evaluations
    return rec.result()


# ------------------------------------------------------------------------- replay
def replay(case):
    rec = Rec(PROPERTY, "replay")
    k = case["kind"]
    if k == "hdr":
        check_header(rec, case["r"])
    elif k == "trunc_hdr":
        check_trunc_header(rec, case["r"])
    elif k == "range":
        check_range(rec, case["field"], case["ctor"], int(case["v"]))
    elif k == "frame":
        check_frame(rec, case["r"], case["fk"])
    elif k == "big":
        check_oversize(rec, case["rule"])
    elif k == "noptr":
        check_no_pointer(rec, case["rule"], case["n"], case["hdr"])
    elif k == "hist":
        H.replay_hist(rec, case)
    return rec.result()


def finalize(tier, agg):
    c = agg["counters"]
    return {"per_axis_coverage": {"scid": f"{c.get('scid_values_swept', 0)}/65536", "frame_len": f"{c.get('frame_len_values_swept', 0)}/65536",
                                  "vcid x map x src_dest": "2048/2048 per background", "vcf_count_len": "0..7 x walk(8n) x 8 flag settings"},
            "frames": {k: c.get(k, 0) for k in ("frames_fixed", "frames_var", "frames_trunc")},
            "independence": {"results_held": c.get("independence_results_held", 0), "reobservations": c.get("independence_reobservations", 0)},
            "histories": {k: v for k, v in sorted(c.items()) if "histories" in k or k == "history_model_states"}}
