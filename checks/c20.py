"""C20 - unsigned byte fields and the integer/octet helpers (engine V; engine H for the value
setter: depth-2 histories of the setter alone, observer-interleaved histories from every entry
point, and the independence histories build / re-assign / build again).  DESIGN.md section 4, C20."""

from __future__ import annotations

import itertools

from mc import domains as D
from mc.alias import Keeper
from mc.rec import Rec, unhex

import builtins

_REC = None  # the recorder of the running shard / replay (for the hash wrapper below)


def hash(x):  # noqa: A001 - deliberately shadows the builtin inside this module
    """hash() that turns "unhashable" into a verdict instead of a harness crash: the property says equality and hashing
    depend on exactly (value, width), so every field must be hashable.  Returns a sentinel that never equals an int."""
    try:
        return builtins.hash(x)
    except TypeError as e:
        name = type(x).__name__
        if _REC is not None:
            try:
                w, v = len(x), int(x)
            except Exception:
                w, v = None, None
            _REC.violation(f"C20.hash/{name}.__hash__/unhashable", {"kind": "unhashable", "cls": name, "w": w, "v": v}, repr(e), "an int depending on exactly (value, width)",
                           repro=f"from spacepackets.util import *; hash({name}({'' if name == 'ByteFieldEmpty' else 0}))")
        return ("unhashable", name)

PROPERTY = "C20"
LEVEL = "model_checking"  # bounded-exhaustive enumeration of executions against a reference model (DESIGN.md 1, 2.1)
EXHAUSTIVE = True
RULE = (
    "a case is one of: a (width, value) field [construct, octet/int/len/hex views, rebuilt through every constructor and "
    "from-octets entry point with and without trailing octets, ==/hash against the original]; a refused (constructor, width, "
    "value) / unsupported width / too-short octet string; a setter history of depth 2 from a start value; an observer-interleaved "
    "history (width, entry point that built the start field, start value, event sequence of depth D over the menu {read every view, "
    "read one view, value=int, value=bytes, value=bytearray (the caller's buffer is overwritten afterwards), value=octets+trailing, "
    "refused assignments}): every sequence of the menu is executed on a fresh field, each read event and the end of each history "
    "compare hash/==/int/len/as_bytes/hex_str with a fresh field of the model's current value; an independence history (width, "
    "value X, entry point e, assignment kind): build X through e, assign the complement to the result, build X again through "
    "every entry point - each must read X, the re-assigned field must keep its value; every field handed out is held (mc.alias."
    "Keeper) and re-observed after the following cases; an ordered pair of "
    "fields for ==/hash; a (helper, width, value) conversion. Values: widths 0,1,2 every value; width 4 each 16-bit half "
    "full in K backgrounds + walk(32); width 8 each octet full in K backgrounds + each 16-bit half full in 2 (thorough: K) "
    "backgrounds + walk(64). A field case is counted distinct non-trivial when no earlier sweep (halves in order, then "
    "octets, then walk) contains the same (width, value); the other kinds are disjoint by construction."
)
BOUNDS = {"quick": "K=4, N=4096 out-of-range values per side and width; observer histories depth 3, menu of 15 events, 3 start values x 11 entry "
                   "points x widths 1,2,4,8 (+ the empty field); independence histories: width 1 every value, wider widths 0..255 + walk + edge",
          "thorough": "K=8, N=65536; observer histories depth 4 over the 15-event menu and depth 3 over the wide menu (every single view as its own "
                      "read event, 8 values per assignment kind) from 8 start values; independence histories: widths >= 2 values 0..4095 + walk + edge"}
ASSUMPTIONS = [
    "the oracle is Python's int.to_bytes(width, 'big', signed=...) / int.from_bytes: big-endian two's complement by definition",
    "the empty field: octets b'', value 0, length 0, ==/hash on (0,0), refuses non-zero values; rebuilding it from zero octets may succeed or raise ValueError; its hex view is not judged",
    "hash: equal (value,width) must hash equal; dependence on width and on value is demanded in the weakest form (not every same-value/different-width pair of the edge product may collide)",
    "helpers: every in-range value must be converted exactly (the most negative signed value may be refused with ValueError, as the library's accepted range is symmetric); which exception an out-of-range value raises is not judged, returning octets for it is",
    "observer histories: after a refused assignment the field is only required to be coherent (all views of one in-range value), not unchanged; str()/repr() are called by the read-all event but not judged",
    "independence: fields are mutable through the value setter (the property's own clause), so a field handed out must not change when the library builds or re-assigns another one, and building from octets X reads X whatever happened to earlier results; a bytearray passed in belongs to the caller and may be overwritten after the call",
    "width 4/8: two arbitrary non-background values in two different half-words at once are only covered by walk and the backgrounds",
]

WIDTHS = (1, 2, 4, 8)
BAD_WIDTHS = [3, 5, 6, 7, 9, 16, -1]
SUFFIX = b"\xee\x11"


def _k(tier):
    return 4 if tier == "quick" else 8


def _n(tier):
    return 4096 if tier == "quick" else 65536


def _u():
    import spacepackets.util as u

    return u


def _fresh_library():
    """Worker processes are reused for several shards: re-execute spacepackets/util.py at the start of every shard
    (and of every single-case replay) so that module- and class-level state a changed library may keep (caches,
    shared templates) never travels from one shard to the next - a shard stays a deterministic, self-contained
    execution sequence whatever the hand-out order (VERIF_SEED) was.  On a tree without such state this is a no-op."""
    import importlib

    importlib.reload(_u())


def concrete(u, w):
    return {1: (u.ByteFieldU8, "from_u8_bytes"), 2: (u.ByteFieldU16, "from_u16_bytes"), 4: (u.ByteFieldU32, "from_u32_bytes"),
            8: (u.ByteFieldU64, "from_u64_bytes")}[w]


# ------------------------------------------------------------------------- shards
def shards(tier):
    k = _k(tier)
    items = [{"kind": "full", "w": 0, "part": 0, "parts": 1}, {"kind": "full", "w": 1, "part": 0, "parts": 1}]
    for p in range(8):
        items.append({"kind": "full", "w": 2, "part": p, "parts": 8})
    for half in range(2):
        for p in range(4):
            items.append({"kind": "half", "w": 4, "half": half, "part": p, "parts": 4, "k": k})
    k8 = 2 if tier == "quick" else k
    for half in range(4):
        for p in range(2):
            items.append({"kind": "half", "w": 8, "half": half, "part": p, "parts": 2, "k": k8})
    items.append({"kind": "octet_walk", "k": k, "k8": k8})
    for w in (0,) + WIDTHS:
        items.append({"kind": "refuse_values", "w": w, "n": _n(tier)})
    items.append({"kind": "refuse_misc", "tier": tier})
    for w in (0,) + WIDTHS:
        items.append({"kind": "history", "w": w})
    thorough = tier != "quick"
    for w in (0,) + WIDTHS:
        for e in entries(w):
            if not thorough or w == 0:
                items.append({"kind": "ohist", "w": w, "entry": e, "starts": [str(v) for v in obs_starts(w, False)], "depth": 3, "wide": 0})
                continue
            for v in obs_starts(w, False):
                items.append({"kind": "ohist", "w": w, "entry": e, "starts": [str(v)], "depth": 4, "wide": 0})
            for part in D.chunks(obs_starts(w, True), 2):
                items.append({"kind": "ohist", "w": w, "entry": e, "starts": [str(v) for v in part], "depth": 3, "wide": 1})
    for w in (0,) + WIDTHS:
        parts = 1 if not thorough or w < 2 else 8
        for part in range(parts):
            items.append({"kind": "alias", "w": w, "tier": tier, "part": part, "parts": parts})
    items.append({"kind": "eqhash"})
    for signed in (0, 1):
        items.append({"kind": "helper_full", "signed": signed})
        for w in (4, 8):
            for p in range(2):
                items.append({"kind": "helper_half", "signed": signed, "w": w, "part": p, "parts": 2, "k": k if w == 4 else k8})
        items.append({"kind": "helper_range", "signed": signed, "n": _n(tier)})
    return items


# ------------------------------------------------------------ value sets and dedupe
def half_value(w, half, v, bg):
    """bg with its 16-bit half number `half` (0 = most significant) replaced by v"""
    shift = 8 * w - 16 * (half + 1)
    return (bg & ~(0xFFFF << shift)) | (v << shift)


def octet_value(w, octet, v, bg):
    shift = 8 * w - 8 * (octet + 1)
    return (bg & ~(0xFF << shift)) | (v << shift)


def in_half_sweep(w, half, val, bgs):
    shift = 8 * w - 16 * (half + 1)
    m = ~(0xFFFF << shift)
    return any((val & m) == (bg & m) for bg in bgs)


def in_octet_sweep(w, octet, val, bgs):
    shift = 8 * w - 8 * (octet + 1)
    m = ~(0xFF << shift)
    return any((val & m) == (bg & m) for bg in bgs)


# ------------------------------------------------------------------------- oracles
def check_field(rec: Rec, w: int, v: int, nontrivial=True):
    u = _u()
    case = {"kind": "field", "w": w, "v": str(v)}
    exp = v.to_bytes(w, "big")
    rec.case(nontrivial, ops=30 if w else 10)
    repro = f"UnsignedByteField({v:#x}, {w})  # as_bytes expected {exp.hex()}; see checks/c20.py check_field"

    def bad(kind, observed, expected):
        rec.violation(f"C20.{kind}/width={w}", case, observed, expected, repro=repro)

    try:
        f = u.UnsignedByteField(v, w)
    except Exception as e:
        return bad("construct/UnsignedByteField/exception/" + type(e).__name__, repr(e), exp)
    if bytes(f.as_bytes) != exp:
        bad("views/UnsignedByteField.as_bytes", bytes(f.as_bytes), exp)
    handed = f.as_bytes
    if isinstance(handed, bytearray):  # the caller owns what it was handed: appending to it must not reach the field
        handed += b"\xaa\xbb"
        if bytes(f.as_bytes) != exp or len(f) != w:
            bad("independence/UnsignedByteField.as_bytes/field-changed-through-the-octets-it-handed-out", bytes(f.as_bytes), exp)
    if int(f) != v or f.value != v:
        bad("views/UnsignedByteField.int", (int(f), f.value), v)
    if len(f) != w or f.byte_len != w:
        bad("views/UnsignedByteField.len", (len(f), f.byte_len), w)
    if w and f.hex_str != "0x" + exp.hex():
        bad("views/UnsignedByteField.hex_str", f.hex_str, "0x" + exp.hex())
    h0 = hash(f)
    if w == 0:
        builders = [("ByteFieldEmpty", lambda: u.ByteFieldEmpty(), False),
                    ("UnsignedByteField.from_bytes", lambda: u.UnsignedByteField.from_bytes(b""), True),
                    ("ByteFieldGenerator.from_bytes", lambda: u.ByteFieldGenerator.from_bytes(0, b""), True),
                    ("ByteFieldGenerator.from_int", lambda: u.ByteFieldGenerator.from_int(0, 0), True)]
    else:
        cls, from_name = concrete(u, w)
        from_fn = getattr(cls, from_name)
        builders = [
            ("ByteFieldGenerator.from_int", lambda: u.ByteFieldGenerator.from_int(w, v), False),
            (cls.__name__, lambda: cls(v), False),
            ("UnsignedByteField.from_bytes", lambda: u.UnsignedByteField.from_bytes(exp), False),
            ("ByteFieldGenerator.from_bytes", lambda: u.ByteFieldGenerator.from_bytes(w, exp), False),
            ("ByteFieldGenerator.from_bytes+suffix", lambda: u.ByteFieldGenerator.from_bytes(w, exp + SUFFIX), False),
            (f"{cls.__name__}.{from_name}", lambda: from_fn(exp), False),
            (f"{cls.__name__}.{from_name}+suffix", lambda: from_fn(exp + SUFFIX), False),
        ]
    for name, fn, may_refuse in builders:
        try:
            g = fn()
        except ValueError as e:
            if not may_refuse:
                bad(f"rebuild/{name}/exception/ValueError", repr(e), exp)
            else:
                rec.outcome(f"empty-field:{name}:refused")
            continue
        except Exception as e:
            bad(f"rebuild/{name}/exception/{type(e).__name__}", repr(e), exp)
            continue
        if bytes(g.as_bytes) != exp or int(g) != v or len(g) != w:
            bad(f"rebuild/{name}/views", (bytes(g.as_bytes), int(g), len(g)), (exp, v, w))
        elif not (g == f and f == g):
            bad(f"rebuild/{name}/not-equal", repr(g), repr(f))
        elif hash(g) != h0:
            bad(f"rebuild/{name}/hash-differs", hash(g), h0)
    # assigning the same value by octets (bytes and bytearray, with trailing octets) keeps everything
    if w:
        for raw in (exp, bytearray(exp), exp + SUFFIX):
            try:
                z = u.UnsignedByteField(0, w)
                z.value = raw
                if bytes(z.as_bytes) != exp or int(z) != v or not (z == f):
                    bad("setter/value=octets/views", (bytes(z.as_bytes), int(z)), (exp, v))
            except Exception as e:
                bad("setter/value=octets/exception/" + type(e).__name__, repr(e), exp)


REFUSE_CTORS = ["UnsignedByteField", "ByteFieldGenerator.from_int", "concrete-class", "value-setter"]


def check_refuse_value(rec: Rec, ctor: str, w: int, v: int):
    u = _u()
    case = {"kind": "refuse_value", "ctor": ctor, "w": w, "v": str(v)}
    rec.case(True, ops=1)
    try:
        if ctor == "UnsignedByteField":
            r = u.UnsignedByteField(v, w)
        elif ctor == "ByteFieldGenerator.from_int":
            r = u.ByteFieldGenerator.from_int(w, v)
        elif ctor == "concrete-class":
            r = concrete(u, w)[0](v)
        else:
            r = u.UnsignedByteField(0, w)
            r.value = v
    except ValueError:
        rec.outcome("refused:value:" + ("negative" if v < 0 else "too-large"))
        return
    except Exception as e:
        rec.violation(f"C20.refuse/{ctor}/wrong-exception/{type(e).__name__}/" + ("negative" if v < 0 else "too-large"), case, repr(e), "ValueError",
                      repro=f"{ctor}: width {w}, value {v}  # expected ValueError")
        return
    rec.violation(f"C20.refuse/{ctor}/accepted/" + ("negative" if v < 0 else "too-large") + f"/width={w}", case, repr(r), "ValueError",
                  repro=f"{ctor}: width {w}, value {v}  # expected ValueError")


def check_refuse_width(rec: Rec, how: str, w: int):
    u = _u()
    case = {"kind": "refuse_width", "how": how, "w": w}
    rec.case(True, ops=1)
    try:
        if how == "UnsignedByteField":
            r = u.UnsignedByteField(0, w)
        elif how == "ByteFieldGenerator.from_int":
            r = u.ByteFieldGenerator.from_int(w, 0)
        elif how == "ByteFieldGenerator.from_bytes":
            r = u.ByteFieldGenerator.from_bytes(w, bytes(40))
        else:
            r = u.UnsignedByteField.from_bytes(bytes(w))
    except ValueError:
        rec.outcome("refused:width")
        return
    except Exception as e:
        rec.violation(f"C20.refuse/{how}/wrong-exception/{type(e).__name__}/unsupported-width", case, repr(e), "ValueError")
        return
    rec.violation(f"C20.refuse/{how}/accepted/unsupported-width", case, repr(r), "ValueError")


def check_refuse_short(rec: Rec, how: str, w: int, raw: bytes):
    u = _u()
    case = {"kind": "refuse_short", "how": how, "w": w, "raw": raw}
    rec.case(True, ops=1)
    try:
        if how == "ByteFieldGenerator.from_bytes":
            r = u.ByteFieldGenerator.from_bytes(w, raw)
        elif how == "concrete-class.from_bytes":
            cls, name = concrete(u, w)
            r = getattr(cls, name)(raw)
        else:
            r = u.UnsignedByteField((1 << (8 * w)) - 1, w)
            r.value = raw
    except ValueError:
        rec.outcome("refused:short-octets")
        return
    except Exception as e:
        rec.violation(f"C20.refuse/{how}/wrong-exception/{type(e).__name__}/short-octets", case, repr(e), "ValueError")
        return
    rec.violation(f"C20.refuse/{how}/accepted/short-octets/width={w}", case, repr(r), "ValueError")


def history_ops(w):
    """event menu for the value setter: ['int', str(v)] / ['bytes', octets]"""
    if w == 0:
        return [["int", "0"], ["bytes", b""], ["bytes", b"\x01"], ["int", "1"], ["int", "-1"]]
    m = (1 << (8 * w)) - 1
    ops = [["int", str(v)] for v in D.edge(8 * w)]
    ops += [["bytes", v.to_bytes(w, "big")] for v in D.edge(8 * w)[1:5]]
    ops += [["bytes", D.alt(8 * w, True).to_bytes(w, "big") + SUFFIX], ["bytes", bytes(w - 1)], ["bytes", b""]]
    ops += [["int", "-1"], ["int", str(m + 1)]]
    return ops


def check_history(rec: Rec, w: int, v0: int, ops):
    u = _u()
    case = {"kind": "history", "w": w, "v0": str(v0), "ops": ops}
    rec.case(True, ops=2 * len(ops))
    m = (1 << (8 * w)) - 1
    f = u.UnsignedByteField(v0, w)
    cur = v0
    for i, (how, arg) in enumerate(ops):
        if how == "int":
            val = int(arg)
            valid, new = (0 <= val <= m), val
            may_refuse = False
        else:
            val = bytes(arg)
            valid, new = (len(val) >= w), int.from_bytes(val[:w], "big")
            may_refuse = w == 0  # the empty field may refuse being rebuilt from octets
        step = f"{i}:{how}"
        try:
            f.value = val
            accepted = True
        except ValueError:
            accepted = False
        except Exception as e:
            rec.violation(f"C20.setter/value={how}/exception/{type(e).__name__}", case, {"step": step, "error": repr(e)}, "ValueError or accepted")
            return
        if accepted and not valid:
            rec.violation(f"C20.setter/value={how}/accepted-invalid/width={w}", case, {"step": step, "value": repr(f.value)}, "ValueError")
            return
        if not accepted and valid and not may_refuse:
            rec.violation(f"C20.setter/value={how}/refused-valid/width={w}", case, {"step": step}, new)
            return
        if accepted:
            cur = new
            # equality with the octets of the new value, asked BEFORE any other view is read (a view that is computed lazily must
            # not make the answer depend on what was read earlier)
            try:
                e_oct = (f == cur.to_bytes(w, "big")) if w else True
            except Exception:  # noqa: BLE001 - comparing with octets is optional API; only a wrong answer is judged
                e_oct = True
            if e_oct is False:
                rec.violation(f"C20.setter/value={how}/not-equal-to-its-own-octets-before-the-octet-view-was-read/width={w}", case, {"step": step}, True)
                return
            if int(f) != cur:
                rec.violation(f"C20.setter/value={how}/value-not-taken/width={w}", case, {"step": step, "int": int(f)}, cur)
                return
        # whatever happened, the views must be in step with each other
        val_now = f.value
        if not (isinstance(val_now, int) and 0 <= val_now <= m) or bytes(f.as_bytes) != val_now.to_bytes(w, "big") or int(f) != val_now or len(f) != w \
                or (w and f.hex_str != "0x" + val_now.to_bytes(w, "big").hex()):
            rec.violation(f"C20.setter/value={how}/views-out-of-step/width={w}", case,
                          {"step": step, "value": repr(val_now), "as_bytes": bytes(f.as_bytes), "int": int(f), "hex": f.hex_str}, "all views of one value")
            return
        rec.outcome(f"setter:{how}:{'accepted' if accepted else 'refused'}")
    rec.traces += 1


# ------------------------------------------------- entry points, views, independence
ENTRIES0 = ["UnsignedByteField", "ByteFieldEmpty"]
ENTRIES = [
    "UnsignedByteField", "concrete-class", "ByteFieldGenerator.from_int",
    "UnsignedByteField.from_bytes", "ByteFieldGenerator.from_bytes", "ByteFieldGenerator.from_bytes+suffix",
    "concrete-class.from_bytes", "concrete-class.from_bytes+suffix",
    "UnsignedByteField.from_bytes(bytearray)", "ByteFieldGenerator.from_bytes(bytearray)+suffix", "concrete-class.from_bytes(bytearray)",
]


def entries(w):
    return ENTRIES if w else ENTRIES0


def build(u, entry, w, v):
    """-> (field, scratch): the field for (w, v) through the named public entry point; scratch is the
    bytearray that was handed to the library (it belongs to the caller, who may overwrite it), else None"""
    if entry == "UnsignedByteField":
        return u.UnsignedByteField(v, w), None
    if entry == "ByteFieldEmpty":
        return u.ByteFieldEmpty(), None
    cls, from_name = concrete(u, w)
    exp = v.to_bytes(w, "big")
    if entry == "concrete-class":
        return cls(v), None
    if entry == "ByteFieldGenerator.from_int":
        return u.ByteFieldGenerator.from_int(w, v), None
    if entry == "UnsignedByteField.from_bytes":
        return u.UnsignedByteField.from_bytes(exp), None
    if entry == "ByteFieldGenerator.from_bytes":
        return u.ByteFieldGenerator.from_bytes(w, exp), None
    if entry == "ByteFieldGenerator.from_bytes+suffix":
        return u.ByteFieldGenerator.from_bytes(w, exp + SUFFIX), None
    if entry == "concrete-class.from_bytes":
        return getattr(cls, from_name)(exp), None
    if entry == "concrete-class.from_bytes+suffix":
        return getattr(cls, from_name)(exp + SUFFIX), None
    if entry == "UnsignedByteField.from_bytes(bytearray)":
        buf = bytearray(exp)
        return u.UnsignedByteField.from_bytes(buf), buf
    if entry == "ByteFieldGenerator.from_bytes(bytearray)+suffix":
        buf = bytearray(exp + SUFFIX)
        return u.ByteFieldGenerator.from_bytes(w, buf), buf
    if entry == "concrete-class.from_bytes(bytearray)":
        buf = bytearray(exp)
        return getattr(cls, from_name)(buf), buf
    raise KeyError(entry)


def scribble(buf):
    if buf is not None:
        for i in range(len(buf)):
            buf[i] ^= 0xFF


def snapshot(f):
    """copying observation of every view (for the Keeper)"""
    return (bytes(f.as_bytes), int(f), f.value, len(f), f.byte_len, f.hex_str if len(f) else None, hash(f))


VIEWS = ["hash", "eq", "int", "len", "as_bytes", "hex_str"]  # hash first: no other read precedes it in a read-all


def wrong_views(u, f, w, cur, views=VIEWS):
    """-> list of (view, observed, expected) for the views of f that do not show (cur, w); the expectation of
    ==/hash is a fresh field built through the plain constructor"""
    out = []
    exp = cur.to_bytes(w, "big")
    fresh = None
    if "hash" in views or "eq" in views:
        try:
            fresh = u.UnsignedByteField(cur, w)
        except Exception:
            fresh = None  # reported by the field cases (construct/...)
    for view in views:
        try:
            if view == "hash":
                if fresh is not None and hash(f) != hash(fresh):
                    out.append((view, hash(f), hash(fresh)))
            elif view == "eq":
                if fresh is not None:
                    got = [f == fresh, fresh == f]
                    want = [True, True]
                    if w:
                        other = u.UnsignedByteField(cur ^ 1, w)
                        got += [f == other, other == f]
                        want += [False, False]
                    if got != want:
                        out.append((view, got, want))
            elif view == "int":
                if int(f) != cur or f.value != cur:
                    out.append((view, (int(f), f.value), cur))
            elif view == "len":
                if len(f) != w or f.byte_len != w:
                    out.append((view, (len(f), f.byte_len), w))
            elif view == "as_bytes":
                if bytes(f.as_bytes) != exp:
                    out.append((view, bytes(f.as_bytes), exp))
            elif view == "hex_str":
                if w and f.hex_str != "0x" + exp.hex():
                    out.append((view, f.hex_str, "0x" + exp.hex()))
        except Exception as e:
            out.append((view, "exception " + repr(e), "the view of value %d" % cur))
    return out


# ------------------------------------------------ observer-interleaved setter histories
def obs_values(w, wide):
    if w == 0:
        return [0]
    m = (1 << (8 * w)) - 1
    return D.edge(8 * w) if wide else [0, 1, m, D.alt(8 * w, False)]


def obs_starts(w, wide):
    if w == 0:
        return [0]
    m = (1 << (8 * w)) - 1
    return D.edge(8 * w) if wide else [0, m, D.alt(8 * w, True)]


def obs_menu(w, wide):
    """event menu: ['R'] read every view / ['V', view] read one view / ['int', str] / ['bytes', octets] /
    ['bytearray', octets] (overwritten by the caller after the assignment)"""
    if w == 0:
        return [["R"], ["V", "hash"], ["int", "0"], ["bytes", b""], ["bytearray", b""], ["bytes", b"\x01"], ["int", "1"], ["int", "-1"]]
    m = (1 << (8 * w)) - 1
    vals = obs_values(w, wide)
    menu = [["R"]] + ([["V", v] for v in VIEWS] if wide else [["V", "hash"]])
    menu += [["int", str(v)] for v in vals]
    menu += [["bytes", v.to_bytes(w, "big")] for v in vals]
    menu += [["bytearray", D.alt(8 * w, True).to_bytes(w, "big")], ["bytes", (1 << (8 * w - 1)).to_bytes(w, "big") + SUFFIX]]
    if wide:
        menu += [["bytearray", (m - 1).to_bytes(w, "big") + SUFFIX], ["bytes", bytes(w) + SUFFIX]]
    menu += [["int", "-1"], ["int", str(m + 1)], ["bytes", b"\xff" * (w - 1)]]
    return menu


def check_obs_history(rec: Rec, w: int, entry: str, v0: int, events, keeper=None):
    u = _u()
    case = {"kind": "ohist", "w": w, "entry": entry, "v0": str(v0), "events": events}
    rec.case(True, ops=4 * len(events) + 12)
    m = (1 << (8 * w)) - 1
    try:
        f, scratch = build(u, entry, w, v0)
    except Exception as e:
        rec.violation(f"C20.history/start/{entry}/exception/{type(e).__name__}", case, repr(e), (w, v0))
        return
    scribble(scratch)
    cur = v0
    last = "none"

    def judge(step, views=VIEWS):
        bad = wrong_views(u, f, w, cur, views)
        for view, got, want in bad:
            rec.violation(f"C20.history/UnsignedByteField.{view}/out-of-step/after-value={last}", case, {"step": step, view: got, "model_value": cur}, want)
        return not bad

    for i, ev in enumerate(events):
        how = ev[0]
        step = f"{i}:{how}"
        if how == "R":
            try:
                str(f), repr(f)  # not judged; they are observers that may fill a cache
            except Exception:
                pass
            if not judge(step):
                return
            continue
        if how == "V":
            if not judge(step + ":" + ev[1], [ev[1]]):
                return
            continue
        if how == "int":
            val = int(ev[1])
            valid, new, may_refuse, buf = (0 <= val <= m), val, False, None
        else:
            raw = bytes(ev[1])
            valid, new, may_refuse = (len(raw) >= w), int.from_bytes(raw[:w], "big"), w == 0
            buf = bytearray(raw) if how == "bytearray" else None
            val = raw if buf is None else buf
        try:
            f.value = val
            accepted = True
        except ValueError:
            accepted = False
        except Exception as e:
            rec.violation(f"C20.setter/value={how}/exception/{type(e).__name__}", case, {"step": step, "error": repr(e)}, "ValueError or accepted")
            return
        scribble(buf)
        if accepted and not valid:
            rec.violation(f"C20.setter/value={how}/accepted-invalid/width={w}", case, {"step": step, "value": repr(f.value)}, "ValueError")
            return
        if not accepted and valid and not may_refuse:
            rec.violation(f"C20.setter/value={how}/refused-valid/width={w}", case, {"step": step}, new)
            return
        if accepted:
            cur, last = new, how
        else:
            now = f.value  # a refused assignment: the field must still be coherent (ASSUMPTIONS)
            if not (isinstance(now, int) and 0 <= now <= m):
                rec.violation(f"C20.setter/value={how}/views-out-of-step/width={w}", case, {"step": step, "value": repr(now)}, "an in-range value")
                return
            if now != cur:
                cur, last = now, how + "-refused"
        rec.outcome(f"setter:{how}:{'accepted' if accepted else 'refused'}")
    if not judge("end"):
        return
    rec.traces += 1
    if keeper is not None:
        keeper.recheck(case)
        keeper.hold(entry, f, snapshot, case)


# ------------------------------------------------------------- independence histories
def alias_values(w, tier):
    if w == 0:
        return [0]
    if w == 1:
        return list(range(256))
    n = 256 if tier == "quick" else 4096
    return D.dedupe(list(range(n)) + D.walk(8 * w) + D.edge(8 * w))


ALIAS_HOWS = ["int", "bytes", "bytearray"]


def check_alias(rec: Rec, w: int, x: int, entry: str, how: str, keeper=None):
    """build X through `entry`; the caller overwrites the buffer it passed; assign the complement to the result;
    build X again through every entry point: each reads X, the re-assigned field keeps the complement"""
    u = _u()
    case = {"kind": "alias", "w": w, "v": str(x), "entry": entry, "how": how}
    ents = entries(w)
    rec.case(True, ops=8 * (len(ents) + 2))
    m = (1 << (8 * w)) - 1
    y = x ^ m
    try:
        g, scratch = build(u, entry, w, x)
    except Exception as e:
        rec.violation(f"C20.rebuild/{entry}/exception/{type(e).__name__}/width={w}", case, repr(e), (w, x))
        return
    bad = wrong_views(u, g, w, x)
    if bad:
        rec.violation(f"C20.rebuild/{entry}/views/width={w}", case, bad, (w, x))
        return
    if scratch is not None:
        scribble(scratch)
        bad = wrong_views(u, g, w, x)
        if bad:
            rec.violation(f"C20.independence/{entry}/field-follows-the-callers-buffer", case, bad, (w, x))
            return
    octets = g.as_bytes  # the very object handed out: it must keep reading X whatever happens to the field later
    if w:
        raw = y.to_bytes(w, "big")
        buf = bytearray(raw) if how == "bytearray" else None
        try:
            g.value = y if how == "int" else (raw if buf is None else buf)
        except Exception as e:
            rec.violation(f"C20.setter/value={how}/exception/{type(e).__name__}", case, repr(e), y)
            return
        scribble(buf)
        bad = wrong_views(u, g, w, y)
        if bad:
            rec.violation(f"C20.history/UnsignedByteField.{bad[0][0]}/out-of-step/after-value={how}", case, bad, (w, y))
            return
    held = []
    for e2 in ents:
        try:
            h, scratch2 = build(u, e2, w, x)
        except Exception as e:
            rec.violation(f"C20.independence/{e2}/exception-after-an-earlier-result-was-reassigned/{type(e).__name__}", case, repr(e), (w, x))
            continue
        scribble(scratch2)
        bad = wrong_views(u, h, w, x)
        if bad:
            rec.violation(f"C20.independence/{e2}/built-field-depends-on-an-earlier-reassigned-result", case, {"second_entry": e2, "wrong": bad}, (w, x))
            continue
        bad = wrong_views(u, g, w, y)
        if bad:
            rec.violation(f"C20.independence/{e2}/building-a-field-changes-one-handed-out-earlier", case, {"second_entry": e2, "wrong": bad}, (w, y))
            return
        held.append((e2, h))
    if bytes(octets) != x.to_bytes(w, "big"):
        rec.violation("C20.independence/UnsignedByteField.as_bytes/octets-handed-out-earlier-change", case, bytes(octets), x.to_bytes(w, "big"))
    if keeper is not None:
        keeper.recheck(case)  # results of the previous case, after every library call of this one
        keeper.hold(entry, g, snapshot, case)
        keeper.hold("UnsignedByteField.as_bytes", g.as_bytes, bytes, case)
        for e2, h in held:
            keeper.hold(e2, h, snapshot, case)


def eq_fields():
    """(width, value) of the edge product, every value also in every wider width"""
    out = [(0, 0)]
    vals = []
    for w in WIDTHS:
        vals = D.dedupe(vals + D.edge(8 * w))
        out += [(w, v) for v in vals]
    return out


def check_eq_pair(rec: Rec, a, b, how_a, how_b):
    u = _u()
    case = {"kind": "eq", "a": [a[0], str(a[1])], "b": [b[0], str(b[1])], "how": [how_a, how_b]}
    rec.case(True, ops=3)
    x, y = build_for_eq(u, a, how_a), build_for_eq(u, b, how_b)
    same = a == b
    try:
        e1, e2 = (x == y), (y == x)
    except Exception as e:
        rec.violation("C20.eq/UnsignedByteField.__eq__/exception/" + type(e).__name__, case, repr(e), same)
        return None
    try:
        n1, n2 = (x != y), (y != x)
    except Exception as e:
        rec.violation("C20.eq/UnsignedByteField.__ne__/exception/" + type(e).__name__, case, repr(e), not same)
        return None
    if n1 == same or n2 == same:  # != is the negation of ==
        rec.violation("C20.eq/UnsignedByteField.__ne__/not-the-negation-of-eq", case, (n1, n2), not same)
    if e1 != same or e2 != same:
        feat = "same-value-different-width" if (a[1] == b[1] and a[0] != b[0]) else ("same-width-different-value" if a[0] == b[0] and not same else "same-field")
        rec.violation(f"C20.eq/UnsignedByteField.__eq__/wrong/{feat}", case, (e1, e2), same)
    if same and hash(x) != hash(y):
        rec.violation("C20.hash/UnsignedByteField.__hash__/equal-fields-hash-differently", case, (hash(x), hash(y)), "equal")
    return hash(x) == hash(y)


def build_for_eq(u, f, how):
    w, v = f
    if how == "ctor" or w == 0:
        return u.UnsignedByteField(v, w)
    if how == "gen":
        return u.ByteFieldGenerator.from_int(w, v)
    if how == "from_bytes(memoryview)":  # octets handed over as a window into a receive buffer
        return u.UnsignedByteField.from_bytes(memoryview(bytearray(b"\xee" + v.to_bytes(w, "big") + b"\xee"))[1:1 + w])
    return u.UnsignedByteField.from_bytes(v.to_bytes(w, "big"))


def check_int_subclasses(rec: Rec):
    """an integer is an integer: values that are instances of int subclasses (an IntEnum entity ID, a bool) build and assign like
    the plain number"""
    import enum

    u = _u()
    for w in WIDTHS:
        for v in (0, 1, 0x7F, (1 << (8 * w)) - 1):
            E = enum.IntEnum("E", {"X": v})
            vals = [E.X] + ([bool(v)] if v in (0, 1) else [])
            for val in vals:
                case = {"kind": "intsub", "w": w, "v": str(v), "type": type(val).__name__}
                rec.case(True, ops=4)
                exp = int(v).to_bytes(w, "big")
                try:
                    f = u.UnsignedByteField(val, w)
                    g = u.UnsignedByteField(0 if v else 1, w)
                    g.value = val
                    got = (bytes(f.as_bytes), f.value == v, len(f), bytes(g.as_bytes), g.value == v, f == g)
                except Exception as e:
                    rec.violation(f"C20.construct/UnsignedByteField/int-subclass/exception/{type(e).__name__}", case, repr(e), exp)
                    continue
                if got != (exp, True, w, exp, True, True):
                    rec.violation("C20.views/UnsignedByteField/int-subclass-value-not-taken", case, [str(x) for x in got], [str(x) for x in (exp, True, w, exp, True, True)])
    rec.outcome("int-subclasses-ok")


def check_hash_dependence(rec: Rec):
    """hash must not ignore the width, nor the value (weakest form, see ASSUMPTIONS)"""
    u = _u()
    fields = eq_fields()
    rec.case(True, ops=len(fields))
    hs = {f: hash(u.UnsignedByteField(f[1], f[0])) for f in fields}
    widthpairs = [(a, b) for a, b in itertools.combinations(fields, 2) if a[1] == b[1] and a[0] != b[0]]
    valuepairs = [(a, b) for a, b in itertools.combinations(fields, 2) if a[0] == b[0] and a[1] != b[1]]
    if widthpairs and all(hs[a] == hs[b] for a, b in widthpairs):
        rec.violation("C20.hash/UnsignedByteField.__hash__/ignores-width", {"kind": "hashdep"}, f"{len(widthpairs)} same-value/different-width pairs all collide", "depends on width")
    if valuepairs and all(hs[a] == hs[b] for a, b in valuepairs):
        rec.violation("C20.hash/UnsignedByteField.__hash__/ignores-value", {"kind": "hashdep"}, f"{len(valuepairs)} same-width/different-value pairs all collide", "depends on value")
    rec.count("hash_width_pairs", len(widthpairs))
    rec.count("hash_width_pairs_colliding", sum(1 for a, b in widthpairs if hs[a] == hs[b]))


def check_helper(rec: Rec, signed: int, w: int, val: int, nontrivial=True, keeper=None):
    u = _u()
    name = "to_signed" if signed else "to_unsigned"
    fn = getattr(u.IntByteConversion, name)
    case = {"kind": "helper", "signed": signed, "w": w, "v": str(val)}
    rec.case(nontrivial, ops=1)
    lo, hi = (-(1 << (8 * w - 1)), (1 << (8 * w - 1)) - 1) if (signed and w) else (0, (1 << (8 * w)) - 1)
    in_range = lo <= val <= hi
    repro = f"IntByteConversion.{name}({w}, {val})"
    try:
        got = fn(w, val)
    except ValueError as e:
        if in_range and not (signed and w and val == lo):
            rec.violation(f"C20.helpers/IntByteConversion.{name}/refused-in-range/width={w}", case, repr(e), val.to_bytes(w, "big", signed=bool(signed)), repro=repro)
        else:
            rec.outcome(f"helper:{name}:refused")
        return
    except Exception as e:
        if in_range:
            rec.violation(f"C20.helpers/IntByteConversion.{name}/exception/{type(e).__name__}/width={w}", case, repr(e), val.to_bytes(w, "big", signed=bool(signed)), repro=repro)
        else:
            rec.outcome(f"helper:{name}:out-of-range:{type(e).__name__}")
        return
    if not in_range:
        rec.violation(f"C20.helpers/IntByteConversion.{name}/accepted-out-of-range/width={w}", case, bytes(got), "an exception", repro=repro)
        return
    exp = val.to_bytes(w, "big", signed=bool(signed))
    if bytes(got) != exp:
        rec.violation(f"C20.helpers/IntByteConversion.{name}/octets/width={w}", case, bytes(got), exp, repro=repro)
    elif keeper is not None:
        keeper.recheck(case)
        keeper.hold(f"IntByteConversion.{name}", got, bytes, case)


def as_signed(pattern, w):
    return pattern - (1 << (8 * w)) if pattern >> (8 * w - 1) else pattern


# ---------------------------------------------------------------------- run_shard
def run_shard(item):
    global _REC
    _fresh_library()
    rec = _REC = Rec(PROPERTY, item)
    kind = item["kind"]
    if kind == "full":
        w = item["w"]
        total = 1 << (8 * w)
        lo, hi = total * item["part"] // item["parts"], total * (item["part"] + 1) // item["parts"]
        for v in range(lo, hi):
            check_field(rec, w, v)
        rec.count(f"width{w}_values", hi - lo)
        if w == 2 and item["part"] == 0:
            rec.sample({"field": [2, 0x07FF], "as_bytes": (0x07FF).to_bytes(2, "big"), "hex_str": "0x07ff"}, limit=1)
    elif kind == "half":
        w, half = item["w"], item["half"]
        bgs = D.backgrounds(8 * w, item["k"])
        lo, hi = 65536 * item["part"] // item["parts"], 65536 * (item["part"] + 1) // item["parts"]
        for v in range(lo, hi):
            for bg in bgs:
                val = half_value(w, half, v, bg)
                dup = any(in_half_sweep(w, j, val, bgs) for j in range(half)) or any(half_value(w, half, v, b2) == val for b2 in bgs[:bgs.index(bg)])
                check_field(rec, w, val, nontrivial=not dup)
        rec.count(f"width{w}_half{half}_values", hi - lo)
        if w == 8 and half == 1 and item["part"] == 0:
            rec.sample({"field": [8, "0x55551234_55555555"], "sweep": "16-bit half 1 over 0..65535 in backgrounds", "backgrounds": [hex(b) for b in bgs]}, limit=1)
    elif kind == "octet_walk":
        n = 0
        bgs8 = D.backgrounds(64, item["k"])
        hb = D.backgrounds(64, item["k8"])
        for octet in range(8):
            for v in range(256):
                for bg in bgs8:
                    val = octet_value(8, octet, v, bg)
                    dup = any(in_half_sweep(8, j, val, hb) for j in range(4)) or any(in_octet_sweep(8, j, val, bgs8) for j in range(octet)) \
                        or any(octet_value(8, octet, v, b2) == val for b2 in bgs8[:bgs8.index(bg)])
                    check_field(rec, 8, val, nontrivial=not dup)
                    n += 1
        hb4 = D.backgrounds(32, item["k"])
        for w, hbs in ((4, hb4), (8, hb)):
            for val in D.walk(8 * w):
                dup = any(in_half_sweep(w, j, val, hbs) for j in range(w // 2)) or (w == 8 and any(in_octet_sweep(8, j, val, bgs8) for j in range(8)))
                check_field(rec, w, val, nontrivial=not dup)
                n += 1
        rec.count("octet_and_walk_values", n)
    elif kind == "refuse_values":
        w = item["w"]
        vals = D.out_of_range((1 << (8 * w)) - 1, item["n"])
        # width 0: a non-zero value must be refused by the width-dispatching generator as well (whether it builds the EMPTY field at all
        # is the quirk of ASSUMPTIONS; what it must never do is hand out a field for a value that does not fit zero octets)
        ctors = [c for c in REFUSE_CTORS if w or c in ("UnsignedByteField", "value-setter", "ByteFieldGenerator.from_int")]
        for c in ctors:
            for v in vals:
                check_refuse_value(rec, c, w, v)
        rec.count("out_of_range_values", len(vals) * len(ctors))
        if w == 1:
            rec.sample({"refuse": "ByteFieldU8(256), UnsignedByteField(-1, 1), field.value = 2**64", "expected": "ValueError", "values_per_constructor": len(vals)}, limit=1)
    elif kind == "refuse_misc":
        widths = BAD_WIDTHS if item.get("tier") != "thorough" else [w for w in range(-4, 41) if w not in (0, 1, 2, 4, 8)]
        n = 0
        for how in ("UnsignedByteField", "ByteFieldGenerator.from_int", "ByteFieldGenerator.from_bytes", "UnsignedByteField.from_bytes"):
            for w in widths:
                if how == "UnsignedByteField.from_bytes" and w < 0:
                    continue
                check_refuse_width(rec, how, w)
                n += 1
        for w in WIDTHS:
            for L in range(w):
                for raw in D.shaped(L)[:2]:
                    for how in ("ByteFieldGenerator.from_bytes", "concrete-class.from_bytes", "value-setter"):
                        check_refuse_short(rec, how, w, raw)
                        n += 1
        rec.count("refused_widths_and_short_strings", n)
    elif kind == "history":
        w = item["w"]
        ops = history_ops(w)
        starts = [0] if w == 0 else D.edge(8 * w)
        n = 0
        for v0 in starts:
            for a in ops:
                for b in ops:
                    check_history(rec, w, v0, [a, b])
                    n += 1
        rec.count("setter_histories_depth2", n)
        if w == 2:
            rec.sample({"history": {"start": [2, 0], "ops": [["int", "65535"], ["bytes", "hex:0102ee11"]]}, "expected_final": {"value": 0x0102, "as_bytes": b"\x01\x02"}}, limit=1)
    elif kind == "ohist":
        w, entry, wide = item["w"], item["entry"], bool(item["wide"])
        menu = obs_menu(w, wide)
        keeper = Keeper(rec, PROPERTY, depth=2)
        n = 0
        for v0 in item["starts"]:
            for events in itertools.product(menu, repeat=item["depth"]):
                check_obs_history(rec, w, entry, int(v0), list(events), keeper)
                n += 1
        keeper.recheck(None)
        keeper.flush()
        rec.count(f"observer_histories_depth{item['depth']}" + ("_wide_menu" if wide else ""), n)
        rec.count("observer_history_events", n * item["depth"])
        if w == 2 and entry == "ByteFieldGenerator.from_bytes" and not wide:
            rec.sample({"observer_history": {"width": 2, "start": "ByteFieldGenerator.from_bytes(2, 0000)", "events": [["R"], ["bytes", "hex:5555"], ["V", "hash"]]},
                        "expected": "hash == hash(UnsignedByteField(0x5555, 2)), every view of 0x5555", "menu_events": len(menu)}, limit=1)
    elif kind == "alias":
        w = item["w"]
        vals = alias_values(w, item["tier"])
        lo, hi = len(vals) * item["part"] // item["parts"], len(vals) * (item["part"] + 1) // item["parts"]
        keeper = Keeper(rec, PROPERTY, depth=len(entries(w)) + 2)
        n = 0
        for e in entries(w):
            for how in (ALIAS_HOWS if w else ["int"]):
                for x in vals[lo:hi]:  # the value changes fastest: consecutive cases differ in value
                    check_alias(rec, w, x, e, how, keeper)
                    n += 1
        keeper.recheck(None)
        keeper.flush()
        rec.count("independence_histories", n)
        rec.count("independence_rebuilds", n * len(entries(w)))
        if w == 1:
            rec.sample({"independence_history": "g = ByteFieldGenerator.from_bytes(1, b'\\x21'); g.value = 0xde; then every entry point builds 0x21 again",
                        "expected": "each new field reads 0x21, g keeps 0xde, every field handed out keeps its views while later cases run"}, limit=1)
    elif kind == "eqhash":
        check_int_subclasses(rec)
        fields = eq_fields()
        hows = ("ctor", "gen", "bytes", "from_bytes(memoryview)")
        n = 0
        for a in fields:
            for b in fields:
                for ha in hows:
                    for hb_ in hows:
                        if (a[0] == 0 and ha != "ctor") or (b[0] == 0 and hb_ != "ctor"):
                            continue
                        check_eq_pair(rec, a, b, ha, hb_)
                        n += 1
        # values that a *derived* identity confuses: Python hashes ints modulo 2^61 - 1, so v and v + k(2^61 - 1) have equal
        # hashes; 8-octet fields holding them are different fields and must compare unequal (both ways, through every constructor)
        M = (1 << 61) - 1
        for v in (0, 1, 2, 0x55, M - 1):
            for k in (1, 2, 7):
                if v + k * M < (1 << 64):
                    for ha in hows:
                        for hb_ in hows:
                            check_eq_pair(rec, (8, v), (8, v + k * M), ha, hb_)
                            check_eq_pair(rec, (8, v + k * M), (8, v), hb_, ha)
                            n += 2
        check_hash_dependence(rec)
        rec.count("eq_pairs", n)
        rec.count("eq_fields", len(fields))
        rec.sample({"eq": "UnsignedByteField(0x7f, 1) vs UnsignedByteField(0x7f, 2)", "expected": "not equal, equal to themselves, equal fields hash equal", "fields": len(fields), "ordered_pairs_x_constructors": n}, limit=1)
    elif kind == "helper_full":
        signed = item["signed"]
        n = 0
        keeper = Keeper(rec, PROPERTY, depth=2)
        for w in (1, 2):
            for p in range(1 << (8 * w)):
                check_helper(rec, signed, w, as_signed(p, w) if signed else p, keeper=keeper)
                n += 1
        check_helper(rec, signed, 0, 0, keeper=keeper)
        for w in (4, 8):
            for p in D.walk(8 * w):
                check_helper(rec, signed, w, as_signed(p, w) if signed else p, keeper=keeper)
                n += 1
        keeper.recheck(None)
        keeper.flush()
        rec.count("helper_values", n + 1)
        if signed:
            rec.sample({"helper": "IntByteConversion.to_signed(2, -32084)", "expected": (-32084).to_bytes(2, "big", signed=True)}, limit=1)
    elif kind == "helper_half":
        signed, w = item["signed"], item["w"]
        bgs = D.backgrounds(8 * w, item["k"])
        walkset = set(D.walk(8 * w))
        n = 0
        for half in range(w // 2):
            if half % item["parts"] != item["part"]:
                continue
            for v in range(65536):
                for bg in bgs:
                    pat = half_value(w, half, v, bg)
                    dup = pat in walkset or any(in_half_sweep(w, j, pat, bgs) for j in range(half)) or any(half_value(w, half, v, b2) == pat for b2 in bgs[:bgs.index(bg)])
                    check_helper(rec, signed, w, as_signed(pat, w) if signed else pat, nontrivial=not dup)
                    n += 1
        rec.count("helper_values", n)
    elif kind == "helper_range":
        signed = item["signed"]
        n = 0
        for w in WIDTHS:
            lo, hi = (-(1 << (8 * w - 1)), (1 << (8 * w - 1)) - 1) if signed else (0, (1 << (8 * w)) - 1)
            for v in D.out_of_range(hi, item["n"], lo):
                check_helper(rec, signed, w, v)
                n += 1
        rec.count("helper_out_of_range_values", n)
    return rec.result()


# ------------------------------------------------------------------------- replay
def replay(case):
    global _REC
    _fresh_library()
    rec = _REC = Rec(PROPERTY, "replay")
    case = unhex(case)
    k = case["kind"]
    if k == "unhashable":
        import spacepackets.util as u
        rec.case(True, ops=1)
        cls = getattr(u, case["cls"])
        for args in ((), (0,), (0, 0), (0, 1), (1, 0)):
            try:
                obj = cls(*args)
            except Exception:
                continue
            hash(obj)
            break
        return rec.result()
    if k == "field":
        check_field(rec, case["w"], int(case["v"]))
    elif k == "refuse_value":
        check_refuse_value(rec, case["ctor"], case["w"], int(case["v"]))
    elif k == "refuse_width":
        check_refuse_width(rec, case["how"], case["w"])
    elif k == "refuse_short":
        check_refuse_short(rec, case["how"], case["w"], case["raw"])
    elif k == "history":
        check_history(rec, case["w"], int(case["v0"]), case["ops"])
    elif k == "ohist":
        check_obs_history(rec, case["w"], case["entry"], int(case["v0"]), case["events"])
    elif k == "alias":
        check_alias(rec, case["w"], int(case["v"]), case["entry"], case["how"])
    elif k == "eq":
        check_eq_pair(rec, (case["a"][0], int(case["a"][1])), (case["b"][0], int(case["b"][1])), *case["how"])
    elif case["kind"] == "intsub":
        check_int_subclasses(rec)
    elif k == "hashdep":
        check_hash_dependence(rec)
    elif k == "helper":
        check_helper(rec, case["signed"], case["w"], int(case["v"]))
    return rec.result()


def finalize(tier, agg):
    c = agg["counters"]
    return {"per_width_coverage": {"0": f"{c.get('width0_values', 0)}/1", "1": f"{c.get('width1_values', 0)}/256", "2": f"{c.get('width2_values', 0)}/65536",
                                   "4": {f"half{h}": f"{c.get(f'width4_half{h}_values', 0)}/65536" for h in range(2)},
                                   "8": {f"half{h}": f"{c.get(f'width8_half{h}_values', 0)}/65536" for h in range(4)}}}
