"""C13 - space-packet stream parser under any fragmentation (engine H).

A *schedule* for a stream of n octets assigns each of the n-1 gaps one of
{0: no cut, 1: cut (separate deque entry), 2: cut and call the parser}; the parser is
always called once more at the end (and once again: idempotence), and streams that end in
an incomplete packet get the missing octets appended afterwards.  The reference model is
the byte string itself.  DESIGN.md section 4, C13.

Two-queue mode: the analysis queue is caller-owned, so a process may run several of them
(two TM links).  Two independent (stream, deque) pairs, each with its own schedule, and
every merge of the two sequences of parser calls; the per-queue oracle is applied to BOTH
queues after every parser call.  Appends do not involve the library, so they commute with
the other queue's events: the merges of the parser-call sequences represent every
interleaving of the finer {append chunk, parse} events.

Independence (theme A): every list the parser returned and every bytearray in it is held
(the very objects) and re-observed after every later parser call of the run and, through
mc.alias.Keeper, after the following cases of the shard."""

from __future__ import annotations

import collections
import itertools

from mc.alias import Keeper
from mc.rec import Rec, unhex
from ref import ccsds as R

PROPERTY = "C13"
LEVEL = "model_checking"
EXHAUSTIVE = True
RULE = (
    "streams = sequences of <= B items from {A7,A9,B8,A13 (payload contains registered-ID octets), garbage runs G1,G3,G7 of 0xFF} "
    "optionally ending in an incomplete packet (prefix 1..8 of A9); plus every stream of <= 3 items over {A7,B8,H2} that contains the "
    "garbage run H2 = 00 19 (first octets of both registered IDs, never a registered ID) and streams around a 265-octet packet A265 "
    "(length field 0x0102: both octets significant; H2 streams: every cut set with <= KCUT cuts, A265 streams: <= 1 cut quick / <= 2 thorough, each cut plain or parsing); per product stream every schedule in {no cut, cut, cut+parse}^(n-1) for "
    "n <= NALL, and for longer streams every cut set with <= KCUT cuts x every choice of which cuts also parse; "
    "state-hashing exploration (position, exact chunk tuple, packets emitted) in the thorough tier. After every parser call: returned "
    "packets so far == the complete registered packets available, byte-identical and in order; the deque content is a suffix of the "
    "appended octets, starts at or after the last returned packet and at or before the pending packet's first octet. "
    "TWO QUEUES: every unordered pair (incl. twice the same) of the streams TWO_STREAMS (queue 2 uses different sequence counts and payload), "
    "each stream cut at every cut set with <= 2 cuts (<= 3 chunks; total cuts bounded per tier), every merge of the two "
    "parser-call sequences (incl. the completion of an incomplete tail), then one idle call per queue; both queues are checked with the "
    "same oracle after EVERY call; registration modes: both IDs for both queues / each queue only the IDs occurring in its stream, "
    "passed through ONE list object rewritten in place before each call. INDEPENDENCE: returned lists and bytearrays re-observed after "
    "every later call of the run and after the next 2 cases of the shard."
)
BOUNDS = {"quick": "items<=3, all 3^(n-1) schedules for n<=11, <=3 cuts beyond (n<=34); A265 streams <=1 cut; two queues: 9 streams (7..17 octets), 45 pairs, <=2 cuts per queue and <=3 in total, every cut parses, all merges",
          "thorough": "items<=3 all schedules n<=14, <=4 cuts beyond; items<=4 with <=2 cuts; A265 streams <=2 cuts; state-hashing BFS on selected streams; two queues: <=2 cuts per queue (total <=4), cuts plain or parsing when total <=3, all merges"}
ASSUMPTIONS = [
    "garbage alphabet is 0xFF runs and 00 19; the generator asserts that no two-octet window starting in garbage matches a registered ID under the 13-bit mask (the property only speaks about such octets)",
    "single-threaded caller: schedules are append/parse interleavings, not thread interleavings",
    "two-queue mode: appending to a deque does not involve the library, so only the order of parser calls (and the exact deque content at each call) is enumerated",
    "independence: the caller does not modify returned packets or queued chunks; a returned list / bytearray is expected to keep its value while the library is used further",
]

# registered ids: A = TM, no sec hdr, apid 0x055 (octets 00 55); B = TC, sec hdr, apid 0x123 (octets 19 23)
A = (0, 0, 0x055)
B = (1, 1, 0x123)


E_ID = (1, 0, 0x055)  # TC, same APID as A
I_ID = (0, 0, 0x7FF)  # idle APID
F_ID = (0, 1, 0x003)  # octets 08 03
H_ID = (1, 1, 0x005)  # octets 18 05: the low octet of F followed by the high octet of H (03 18) is NOT a registered ID
FILLERS = (bytes([0x19, 0x23, 0x00, 0x55, 0x00, 0x00, 0x00]), bytes([0x00, 0x55, 0x01, 0x02, 0x19, 0x23, 0x7F]))


def _pkt(idt, total, seq, variant=0):
    typ, shf, apid = idt
    hdr = R.sp_header(0, typ, shf, apid, 3, seq + 0x20 * variant, total - 7)
    # payload deliberately contains the octets of both registered IDs and a plausible length field
    filler = FILLERS[variant]
    return hdr + (filler * (total // 7 + 1))[: total - 6]


def _items(variant):
    it = collections.OrderedDict()
    it["A7"] = _pkt(A, 7, 1, variant)
    it["A9"] = _pkt(A, 9, 2, variant)
    it["B8"] = _pkt(B, 8, 3, variant)
    it["A13"] = _pkt(A, 13, 4, variant)
    it["A17"] = _pkt(A, 17, 5, variant)  # two-queue mode: longer than two short packets together
    it["A265"] = _pkt(A, 265, 6, variant)  # length field 0x0102
    it["G1"] = b"\xff"
    it["G3"] = b"\xff" * 3
    it["G7"] = b"\xff" * 7
    it["H2"] = b"\x00\x19"  # first octet of ID A, first octet of ID B: half an ID is not an ID
    # single octets that look like the first octet of a registered ID (with and without version bits) directly in front
    # of a packet, and an odd-length run of them: a scanner that strides over "no ID here" lands inside the packet
    it["H1a"] = b"\x00"
    it["H1b"] = b"\x19"
    it["H1c"] = b"\xe0"
    it["H1d"] = b"\xf9"
    it["H3"] = b"\x00\x19\x00"
    # the word one above the largest registered ID (0x1923 -> 19 24): a table indexed by the ID is one entry short for it
    it["M2"] = b"\x19\x24"
    it["M2v"] = b"\xf9\x24"  # the same with version bits set
    # other registered IDs (shards "idset"): a TC with the APID of A (same APID, other packet type), the idle APID 0x7FF, and a
    # packet of ID A whose version field is not 0 (the packet ID is type, secondary-header flag and APID: it is registered)
    it["E8"] = _pkt(E_ID, 8, 9, variant)
    it["I9"] = _pkt(I_ID, 9, 10, variant)
    v9 = bytearray(_pkt(A, 9, 11, variant))
    v9[0] |= 5 << 5
    it["V9"] = bytes(v9)
    # two IDs whose octets, written one after the other, contain a third pair (low octet of one, high octet of the other):
    # that pair as stray octets between packets "cannot be a registered packet ID" and must be skipped
    it["F7"] = _pkt(F_ID, 7, 12, variant)
    it["K8"] = _pkt(H_ID, 8, 13, variant)
    it["Sfh"] = b"\x03\x18"
    it["Shf"] = b"\x05\x08"
    it["Sm"] = b"\x18\x06"  # one above the larger of the two IDs
    # the largest packets the length field allows (total 65536 / 65542 octets, length field 0xFFF9 / 0xFFFF)
    it["A65536"] = _pkt(A, 65536, 7, variant)
    it["A65542"] = _pkt(A, 65542, 8, variant)
    return it


ITEMS_V = (_items(0), _items(1))  # variant 1: queue 2 of the two-queue mode (other sequence counts, other payload)
ITEMS = ITEMS_V[0]
PACKETS = ("A7", "A9", "B8", "A13")  # alphabet of the enumerated streams
IDSET_PACKETS = ("E8", "I9", "V9")
STRADDLE_PACKETS = ("F7", "K8")
ALL_PACKETS = PACKETS + ("A17", "A265", "A65536", "A65542") + IDSET_PACKETS + STRADDLE_PACKETS
GARBAGE = ("G1", "G3", "G7")
TAIL_SRC = "A9"


def ids_raw():
    return [(t << 12 | s << 11 | a) for (t, s, a) in (A, B, C_ID, E_ID, I_ID, F_ID, H_ID)]


_BUILD_CACHE = {}


def build_stream(names, variant=0):
    """names: list of item names, the last may be 'T<k>' (first k octets of A9).
    returns (stream, spans of complete packets, tail_start or None, missing octets)"""
    key = (tuple(names), variant)
    if key in _BUILD_CACHE:
        return _BUILD_CACHE[key]
    items = ITEMS_V[variant]
    stream = b""
    spans = []
    tail_start = None
    missing = b""
    garbage_pos = []
    for nm in names:
        if nm.startswith("T"):
            k = int(nm[1:])
            tail_start = len(stream)
            stream += items[TAIL_SRC][:k]
            missing = items[TAIL_SRC][k:]
        else:
            b = items[nm]
            if nm in ALL_PACKETS:
                spans.append((len(stream), len(stream) + len(b)))
            else:
                garbage_pos += list(range(len(stream), len(stream) + len(b)))
            stream += b
    # alphabet self-check: no window starting in garbage matches a registered id
    full = stream + missing
    raw = set(ids_raw())
    for p in garbage_pos:
        if p + 1 < len(full):
            assert ((full[p] << 8 | full[p + 1]) & 0x1FFF) not in raw, "garbage alphabet violates the precondition"
    _BUILD_CACHE[key] = (stream, spans, tail_start, missing)
    return _BUILD_CACHE[key]


def extra_stream_names():
    """streams outside the product alphabet (theme: value conjunctions the product never reaches)"""
    out = []
    # every stream of <= 3 items over {A7, B8, H2} that contains H2 (no two adjacent H2), tails T2 / T7 while < 3 items
    for H in HALF_ID_GARBAGE:
        alpha = ("A7", "B8", H)
        for L in range(1, 4):
            for body in itertools.product(alpha, repeat=L):
                if H not in body or any(body[i] == H == body[i + 1] for i in range(L - 1)):
                    continue
                for t in ((None, "T2", "T7") if L < 3 else (None,)):
                    names = list(body) + ([t] if t else [])
                    if any(n in PACKETS or n.startswith("T") for n in names):
                        out.append(names)
    return out


HALF_ID_GARBAGE = ("H2", "H1a", "H1b", "H1c", "H1d", "H3", "M2", "M2v")
HUGE_STREAMS = (["A65536"], ["A65542"], ["A7", "A65542", "B8"], ["A65536", "T3"])
# a third registered ID that never occurs in a stream, and the six orders in which a caller may list the three IDs
C_ID = (1, 0, 0x2AA)
ID_ORDERS = ((0, 1), (1, 0), (0, 1, 2), (0, 2, 1), (1, 0, 2), (1, 2, 0), (2, 0, 1), (2, 1, 0),
             # larger ID sets (indexes into (A, B, C_ID, E_ID, I_ID)): two IDs sharing an APID, the idle APID
             (0, 1, 3, 4), (4, 3, 1, 0), (3, 0, 4, 1, 2),
             # two IDs that spell a third octet pair where they meet in a list (indexes 5, 6 = F_ID, H_ID), in both orders
             (5, 6), (6, 5), (0, 5, 6, 1),
             # the same ID listed twice (IDs taken from the headers of two packets of one APID)
             (0, 0, 1), (1, 0, 1, 0))
DUP_ORDERS = (14, 15)
STRADDLE_ORDERS = (11, 12, 13)


def straddle_stream_names():
    """every body of <= 3 items over {F7, K8, Sfh, Shf} that contains a stray pair and a packet (no two adjacent stray pairs), bodies
    of < 3 items also followed by a tail T2 / T7 (the tail's ID A is registered in the third order only: there it is a packet begun,
    in the other two it is stray data that no window of which is a registered ID)"""
    out = []
    for L in range(2, 4):
        for body in itertools.product(("F7", "K8", "Sfh", "Shf", "Sm"), repeat=L):
            if not any(b[0] == "S" for b in body) or not any(b[0] != "S" for b in body):
                continue
            if any(body[i][0] == "S" == body[i + 1][0] for i in range(L - 1)):
                continue
            out.append(list(body))
    return out
IDSET_ORDERS = (8, 9, 10)


def idset_stream_names():
    """every body of <= 3 items over {A7, B8, E8, I9, V9, G1} that contains one of E8, I9, V9 (no two adjacent garbage runs),
    bodies of < 3 items also followed by a tail T2 / T7"""
    alpha = ("A7", "B8") + IDSET_PACKETS + ("G1",)
    out = []
    for L in range(1, 4):
        for body in itertools.product(alpha, repeat=L):
            if not any(b in IDSET_PACKETS for b in body) or any(body[i] == "G1" == body[i + 1] for i in range(L - 1)):
                continue
            for t in ((None, "T2", "T7") if L < 3 else (None,)):
                out.append(list(body) + ([t] if t else []))
    return out


def sparse_gaps(n, spans, tail_start):
    """cut positions for the huge streams: every gap within 16 octets of the stream's ends and of every packet boundary,
    and every 4093rd gap in between (a stated sub-alphabet of the cut positions; gap g = cut after octet g)"""
    marks = [0, n - 1] + [x for (a, b) in spans for x in (a, b)] + ([tail_start] if tail_start is not None else [])
    gs = set(range(0, n - 1, 4093))
    for m in marks:
        gs.update(g for g in range(m - 17, m + 16) if 0 <= g < n - 1)
    return sorted(gs)


LONG_STREAMS = (["A265"], ["A7", "A265"], ["A265", "B8"], ["G3", "A265"], ["A265", "T7"], ["H2", "A265", "T3"])


def stream_names(max_items):
    """all bodies of <= max_items items without two adjacent garbage runs, each optionally followed by a tail T1..T8"""
    alphabet = list(PACKETS) + list(GARBAGE)
    out = []
    for L in range(0, max_items + 1):
        for body in itertools.product(alphabet, repeat=L):
            if any(body[i] in GARBAGE and body[i + 1] in GARBAGE for i in range(L - 1)):
                continue
            tails = [None] + ["T%d" % k for k in range(1, 9)]
            for t in tails:
                names = list(body) + ([t] if t else [])
                if not any(n in PACKETS or n.startswith("T") for n in names):
                    continue
                if t and L == max_items and max_items >= 3:
                    # keep the item bound: a tail counts as an item
                    continue
                out.append(names)
    return out


# ------------------------------------------------------------------ one execution
INDEP = "independence/parse_space_packets"  # + which result changed; one signature per kind of result, whatever the schedule


def _mk_sig(kind, tail):
    if kind.startswith("independence/"):
        return "C13." + "/".join(kind.split("/")[:3])
    return f"C13.{kind}/{tail}"


def _observe_held(objs):
    return tuple(bytes(x) for x in objs)


def run_schedule(sp, pids, stream, spans, tail_start, missing, sched, held=None):
    """sched: sequence of n-1 actions (0,1,2).  Returns None or (kind, detail)."""
    n = len(stream)
    dq = collections.deque()
    returned = []
    objs = held if held is not None else []  # the very bytearrays the parser returned
    lists = []  # (the very list a call returned, its value at that time)
    chunk_start = 0
    calls = 0
    outcome = []

    def check(pos, res):
        nonlocal returned
        # independence: the lists and bytearrays handed out by earlier calls still have their value
        if [bytes(x) for x in objs] != returned:
            return (INDEP + "/returned-packet-changed-by-a-later-call", {"pos": pos, "now": [bytes(x) for x in objs], "when_returned": returned})
        for lst, snap in lists:
            if [bytes(x) for x in lst] != snap:
                return (INDEP + "/returned-list-changed-by-a-later-call", {"pos": pos, "now": [bytes(x) for x in lst], "when_returned": snap})
        if res is not None:
            objs.extend(res)
            lists.append((res, [bytes(x) for x in res]))
            returned += [bytes(x) for x in res]
        expected = [stream_all[s:e] for (s, e) in all_spans if e <= pos]
        if returned != expected:
            if len(returned) < len(expected) and returned == expected[: len(returned)]:
                return ("returned/packet-missing", {"pos": pos, "returned": returned, "expected": expected})
            return ("returned/wrong-packets", {"pos": pos, "returned": returned, "expected": expected})
        q = b"".join(bytes(c) for c in dq)
        so_far = stream_all[:pos]
        if not so_far.endswith(q):
            return ("queue/not-a-suffix-of-appended-octets", {"pos": pos, "queue": q, "appended": so_far})
        qstart = pos - len(q)
        last_end = max([e for (s, e) in all_spans if e <= pos], default=0)
        if qstart < last_end:
            return ("queue/contains-returned-octets", {"pos": pos, "queue": q})
        pend = [s for (s, e) in all_spans if e > pos and s < pos]
        if pend and qstart > pend[0]:
            return ("queue/incomplete-tail-lost", {"pos": pos, "queue": q, "tail": so_far[pend[0]:]})
        outcome.append((len(returned), len(q)))
        return None

    stream_all = stream + missing
    all_spans = list(spans) + ([(tail_start, tail_start + len(ITEMS[TAIL_SRC]))] if tail_start is not None else [])
    for gap in range(1, n + 1):
        action = sched[gap - 1] if gap < n else 2
        if action == 0:
            continue
        dq.append(bytearray(stream[chunk_start:gap]))
        chunk_start = gap
        if action == 2:
            calls += 1
            r = check(gap, sp.parse_space_packets(dq, pids))
            if r:
                return r, calls, None
    # idempotence: a second call without new data returns nothing and keeps the tail
    before = b"".join(bytes(c) for c in dq)
    calls += 1
    res = sp.parse_space_packets(dq, pids)
    if res:
        return ("returned/packet-returned-twice", {"pos": n, "returned": [bytes(x) for x in res]}), calls, None
    r = check(n, None)
    if r:
        return (r[0] + "/after-idle-call", r[1]), calls, None
    if missing:
        dq.append(bytearray(missing))
        calls += 1
        r = check(n + len(missing), sp.parse_space_packets(dq, pids))
        if r:
            return (r[0] + "/completion", r[1]), calls, None
    return None, calls, tuple(outcome)


def schedules_for(n, mode, kcut, gaps=None):
    """mode 'all': every element of {0,1,2}^(n-1); mode 'cuts': every cut set with <= kcut cuts, each cut plain or +parse"""
    if mode == "all":
        yield from itertools.product((0, 1, 2), repeat=n - 1)
        return
    gaps = range(n - 1) if gaps is None else gaps
    for k in range(0, kcut + 1):
        for cs in itertools.combinations(gaps, k):
            for acts in itertools.product((1, 2), repeat=k):
                s = [0] * (n - 1)
                for g, a in zip(cs, acts):
                    s[g] = a
                yield tuple(s)


def _sp():
    import spacepackets.ccsds.spacepacket as sp

    return sp


def _pids(sp, order=0):
    """the registered IDs as the caller lists them: ID_ORDERS[order] indexes (A, B, C_ID)"""
    known = (A, B, C_ID, E_ID, I_ID, F_ID, H_ID)
    return [sp.PacketId(sp.PacketType(t), bool(s), a) for (t, s, a) in (known[i] for i in ID_ORDERS[order])]


def _feature(stream, spans, tail_start, detail, sched):
    """coarse trigger feature for the signature: does a cut fall <= 6 octets into a packet?"""
    starts = [s for (s, e) in spans] + ([tail_start] if tail_start is not None else [])
    cuts = [g + 1 for g, a in enumerate(sched) if a] + [len(stream)]
    for c in cuts:
        for s in starts:
            if 0 < c - s <= 6:
                return "cut<=6-octets-into-packet"
    return "other"


def explore_stream(rec, names, mode, kcut, keeper, order=0):
    sp = _sp()
    pids = _pids(sp, order)
    stream, spans, tail_start, missing = build_stream(names)
    n = len(stream)
    outcomes = set()
    nsched = 0
    gaps = sparse_gaps(n, spans, tail_start) if mode == "sparse" else None
    for sched in schedules_for(n, mode, kcut, gaps):
        nsched += 1
        held = []
        v, calls, outcome = run_schedule(sp, pids, stream, spans, tail_start, missing, sched, held)
        case = {"names": names, "sched": sched if n < 300 else [g for g, a in enumerate(sched) if a]}
        keeper.recheck(case)
        keeper.hold("parse_space_packets", held, _observe_held, case)
        rec.transitions += calls + sum(1 for a in sched if a) + 1
        if v:
            kind, detail = v
            feat = _feature(stream, spans, tail_start, detail, sched)
            if order:
                feat += "/ids-listed-in-another-order" if order < 8 else "/larger-id-set"
            vcase = {"names": names, "order": order}
            if n < 300:
                vcase["sched"] = "".join(map(str, sched))
            else:  # sparse encoding of a long schedule: [[gap, action], ...]
                vcase["cuts"] = [[g, a] for g, a in enumerate(sched) if a]
                detail = jsonable_short(detail)
            rec.violation(_mk_sig(kind, feat), vcase, detail, None, repro=_repro(names, sched, order) if n < 300 else None)
        else:
            outcomes.add(outcome)
    rec.states += nsched
    rec.traces += nsched
    rec.evaluations += nsched
    rec.nontrivial += nsched if n > 1 else 0
    rec.ops += nsched
    rec.count("streams", 1)
    rec.count("schedules_" + ("cuts" if mode == "sparse" else mode), nsched)
    if mode == "sparse":
        rec.count("huge_stream_schedules", nsched)
    if order:
        rec.count("schedules_with_ids_listed_in_another_order", nsched)
    for o in outcomes:
        rec.outcome(repr(o))
    rec.extra.setdefault("distinct_outcomes_per_stream", []).append(len(outcomes))
    if len(rec.samples) < 2:
        rec.sample({"stream_items": names, "octets": stream.hex(), "mode": mode, "schedules": nsched, "example_schedule": "".join(map(str, sched))})


def jsonable_short(x):
    """detail of a violation on a huge stream: octet strings shortened"""
    if isinstance(x, (bytes, bytearray)):
        return {"len": len(x), "head": bytes(x[:16]).hex()}
    if isinstance(x, dict):
        return {k: jsonable_short(v) for k, v in x.items()}
    if isinstance(x, (list, tuple)):
        return [jsonable_short(v) for v in x]
    return x


def _repro(names, sched, order=0):
    stream, spans, tail_start, missing = build_stream(names)
    known = (A, B, C_ID, E_ID, I_ID, F_ID, H_ID)
    ids = ", ".join("PacketId(PacketType(%d), %s, 0x%03x)" % (t, bool(sh), a) for (t, sh, a) in (known[i] for i in ID_ORDERS[order]))
    return (
        "import collections\nfrom spacepackets.ccsds.spacepacket import *\n"
        f"stream = bytes.fromhex('{stream.hex()}'); sched = '{''.join(map(str, sched))}'  # 1 = chunk boundary, 2 = boundary + parse\n"
        f"ids = [{ids}]\n"
        "dq = collections.deque(); out = []; start = 0\n"
        "for gap in range(1, len(stream) + 1):\n"
        "    a = int(sched[gap - 1]) if gap < len(stream) else 2\n"
        "    if a == 0: continue\n"
        "    dq.append(bytearray(stream[start:gap])); start = gap\n"
        "    if a == 2: out += parse_space_packets(dq, ids)\n"
        "print([bytes(p).hex() for p in out], [bytes(c).hex() for c in dq])\n"
    )


# ------------------------------------------------------------------ two independent queues
TWO_STREAMS = (["A7"], ["B8"], ["A13"], ["A17"], ["B8", "A7"], ["G3", "A9"], ["A9", "T4"], ["A7", "T7"], ["B8", "T3"])
REG_MODES = ("AB", "own")


class _Queue:
    """one (stream, deque) pair with the per-queue oracle of run_schedule, tables precomputed per position"""

    def __init__(self, names, variant):
        stream, spans, tail_start, missing = build_stream(names, variant)
        self.names = names
        self.n = len(stream)
        self.full = stream + missing
        self.N = len(self.full)
        sp_all = list(spans) + ([(tail_start, tail_start + len(ITEMS[TAIL_SRC]))] if tail_start is not None else [])
        self.packets = [self.full[s:e] for (s, e) in sp_all]
        self.nexp = [sum(1 for (s, e) in sp_all if e <= pos) for pos in range(self.N + 1)]
        self.last_end = [max([e for (s, e) in sp_all if e <= pos], default=0) for pos in range(self.N + 1)]
        self.pend = [min([s for (s, e) in sp_all if e > pos and s < pos], default=None) for pos in range(self.N + 1)]
        # registration "own": exactly the IDs that occur in the stream (tail = A9)
        own = []
        for nm in names:
            idt = A if (nm.startswith("A") or nm.startswith("T")) else (B if nm.startswith("B") else None)
            if idt is not None and idt not in own:
                own.append(idt)
        self.own = tuple(sorted(own))
        self.reset()

    def reset(self):
        self.dq = collections.deque()
        self.pos = 0
        self.objs = []  # the very bytearrays the parser returned for this queue
        self.held_values = []  # their values when returned
        self.lists = []  # (the very list a call returned, its value at that time)

    def events(self, sched):
        """parser-call events of a schedule: each = list of (start, end) chunks appended before the call"""
        evs, chunks, start = [], [], 0
        for gap in range(1, self.n + 1):
            a = sched[gap - 1] if gap < self.n else 2
            if a == 0:
                continue
            chunks.append((start, gap))
            start = gap
            if a == 2:
                evs.append(chunks)
                chunks = []
        if self.N > self.n:
            evs.append([(self.n, self.N)])  # completion of the incomplete tail
        return evs

    def after_call(self, res):
        """res: list returned by a call on THIS queue, None after a call on the other queue / an idle call"""
        pos = self.pos
        k = len(self.objs)
        if [bytes(x) for x in self.objs] != self.held_values:
            return (INDEP + "/returned-packet-changed-by-a-later-call", {"pos": pos, "now": [bytes(x) for x in self.objs], "when_returned": self.held_values})
        for lst, snap in self.lists:
            if [bytes(x) for x in lst] != snap:
                return (INDEP + "/returned-list-changed-by-a-later-call", {"pos": pos, "now": [bytes(x) for x in lst], "when_returned": snap})
        if res is not None:
            new = [bytes(x) for x in res]
            want = self.packets[k:self.nexp[pos]]
            self.objs.extend(res)
            self.held_values.extend(new)
            self.lists.append((res, new))
            if new != want:
                kind = "returned/packet-missing" if (len(new) < len(want) and new == want[:len(new)]) else "returned/wrong-packets"
                return (kind, {"pos": pos, "returned_by_this_call": new, "expected": want})
        elif k != self.nexp[pos]:
            return ("returned/packet-missing", {"pos": pos, "returned_so_far": self.packets[:k], "expected": self.packets[:self.nexp[pos]]})
        q = b"".join(bytes(c) for c in self.dq)
        qstart = pos - len(q)
        if qstart < 0 or self.full[qstart:pos] != q:
            return ("queue/not-a-suffix-of-appended-octets", {"pos": pos, "queue": q, "appended": self.full[:pos]})
        if qstart < self.last_end[pos]:
            return ("queue/contains-returned-octets", {"pos": pos, "queue": q})
        pd = self.pend[pos]
        if pd is not None and qstart > pd:
            return ("queue/incomplete-tail-lost", {"pos": pos, "queue": q, "tail": self.full[pd:pos]})
        return None


def _reg_lists(sp, qs, reg):
    """per queue the registration passed to the parser.  'AB': one list with both IDs, never touched.  'own': ONE list
    object, rewritten in place before every call with exactly the IDs occurring in that queue's stream."""
    mk = lambda ids: [sp.PacketId(sp.PacketType(t), bool(s), a) for (t, s, a) in ids]  # noqa: E731
    if reg == "AB":
        both = mk((A, B))
        return both, [both, both]
    return [], [mk(q.own) for q in qs]


def run_two(sp, qs, evs, merge, reg, regctx):
    """evs: per queue the parser-call events; merge: string over 'a','b' = order of the parser calls.
    Returns None or (kind, which queue, detail); number of calls"""
    for q in qs:
        q.reset()
    nxt = [0, 0]
    ids_obj, regs = regctx
    calls = 0

    def call(i):
        if reg == "own":
            ids_obj[:] = regs[i]
        return sp.parse_space_packets(qs[i].dq, ids_obj)

    for ch in merge:
        i = 0 if ch == "a" else 1
        q = qs[i]
        for (s, e) in evs[i][nxt[i]]:
            q.dq.append(bytearray(q.full[s:e]))
            q.pos = e
        nxt[i] += 1
        calls += 1
        r = q.after_call(call(i))
        if r:
            return (r[0], "called-queue", r[1]), calls
        r = qs[1 - i].after_call(None)
        if r:
            return (r[0], "other-queue", r[1]), calls
    for i in (0, 1):  # idempotence: a call without new data returns nothing and changes neither queue
        calls += 1
        res = call(i)
        if res:
            return ("returned/packet-returned-twice", "called-queue", {"returned": [bytes(x) for x in res]}), calls
        for j, which in ((i, "called-queue"), (1 - i, "other-queue")):
            r = qs[j].after_call(None)
            if r:
                return (r[0] + "/after-idle-call", which, r[1]), calls
    return None, calls


def two_cutsets(n, kcuts, plain):
    """every schedule with exactly kcuts cuts; cuts parse (2), or are plain / parsing in every combination if plain"""
    for cs in itertools.combinations(range(n - 1), kcuts):
        for acts in (itertools.product((1, 2), repeat=kcuts) if plain else ((2,) * kcuts,)):
            s = [0] * (n - 1)
            for g, a in zip(cs, acts):
                s[g] = a
            yield tuple(s)


def two_budget(tier):
    """(ka, kb, plain) combinations, simplest first"""
    out = []
    maxtot = 3 if tier == "quick" else 4
    for tot in range(0, maxtot + 1):
        for ka in range(0, 3):
            kb = tot - ka
            if 0 <= kb <= 2:
                out.append((ka, kb, tier != "quick" and tot <= 3))
    return out


def _merges(m, k):
    for pos in itertools.combinations(range(m + k), m):
        t = ["b"] * (m + k)
        for x in pos:
            t[x] = "a"
        yield "".join(t)


def two_sig(kind, which):
    return _mk_sig(kind, "two-queues/" + which)


def explore_two(rec, names_a, names_b, reg, ka, kb, plain, keeper):
    sp = _sp()
    qs = [_Queue(names_a, 0), _Queue(names_b, 1)]
    ncase = 0
    ncalls = 0
    merge_cache = {}
    regctx = _reg_lists(sp, qs, reg)
    case = None
    for sa in two_cutsets(qs[0].n, ka, plain):
        ea = qs[0].events(sa)
        ma = len(ea)
        for sb in two_cutsets(qs[1].n, kb, plain):
            eb = qs[1].events(sb)
            mb = len(eb)
            if (ma, mb) not in merge_cache:
                merge_cache[(ma, mb)] = list(_merges(ma, mb))
            for merge in merge_cache[(ma, mb)]:
                ncase += 1
                v, calls = run_two(sp, qs, (ea, eb), merge, reg, regctx)
                ncalls += calls
                case = {"two": [names_a, names_b], "scheds": [sa, sb], "merge": merge, "reg": reg}
                keeper.recheck(case)
                keeper.hold("parse_space_packets", qs[0].objs + qs[1].objs, _observe_held, case)
                if v:
                    kind, which, detail = v
                    rec.violation(two_sig(kind, which), case, detail, None, repro=_repro_two(case))
                else:
                    rec.outcome("two:%d+%d packets, %d calls" % (len(qs[0].objs), len(qs[1].objs), calls))
    rec.states += ncase
    rec.traces += ncase
    rec.evaluations += ncase
    rec.nontrivial += ncase
    rec.ops += ncalls
    rec.transitions += ncalls
    rec.count("two_queue_cases", ncase)
    rec.count("two_queue_parser_calls", ncalls)
    rec.count("two_queue_cases_reg_" + reg, ncase)
    if ka + kb >= 2 and not any(isinstance(x, dict) and "two" in x for x in rec.samples):
        rec.sample({"two": [names_a, names_b], "octets": [qs[0].full.hex(), qs[1].full.hex()], "cuts": [ka, kb], "reg": reg, "cases": ncase, "example": case}, limit=4)


def _repro_two(case):
    qa, qb = _Queue(case["two"][0], 0), _Queue(case["two"][1], 1)
    own = {q: [("PacketId(PacketType.%s, %s, 0x%03x)" % ("TC" if t else "TM", bool(s), a)) for (t, s, a) in (x.own if case["reg"] == "own" else (A, B))]
           for q, x in (("a", qa), ("b", qb))}
    return (
        "import collections\nfrom spacepackets.ccsds.spacepacket import *\n"
        f"full = {{'a': bytes.fromhex('{qa.full.hex()}'), 'b': bytes.fromhex('{qb.full.hex()}')}}\n"
        f"events = {{'a': {qa.events(case['scheds'][0])!r}, 'b': {qb.events(case['scheds'][1])!r}}}  # per parser call: chunks (start, end) appended before it\n"
        f"ids = {{'a': [{', '.join(own['a'])}], 'b': [{', '.join(own['b'])}]}}\n"
        "dq = {'a': collections.deque(), 'b': collections.deque()}; out = {'a': [], 'b': []}; reg = []\n"
        f"for q in '{case['merge']}':\n"
        "    for (s, e) in events[q].pop(0): dq[q].append(bytearray(full[q][s:e]))\n"
        "    reg[:] = ids[q]; out[q] += parse_space_packets(dq[q], reg)\n"
        "    print(q, {k: [bytes(p).hex() for p in v] for k, v in out.items()}, {k: [bytes(c).hex() for c in v] for k, v in dq.items()})\n"
    )


# ------------------------------------------------------------------ state-hashing BFS (thorough)
def bfs_stream(rec, names, max_chunks):
    """explicit-state search: state = (appended position, exact chunk tuple in the deque, packets emitted).
    events: append the next k octets as one chunk (any k), parse.  States are rebuilt by replaying histories."""
    sp = _sp()
    pids = _pids(sp)
    stream, spans, tail_start, missing = build_stream(names)
    full = stream + missing
    n = len(full)
    all_spans = list(spans) + ([(tail_start, tail_start + len(ITEMS[TAIL_SRC]))] if tail_start is not None else [])

    def step(state, ev):
        pos, chunks, emitted = state
        if ev == "P":
            dq = collections.deque(bytearray(c) for c in chunks)
            res = sp.parse_space_packets(dq, pids)
            emitted2 = emitted + tuple(bytes(x) for x in res)
            return (pos, tuple(bytes(c) for c in dq), emitted2)
        k = ev
        return (pos + k, chunks + (full[pos:pos + k],), emitted)

    def invariant(state, after_parse):
        pos, chunks, emitted = state
        q = b"".join(chunks)
        if not full[:pos].endswith(q):
            return "queue/not-a-suffix-of-appended-octets"
        if after_parse:
            expected = tuple(full[s:e] for (s, e) in all_spans if e <= pos)
            if emitted != expected:
                return "returned/wrong-packets" if not (len(emitted) < len(expected) and emitted == expected[:len(emitted)]) else "returned/packet-missing"
            qstart = pos - len(q)
            last_end = max([e for (s, e) in all_spans if e <= pos], default=0)
            if qstart < last_end:
                return "queue/contains-returned-octets"
            pend = [s for (s, e) in all_spans if e > pos and s < pos]
            if pend and qstart > pend[0]:
                return "queue/incomplete-tail-lost"
        return None

    init = (0, (), ())
    seen = {init: None}
    frontier = collections.deque([init])
    hist = {init: ()}
    while frontier:
        st = frontier.popleft()
        pos, chunks, emitted = st
        evs = []
        if chunks:
            evs.append("P")
        if len(chunks) < max_chunks:
            evs += list(range(1, n - pos + 1))
        for ev in evs:
            nxt = step(st, ev)
            rec.transitions += 1
            bad = invariant(nxt, ev == "P")
            if bad:
                rec.violation(f"C13.{bad}/bfs", {"names": names, "bfs_history": list(hist[st]) + [ev]}, {"state": [nxt[0], [c.hex() for c in nxt[1]], [e.hex() for e in nxt[2]]]}, None)
                continue
            if nxt not in seen:
                seen[nxt] = st
                hist[nxt] = hist[st] + (ev,)
                frontier.append(nxt)
    # liveness at the end: every state with pos == n must, after a parse, have emitted everything
    rec.states += len(seen)
    rec.evaluations += len(seen)
    rec.nontrivial += len(seen)
    rec.traces += len(seen)
    rec.count("bfs_streams", 1)
    rec.count("bfs_states", len(seen))


def replay_bfs(rec, names, history):
    sp = _sp()
    pids = _pids(sp)
    stream, spans, tail_start, missing = build_stream(names)
    full = stream + missing
    all_spans = list(spans) + ([(tail_start, tail_start + len(ITEMS[TAIL_SRC]))] if tail_start is not None else [])
    dq = collections.deque()
    pos = 0
    emitted = []
    for ev in history:
        if ev == "P":
            emitted += [bytes(x) for x in sp.parse_space_packets(dq, pids)]
            expected = [full[s:e] for (s, e) in all_spans if e <= pos]
            q = b"".join(bytes(c) for c in dq)
            kind = None
            if not full[:pos].endswith(q):
                kind = "queue/not-a-suffix-of-appended-octets"
            elif emitted != expected:
                kind = "returned/wrong-packets" if not (len(emitted) < len(expected) and emitted == expected[:len(emitted)]) else "returned/packet-missing"
            else:
                qstart = pos - len(q)
                last_end = max([e for (s, e) in all_spans if e <= pos], default=0)
                pend = [s for (s, e) in all_spans if e > pos and s < pos]
                if qstart < last_end:
                    kind = "queue/contains-returned-octets"
                elif pend and qstart > pend[0]:
                    kind = "queue/incomplete-tail-lost"
            if kind:
                rec.violation(f"C13.{kind}/bfs", {"names": names, "bfs_history": history}, {"emitted": emitted, "queue": q}, None)
                return
        else:
            dq.append(bytearray(full[pos:pos + ev]))
            pos += ev


# ------------------------------------------------------------------ shards
def shards(tier):
    items = []
    nall = 11 if tier == "quick" else 14
    kcut = 3 if tier == "quick" else 4
    for names in stream_names(3):
        stream = build_stream(names)[0]
        n = len(stream)
        if n <= nall:
            items.append({"kind": "sched", "names": names, "mode": "all", "kcut": 0, "cost": 3 ** (n - 1)})
        else:
            items.append({"kind": "sched", "names": names, "mode": "cuts", "kcut": kcut, "cost": n ** kcut})
    for names in extra_stream_names():
        n = len(build_stream(names)[0])
        items.append({"kind": "sched", "names": names, "mode": "cuts", "kcut": kcut, "cost": n ** kcut})
    for names in LONG_STREAMS:
        n = len(build_stream(names)[0])
        kl = 1 if tier == "quick" else 2
        items.append({"kind": "sched", "names": list(names), "mode": "cuts", "kcut": kl, "cost": 4 * (2 * n) ** kl})
    for names in HUGE_STREAMS:
        items.append({"kind": "sched", "names": list(names), "mode": "sparse", "kcut": 1 if tier == "quick" else 2, "cost": 10 ** 6})
    # the caller's ID list in every order (and with a third, unused ID): streams of <= 2 items, every schedule / cut set
    for names in stream_names(2):
        n = len(build_stream(names)[0])
        for order in range(1, 8):
            if n <= 9:
                items.append({"kind": "sched", "names": names, "mode": "all", "kcut": 0, "order": order, "cost": 3 ** (n - 1)})
            else:
                items.append({"kind": "sched", "names": names, "mode": "cuts", "kcut": 2, "order": order, "cost": n ** 2})
    # other sets of registered IDs: same APID under both packet types, the idle APID, a packet with a non-zero version field
    for i, names in enumerate(idset_stream_names()):
        n = len(build_stream(names)[0])
        order = IDSET_ORDERS[i % len(IDSET_ORDERS)]
        if n <= 9:
            items.append({"kind": "sched", "names": names, "mode": "all", "kcut": 0, "order": order, "cost": 3 ** (n - 1)})
        else:
            items.append({"kind": "sched", "names": names, "mode": "cuts", "kcut": 2 if tier == "quick" else 3, "order": order, "cost": n ** 2})
    for names in stream_names(2):
        n = len(build_stream(names)[0])
        for order in DUP_ORDERS:
            if n <= 9:
                items.append({"kind": "sched", "names": names, "mode": "all", "kcut": 0, "order": order, "cost": 3 ** (n - 1)})
            else:
                items.append({"kind": "sched", "names": names, "mode": "cuts", "kcut": 2, "order": order, "cost": n ** 2})
    # a long run of packets completed by ONE parser call (a backlog): 1500 packets back to back, the last one incomplete
    items.append({"kind": "sched", "names": ["A7"] * 1500 + ["T3"], "mode": "cuts", "kcut": 0, "cost": 20000})
    for i, names in enumerate(straddle_stream_names()):
        n = len(build_stream(names)[0])
        for order in STRADDLE_ORDERS:
            if n <= 9:
                items.append({"kind": "sched", "names": names, "mode": "all", "kcut": 0, "order": order, "cost": 3 ** (n - 1)})
            else:
                items.append({"kind": "sched", "names": names, "mode": "cuts", "kcut": 2 if tier == "quick" else 3, "order": order, "cost": n ** 2})
    for ia, na in enumerate(TWO_STREAMS):
        for nb in TWO_STREAMS[ia:]:
            la, lb = len(build_stream(na)[0]), len(build_stream(nb)[0])
            for reg in REG_MODES:
                if reg == "own" and _Queue(na, 0).own == _Queue(nb, 1).own == tuple(sorted((A, B))):
                    continue  # same registration as mode AB
                for (ka, kb, plain) in two_budget(tier):
                    cost = 3 * _ncomb(la - 1, ka) * _ncomb(lb - 1, kb) * (4 ** (ka + kb) if plain else _ncomb(ka + kb + 2, ka + 1))
                    items.append({"kind": "two", "a": list(na), "b": list(nb), "reg": reg, "ka": ka, "kb": kb, "plain": plain, "cost": cost})
    if tier == "thorough":
        for names in stream_names(4):
            if len([x for x in names]) < 4:
                continue
            items.append({"kind": "sched", "names": names, "mode": "cuts", "kcut": 2, "cost": 1000})
        for names in (["A7", "B8"], ["G3", "A9"], ["A9", "T3"], ["G1", "A13", "T6"], ["A7", "G1", "B8"], ["B8", "A7", "T1"]):
            items.append({"kind": "bfs", "names": names, "max_chunks": 3, "cost": 10 ** 6})
    # group cheap streams into batches so that shards have comparable cost
    items.sort(key=lambda x: -x["cost"])
    big = [x for x in items if x["cost"] >= 20000]
    small = [x for x in items if x["cost"] < 20000]
    out = [{"batch": [x]} for x in big]
    nb = 64
    for i in range(nb):
        part = small[i::nb]
        if part:
            out.append({"batch": part})
    return out


def _ncomb(n, k):
    r = 1
    for i in range(k):
        r = r * (n - i) // (i + 1)
    return max(r, 0)


def run_shard(item):
    rec = Rec(PROPERTY, {"batch_size": len(item["batch"]), "first": item["batch"][0].get("names") or item["batch"][0].get("a")})
    keeper = Keeper(rec, PROPERTY, depth=2)
    for x in item["batch"]:
        if x["kind"] == "sched":
            explore_stream(rec, x["names"], x["mode"], x["kcut"], keeper, x.get("order", 0))
        elif x["kind"] == "two":
            explore_two(rec, x["a"], x["b"], x["reg"], x["ka"], x["kb"], x["plain"], keeper)
        else:
            bfs_stream(rec, x["names"], x["max_chunks"])
    keeper.recheck(None)
    keeper.flush()
    ex = rec.extra.get("distinct_outcomes_per_stream", [])
    rec.extra = {"min_outcomes": min(ex) if ex else None, "max_outcomes": max(ex) if ex else None}
    return rec.result()


def replay(case):
    rec = Rec(PROPERTY, "replay")
    case = unhex(case)
    if "two" in case:
        sp = _sp()
        qs = [_Queue(case["two"][0], 0), _Queue(case["two"][1], 1)]
        scheds = [tuple(int(c) for c in x) for x in case["scheds"]]
        v, calls = run_two(sp, qs, (qs[0].events(scheds[0]), qs[1].events(scheds[1])), case["merge"], case["reg"], _reg_lists(sp, qs, case["reg"]))
        if v:
            rec.violation(two_sig(v[0], v[1]), case, v[2], None)
        return rec.result()
    names = case["names"]
    if "bfs_history" in case:
        replay_bfs(rec, names, case["bfs_history"])
        return rec.result()
    sp = _sp()
    stream, spans, tail_start, missing = build_stream(names)
    if "cuts" in case:
        sl = [0] * (len(stream) - 1)
        for g, a in case["cuts"]:
            sl[g] = a
        sched = tuple(sl)
    else:
        sched = tuple(int(c) for c in case["sched"])
    order = case.get("order", 0)
    v, calls, outcome = run_schedule(sp, _pids(sp, order), stream, spans, tail_start, missing, sched)
    if v:
        kind, detail = v
        feat = _feature(stream, spans, tail_start, detail, sched) + (("/ids-listed-in-another-order" if order < 8 else "/larger-id-set") if order else "")
        rec.violation(_mk_sig(kind, feat), case, detail if len(stream) < 300 else jsonable_short(detail), None)
    return rec.result()


def finalize(tier, agg):
    mx = [e.get("max_outcomes") for e in agg["extra"] if e.get("max_outcomes")]
    return {"max_distinct_outcomes_in_one_stream": max(mx) if mx else 0,
            "schedules": agg["counters"].get("schedules_all", 0) + agg["counters"].get("schedules_cuts", 0),
            "two_queue_interleavings": agg["counters"].get("two_queue_cases", 0),
            "two_queue_stream_pairs": len(TWO_STREAMS) * (len(TWO_STREAMS) + 1) // 2}
