"""C13 - space-packet stream parser under any fragmentation (engine H).

A *schedule* for a stream of n octets assigns each of the n-1 gaps one of
{0: no cut, 1: cut (separate deque entry), 2: cut and call the parser}; the parser is
always called once more at the end (and once again: idempotence), and streams that end in
an incomplete packet get the missing octets appended afterwards.  The reference model is
the byte string itself.  DESIGN.md section 4, C13."""

from __future__ import annotations

import collections
import itertools

from mc.rec import Rec, unhex
from ref import ccsds as R

PROPERTY = "C13"
LEVEL = "model_checking"
EXHAUSTIVE = True
RULE = (
    "streams = sequences of <= B items from {A7,A9,B8,A13 (payload contains registered-ID octets), garbage runs G1,G3,G7 of 0xFF} "
    "optionally ending in an incomplete packet (prefix 1..8 of A9); per stream every schedule in {no cut, cut, cut+parse}^(n-1) for "
    "n <= NALL, and for longer streams every cut set with <= KCUT cuts x every choice of which cuts also parse; "
    "state-hashing exploration (position, exact chunk tuple, packets emitted) in the thorough tier. After every parser call: returned "
    "packets so far == the complete registered packets available, byte-identical and in order; the deque content is a suffix of the "
    "appended octets, starts at or after the last returned packet and at or before the pending packet's first octet."
)
BOUNDS = {"quick": "items<=3, all 3^(n-1) schedules for n<=11, <=3 cuts beyond (n<=34)", "thorough": "items<=3 all schedules n<=14, <=4 cuts beyond; items<=4 with <=2 cuts; state-hashing BFS on selected streams"}
ASSUMPTIONS = [
    "garbage alphabet is 0xFF runs; the generator asserts that no two-octet window starting in garbage matches a registered ID under the 13-bit mask (the property only speaks about such octets)",
    "single-threaded caller: schedules are append/parse interleavings, not thread interleavings",
]

# registered ids: A = TM, no sec hdr, apid 0x055 (octets 00 55); B = TC, sec hdr, apid 0x123 (octets 19 23)
A = (0, 0, 0x055)
B = (1, 1, 0x123)


def _pkt(idt, total, seq):
    typ, shf, apid = idt
    hdr = R.sp_header(0, typ, shf, apid, 3, seq, total - 7)
    # payload deliberately contains the octets of both registered IDs and a plausible length field
    filler = bytes([0x19, 0x23, 0x00, 0x55, 0x00, 0x00, 0x00])
    return hdr + filler[: total - 6]


ITEMS = collections.OrderedDict()
ITEMS["A7"] = _pkt(A, 7, 1)
ITEMS["A9"] = _pkt(A, 9, 2)
ITEMS["B8"] = _pkt(B, 8, 3)
ITEMS["A13"] = _pkt(A, 13, 4)
ITEMS["G1"] = b"\xff"
ITEMS["G3"] = b"\xff" * 3
ITEMS["G7"] = b"\xff" * 7
PACKETS = ("A7", "A9", "B8", "A13")
GARBAGE = ("G1", "G3", "G7")
TAIL_SRC = "A9"


def ids_raw():
    return [(t << 12 | s << 11 | a) for (t, s, a) in (A, B)]


def build_stream(names):
    """names: list of item names, the last may be 'T<k>' (first k octets of A9).
    returns (stream, spans of complete packets, tail_start or None, missing octets)"""
    stream = b""
    spans = []
    tail_start = None
    missing = b""
    garbage_pos = []
    for nm in names:
        if nm.startswith("T"):
            k = int(nm[1:])
            tail_start = len(stream)
            stream += ITEMS[TAIL_SRC][:k]
            missing = ITEMS[TAIL_SRC][k:]
        else:
            b = ITEMS[nm]
            if nm in PACKETS:
                spans.append((len(stream), len(stream) + len(b)))
            else:
                garbage_pos += list(range(len(stream), len(stream) + len(b)))
            stream += b
    # alphabet self-check: no window starting in garbage matches a registered id
    full = stream + missing
    raw = set(ids_raw())
    for p in garbage_pos:
        if p + 1 < len(full):
            assert ((full[p] << 8 | full[p + 1]) & 0x1FFF) not in raw, "garbage alphabet violates the precondition"
    return stream, spans, tail_start, missing


def stream_names(max_items):
    """all bodies of <= max_items items without two adjacent garbage runs, each optionally followed by a tail T1..T8"""
    alphabet = list(PACKETS) + list(GARBAGE)
    out = []
    for L in range(0, max_items + 1):
        for body in itertools.product(alphabet, repeat=L):
            if any(body[i] in GARBAGE and body[i + 1] in GARBAGE for i in range(L - 1)):
                continue
            tails = [None] + ["T%d" % k for k in range(1, 9)]
            for t in tails:
                names = list(body) + ([t] if t else [])
                if not any(n in PACKETS or n.startswith("T") for n in names):
                    continue
                if t and L == max_items and max_items >= 3:
                    # keep the item bound: a tail counts as an item
                    continue
                out.append(names)
    return out


# ------------------------------------------------------------------ one execution
def run_schedule(sp, pids, stream, spans, tail_start, missing, sched):
    """sched: sequence of n-1 actions (0,1,2).  Returns None or (kind, detail)."""
    n = len(stream)
    dq = collections.deque()
    returned = []
    chunk_start = 0
    calls = 0
    outcome = []

    def check(pos, res):
        nonlocal returned
        returned += [bytes(x) for x in res]
        expected = [stream_all[s:e] for (s, e) in all_spans if e <= pos]
        if returned != expected:
            if len(returned) < len(expected) and returned == expected[: len(returned)]:
                return ("returned/packet-missing", {"pos": pos, "returned": returned, "expected": expected})
            return ("returned/wrong-packets", {"pos": pos, "returned": returned, "expected": expected})
        q = b"".join(bytes(c) for c in dq)
        so_far = stream_all[:pos]
        if not so_far.endswith(q):
            return ("queue/not-a-suffix-of-appended-octets", {"pos": pos, "queue": q, "appended": so_far})
        qstart = pos - len(q)
        last_end = max([e for (s, e) in all_spans if e <= pos], default=0)
        if qstart < last_end:
            return ("queue/contains-returned-octets", {"pos": pos, "queue": q})
        pend = [s for (s, e) in all_spans if e > pos and s < pos]
        if pend and qstart > pend[0]:
            return ("queue/incomplete-tail-lost", {"pos": pos, "queue": q, "tail": so_far[pend[0]:]})
        outcome.append((len(returned), len(q)))
        return None

    stream_all = stream + missing
    all_spans = list(spans) + ([(tail_start, tail_start + len(ITEMS[TAIL_SRC]))] if tail_start is not None else [])
    for gap in range(1, n + 1):
        action = sched[gap - 1] if gap < n else 2
        if action == 0:
            continue
        dq.append(bytearray(stream[chunk_start:gap]))
        chunk_start = gap
        if action == 2:
            calls += 1
            r = check(gap, sp.parse_space_packets(dq, pids))
            if r:
                return r, calls, None
    # idempotence: a second call without new data returns nothing and keeps the tail
    before = b"".join(bytes(c) for c in dq)
    calls += 1
    res = sp.parse_space_packets(dq, pids)
    if res:
        return ("returned/packet-returned-twice", {"pos": n, "returned": [bytes(x) for x in res]}), calls, None
    r = check(n, [])
    if r:
        return (r[0] + "/after-idle-call", r[1]), calls, None
    if missing:
        dq.append(bytearray(missing))
        calls += 1
        r = check(n + len(missing), sp.parse_space_packets(dq, pids))
        if r:
            return (r[0] + "/completion", r[1]), calls, None
    return None, calls, tuple(outcome)


def schedules_for(n, mode, kcut):
    """mode 'all': every element of {0,1,2}^(n-1); mode 'cuts': every cut set with <= kcut cuts, each cut plain or +parse"""
    if mode == "all":
        yield from itertools.product((0, 1, 2), repeat=n - 1)
        return
    gaps = range(n - 1)
    for k in range(0, kcut + 1):
        for cs in itertools.combinations(gaps, k):
            for acts in itertools.product((1, 2), repeat=k):
                s = [0] * (n - 1)
                for g, a in zip(cs, acts):
                    s[g] = a
                yield tuple(s)


def _sp():
    import spacepackets.ccsds.spacepacket as sp

    return sp


def _pids(sp):
    return [sp.PacketId(sp.PacketType(t), bool(s), a) for (t, s, a) in (A, B)]


def _feature(stream, spans, tail_start, detail, sched):
    """coarse trigger feature for the signature: does a cut fall <= 6 octets into a packet?"""
    starts = [s for (s, e) in spans] + ([tail_start] if tail_start is not None else [])
    cuts = [g + 1 for g, a in enumerate(sched) if a] + [len(stream)]
    for c in cuts:
        for s in starts:
            if 0 < c - s <= 6:
                return "cut<=6-octets-into-packet"
    return "other"


def explore_stream(rec, names, mode, kcut):
    sp = _sp()
    pids = _pids(sp)
    stream, spans, tail_start, missing = build_stream(names)
    n = len(stream)
    outcomes = set()
    nsched = 0
    for sched in schedules_for(n, mode, kcut):
        nsched += 1
        v, calls, outcome = run_schedule(sp, pids, stream, spans, tail_start, missing, sched)
        rec.transitions += calls + sum(1 for a in sched if a) + 1
        if v:
            kind, detail = v
            feat = _feature(stream, spans, tail_start, detail, sched)
            rec.violation(f"C13.{kind}/{feat}", {"names": names, "sched": "".join(map(str, sched))}, detail, None,
                          repro=_repro(names, sched))
        else:
            outcomes.add(outcome)
    rec.states += nsched
    rec.traces += nsched
    rec.evaluations += nsched
    rec.nontrivial += nsched if n > 1 else 0
    rec.ops += nsched
    rec.count("streams", 1)
    rec.count("schedules_" + mode, nsched)
    for o in outcomes:
        rec.outcome(repr(o))
    rec.extra.setdefault("distinct_outcomes_per_stream", []).append(len(outcomes))
    if len(rec.samples) < 2:
        rec.sample({"stream_items": names, "octets": stream.hex(), "mode": mode, "schedules": nsched, "example_schedule": "".join(map(str, sched))})


def _repro(names, sched):
    stream, spans, tail_start, missing = build_stream(names)
    return (
        "import collections\nfrom spacepackets.ccsds.spacepacket import *\n"
        f"stream = bytes.fromhex('{stream.hex()}'); sched = '{''.join(map(str, sched))}'  # 1 = chunk boundary, 2 = boundary + parse\n"
        "ids = [PacketId(PacketType.TM, False, 0x055), PacketId(PacketType.TC, True, 0x123)]\n"
        "dq = collections.deque(); out = []; start = 0\n"
        "for gap in range(1, len(stream) + 1):\n"
        "    a = int(sched[gap - 1]) if gap < len(stream) else 2\n"
        "    if a == 0: continue\n"
        "    dq.append(bytearray(stream[start:gap])); start = gap\n"
        "    if a == 2: out += parse_space_packets(dq, ids)\n"
        "print([bytes(p).hex() for p in out], [bytes(c).hex() for c in dq])\n"
    )


# ------------------------------------------------------------------ state-hashing BFS (thorough)
def bfs_stream(rec, names, max_chunks):
    """explicit-state search: state = (appended position, exact chunk tuple in the deque, packets emitted).
    events: append the next k octets as one chunk (any k), parse.  States are rebuilt by replaying histories."""
    sp = _sp()
    pids = _pids(sp)
    stream, spans, tail_start, missing = build_stream(names)
    full = stream + missing
    n = len(full)
    all_spans = list(spans) + ([(tail_start, tail_start + len(ITEMS[TAIL_SRC]))] if tail_start is not None else [])

    def step(state, ev):
        pos, chunks, emitted = state
        if ev == "P":
            dq = collections.deque(bytearray(c) for c in chunks)
            res = sp.parse_space_packets(dq, pids)
            emitted2 = emitted + tuple(bytes(x) for x in res)
            return (pos, tuple(bytes(c) for c in dq), emitted2)
        k = ev
        return (pos + k, chunks + (full[pos:pos + k],), emitted)

    def invariant(state, after_parse):
        pos, chunks, emitted = state
        q = b"".join(chunks)
        if not full[:pos].endswith(q):
            return "queue/not-a-suffix-of-appended-octets"
        if after_parse:
            expected = tuple(full[s:e] for (s, e) in all_spans if e <= pos)
            if emitted != expected:
                return "returned/wrong-packets" if not (len(emitted) < len(expected) and emitted == expected[:len(emitted)]) else "returned/packet-missing"
            qstart = pos - len(q)
            last_end = max([e for (s, e) in all_spans if e <= pos], default=0)
            if qstart < last_end:
                return "queue/contains-returned-octets"
            pend = [s for (s, e) in all_spans if e > pos and s < pos]
            if pend and qstart > pend[0]:
                return "queue/incomplete-tail-lost"
        return None

    init = (0, (), ())
    seen = {init: None}
    frontier = collections.deque([init])
    hist = {init: ()}
    while frontier:
        st = frontier.popleft()
        pos, chunks, emitted = st
        evs = []
        if chunks:
            evs.append("P")
        if len(chunks) < max_chunks:
            evs += list(range(1, n - pos + 1))
        for ev in evs:
            nxt = step(st, ev)
            rec.transitions += 1
            bad = invariant(nxt, ev == "P")
            if bad:
                rec.violation(f"C13.{bad}/bfs", {"names": names, "bfs_history": list(hist[st]) + [ev]}, {"state": [nxt[0], [c.hex() for c in nxt[1]], [e.hex() for e in nxt[2]]]}, None)
                continue
            if nxt not in seen:
                seen[nxt] = st
                hist[nxt] = hist[st] + (ev,)
                frontier.append(nxt)
    # liveness at the end: every state with pos == n must, after a parse, have emitted everything
    rec.states += len(seen)
    rec.evaluations += len(seen)
    rec.nontrivial += len(seen)
    rec.traces += len(seen)
    rec.count("bfs_streams", 1)
    rec.count("bfs_states", len(seen))


def replay_bfs(rec, names, history):
    sp = _sp()
    pids = _pids(sp)
    stream, spans, tail_start, missing = build_stream(names)
    full = stream + missing
    all_spans = list(spans) + ([(tail_start, tail_start + len(ITEMS[TAIL_SRC]))] if tail_start is not None else [])
    dq = collections.deque()
    pos = 0
    emitted = []
    for ev in history:
        if ev == "P":
            emitted += [bytes(x) for x in sp.parse_space_packets(dq, pids)]
            expected = [full[s:e] for (s, e) in all_spans if e <= pos]
            q = b"".join(bytes(c) for c in dq)
            kind = None
            if not full[:pos].endswith(q):
                kind = "queue/not-a-suffix-of-appended-octets"
            elif emitted != expected:
                kind = "returned/wrong-packets" if not (len(emitted) < len(expected) and emitted == expected[:len(emitted)]) else "returned/packet-missing"
            else:
                qstart = pos - len(q)
                last_end = max([e for (s, e) in all_spans if e <= pos], default=0)
                pend = [s for (s, e) in all_spans if e > pos and s < pos]
                if qstart < last_end:
                    kind = "queue/contains-returned-octets"
                elif pend and qstart > pend[0]:
                    kind = "queue/incomplete-tail-lost"
            if kind:
                rec.violation(f"C13.{kind}/bfs", {"names": names, "bfs_history": history}, {"emitted": emitted, "queue": q}, None)
                return
        else:
            dq.append(bytearray(full[pos:pos + ev]))
            pos += ev


# ------------------------------------------------------------------ shards
def shards(tier):
    items = []
    nall = 11 if tier == "quick" else 14
    kcut = 3 if tier == "quick" else 4
    for names in stream_names(3):
        stream = build_stream(names)[0]
        n = len(stream)
        if n <= nall:
            items.append({"kind": "sched", "names": names, "mode": "all", "kcut": 0, "cost": 3 ** (n - 1)})
        else:
            items.append({"kind": "sched", "names": names, "mode": "cuts", "kcut": kcut, "cost": n ** kcut})
    if tier == "thorough":
        for names in stream_names(4):
            if len([x for x in names]) < 4:
                continue
            items.append({"kind": "sched", "names": names, "mode": "cuts", "kcut": 2, "cost": 1000})
        for names in (["A7", "B8"], ["G3", "A9"], ["A9", "T3"], ["G1", "A13", "T6"], ["A7", "G1", "B8"], ["B8", "A7", "T1"]):
            items.append({"kind": "bfs", "names": names, "max_chunks": 3, "cost": 10 ** 6})
    # group cheap streams into batches so that shards have comparable cost
    items.sort(key=lambda x: -x["cost"])
    big = [x for x in items if x["cost"] >= 20000]
    small = [x for x in items if x["cost"] < 20000]
    out = [{"batch": [x]} for x in big]
    nb = 64
    for i in range(nb):
        part = small[i::nb]
        if part:
            out.append({"batch": part})
    return out


def run_shard(item):
    rec = Rec(PROPERTY, {"batch_size": len(item["batch"]), "first": item["batch"][0]["names"]})
    for x in item["batch"]:
        if x["kind"] == "sched":
            explore_stream(rec, x["names"], x["mode"], x["kcut"])
        else:
            bfs_stream(rec, x["names"], x["max_chunks"])
    ex = rec.extra.get("distinct_outcomes_per_stream", [])
    rec.extra = {"min_outcomes": min(ex) if ex else None, "max_outcomes": max(ex) if ex else None}
    return rec.result()


def replay(case):
    rec = Rec(PROPERTY, "replay")
    case = unhex(case)
    names = case["names"]
    if "bfs_history" in case:
        replay_bfs(rec, names, case["bfs_history"])
        return rec.result()
    sp = _sp()
    stream, spans, tail_start, missing = build_stream(names)
    sched = tuple(int(c) for c in case["sched"])
    v, calls, outcome = run_schedule(sp, _pids(sp), stream, spans, tail_start, missing, sched)
    if v:
        kind, detail = v
        rec.violation(f"C13.{kind}/{_feature(stream, spans, tail_start, detail, sched)}", case, detail, None)
    return rec.result()


def finalize(tier, agg):
    mx = [e.get("max_outcomes") for e in agg["extra"] if e.get("max_outcomes")]
    return {"max_distinct_outcomes_in_one_stream": max(mx) if mx else 0,
            "schedules": agg["counters"].get("schedules_all", 0) + agg["counters"].get("schedules_cuts", 0)}
