"""C18 - reserved CFDP messages (proxy, directory, originating transaction ID) round-trip via
message-to-user TLVs (engine V).  DESIGN.md section 4, C18."""

from __future__ import annotations

import pathlib
from mc import domains as D
from mc.alias import receive_buffer, reuse_buffer
from mc.rec import Rec
from ref import tlv as R
from units.cfdp_tlv import CONDITION_CODES, bt, hx

PROPERTY = "C18"
LEVEL = "model_checking"  # bounded-exhaustive enumeration of executions against a reference model (DESIGN.md 1, 2.1)
EXHAUSTIVE = True
RULE = (
    "the nine reserved message kinds the library can build, each over all its parameter values: proxy put request (dest ID "
    "width 1,2,4,8 x walk(8w) values x name pairs incl. empty names and the largest names that fit the 255-octet TLV value), "
    "put response (13 condition codes x 2 delivery codes x 4 file states), put cancel, closure request (2), transmission "
    "mode (2), originating transaction ID (16 width pairs x walk x walk), directory listing request / response (name pairs; "
    "both response codes), listing options (4); every message-type octet 0..254 through ReservedCfdpMessage for the "
    "classification predicates and the non-matching getters. Non-reserved contents: every octet string of length <= 2, "
    "every 5/6-octet string whose first four octets differ from 'cfdp' in exactly one position (x 4 tails), every string "
    "'??dp'+tail and 'cf??'+tail for all 65536 values of the two free octets, the marker shifted by one octet, prefixes of "
    "the marker, 'cfdp' alone, case variants, long non-UTF-8 strings - each through MessageToUserTlv(content) and through "
    "MessageToUserTlv.unpack. A case is distinct by (kind, parameters) / (content, entry); shards partition the coordinates."
)
BOUNDS = {
    "quick": "name alphabet 8 names + largest-fit names; originating ID values walk(8w) x walk(8w)",
    "thorough": "name lengths 0..max-fit in every name position; 8/16-bit source IDs and sequence numbers swept over all values against walk of the other",
}
ASSUMPTIONS = [
    "ref/tlv.py transcribes CCSDS 727.0-B-5 section 6 (selftest/st_ref_tlv.py binds it to the octets asserted by tests/cfdp/tlvslvs/test_reserved_cfdp_msg.py and test_proxy.py)",
    "message type 0x15 (listing options) is a library extension; its layout (spare 6 | recursive | all) is taken from the library's documentation and test",
    "table 6-1 lists the originating transaction ID (0x0A) among the proxy operation message types while the library classifies it separately: is_cfdp_proxy_operation / get_cfdp_proxy_message_type are not judged for 0x0A",
    "matching getters are only exercised on well-formed messages (what the property states); their behaviour on malformed fields is not judged",
    "entity IDs and sequence numbers only of width 1, 2, 4, 8",
]

GETTERS = {
    "putreq": "get_proxy_put_request_params",
    "putresp": "get_proxy_put_response_params",
    "closure": "get_proxy_closure_requested",
    "tmode": "get_proxy_transmission_mode",
    "otid": "get_originating_transaction_id",
    "dirreq": "get_dir_listing_request_params",
    "dirresp": "get_dir_listing_response_params",
    "listopt": "get_dir_listing_options",
    "cancel": None,
}
MSG_TYPE = {
    "putreq": R.M_PROXY_PUT_REQUEST, "putresp": R.M_PROXY_PUT_RESPONSE, "closure": R.M_PROXY_CLOSURE_REQUEST,
    "tmode": R.M_PROXY_TRANSMISSION_MODE, "otid": R.M_ORIGINATING_TRANSACTION_ID, "dirreq": R.M_DIR_LISTING_REQUEST,
    "dirresp": R.M_DIR_LISTING_RESPONSE, "listopt": R.M_DIR_LISTING_OPTIONS, "cancel": R.M_PROXY_PUT_CANCEL,
}
GETTER_OF_TYPE = {MSG_TYPE[k]: g for k, g in GETTERS.items() if g}
ALL_GETTERS = sorted(g for g in GETTERS.values() if g)

_L = None


class Lib:
    def __init__(self):
        import spacepackets.cfdp.tlv as tlv
        from spacepackets.cfdp.defs import ConditionCode, DeliveryCode, FileStatus, TransactionId, TransmissionMode
        from spacepackets.cfdp.lv import CfdpLv
        from spacepackets.util import UnsignedByteField

        self.tlv = tlv
        self.CfdpLv = CfdpLv
        self.UBF = UnsignedByteField
        self.TransactionId = TransactionId
        self.ConditionCode, self.DeliveryCode, self.FileStatus, self.TransmissionMode = ConditionCode, DeliveryCode, FileStatus, TransmissionMode


def lib() -> Lib:
    global _L
    if _L is None:
        _L = Lib()
    return _L


def _exc(e):
    return type(e).__name__ + ": " + str(e)[:120]


# ================================================================================ builders
def build(kind, p):
    """the library's builder for one reserved message; parameters are plain data"""
    L = lib()
    T = L.tlv
    if kind == "putreq":
        params = T.ProxyPutRequestParams(L.UBF(p["id"], p["w"]), L.CfdpLv(bt(p["src"])), L.CfdpLv(bt(p["dst"])))
        return T.ProxyPutRequest(params)
    if kind == "putresp":
        if p.get("via") == "finished":  # the alternate constructor: parameters taken over from the Finished PDU's parameters
            from spacepackets.cfdp.pdu.finished import FinishedParams
            fp = FinishedParams(L.ConditionCode(p["cc"]), L.DeliveryCode(p["dc"]), L.FileStatus(p["fs"]))
            return T.ProxyPutResponse(T.ProxyPutResponseParams.from_finished_params(fp))
        return T.ProxyPutResponse(T.ProxyPutResponseParams(L.ConditionCode(p["cc"]), L.DeliveryCode(p["dc"]), L.FileStatus(p["fs"])))
    if kind == "cancel":
        return T.ProxyCancelRequest()
    if kind == "closure":
        return T.ProxyClosureRequest(bool(p["b"]))
    if kind == "tmode":
        return T.ProxyTransmissionMode(L.TransmissionMode(p["m"]))
    if kind == "otid":
        return T.OriginatingTransactionId(L.TransactionId(L.UBF(p["id"], p["w"]), L.UBF(p["seq"], p["sw"])))
    if kind in ("dirreq", "dirresp"):
        via = p.get("via", "lv")
        if via == "lv":
            dp = T.DirectoryParams(L.CfdpLv(bt(p["dir"])), L.CfdpLv(bt(p["file"])))
        elif via == "strs":  # the str entry point: the name octets are the UTF-8 encoding of the strings as given
            dp = T.DirectoryParams.from_strs(bt(p["dir"]).decode("utf-8"), bt(p["file"]).decode("utf-8"))
        else:  # the pathlib entry point: the name octets are str(path) - pathlib's own spelling, nothing else
            import pathlib
            dp = T.DirectoryParams.from_paths(pathlib.PurePosixPath(bt(p["dir"]).decode("utf-8")), pathlib.PurePosixPath(bt(p["file"]).decode("utf-8")))
        return T.DirectoryListingRequest(dp) if kind == "dirreq" else T.DirectoryListingResponse(bool(p["ok"]), dp)
    if kind == "listopt":
        return T.DirectoryListingParameters(T.DirListingOptions(bool(p["rec"]), bool(p["all"])))
    raise ValueError(kind)


def ref_octets(kind, p):
    if kind == "putreq":
        return R.proxy_put_request(p["id"].to_bytes(p["w"], "big"), bt(p["src"]), bt(p["dst"]))
    if kind == "putresp":
        return R.proxy_put_response(p["cc"], p["dc"], p["fs"])
    if kind == "cancel":
        return R.proxy_put_cancel()
    if kind == "closure":
        return R.proxy_closure_request(p["b"])
    if kind == "tmode":
        return R.proxy_transmission_mode(p["m"])
    if kind == "otid":
        return R.originating_transaction_id(p["id"].to_bytes(p["w"], "big"), p["seq"].to_bytes(p["sw"], "big"))
    if kind == "dirreq":
        return R.dir_listing_request(bt(p["dir"]), bt(p["file"]))
    if kind == "dirresp":
        return R.dir_listing_response(p["ok"], bt(p["dir"]), bt(p["file"]))
    if kind == "listopt":
        return R.dir_listing_options(p["rec"], p["all"])
    raise ValueError(kind)


def expected_params(kind, p):
    if kind == "putreq":
        return (p["id"], p["w"], bt(p["src"]), bt(p["dst"]))
    if kind == "putresp":
        return (p["cc"], p["dc"], p["fs"])
    if kind == "closure":
        return (p["b"],)
    if kind == "tmode":
        return (p["m"],)
    if kind == "otid":
        return (p["id"], p["w"], p["seq"], p["sw"])
    if kind == "dirreq":
        return (bt(p["dir"]), bt(p["file"]))
    if kind == "dirresp":
        return (p["ok"], bt(p["dir"]), bt(p["file"]))
    if kind == "listopt":
        return (p["rec"], p["all"])
    return ()


def observe_params(kind, got):
    """by value, widths included; None stays None"""
    if got is None:
        return None
    if kind == "putreq":
        return (int(got.dest_entity_id.value), int(got.dest_entity_id.byte_len), bytes(got.source_file_name.value), bytes(got.dest_file_name.value))
    if kind == "putresp":
        return (int(got.condition_code), int(got.delivery_code), int(got.file_status))
    if kind in ("closure", "tmode"):
        return (int(got),)
    if kind == "otid":
        return (int(got.source_id.value), int(got.source_id.byte_len), int(got.seq_num.value), int(got.seq_num.byte_len))
    if kind == "dirreq":
        return (bytes(got.dir_path.value), bytes(got.dir_file_name.value))
    if kind == "dirresp":
        return (int(got[0]), bytes(got[1].dir_path.value), bytes(got[1].dir_file_name.value))
    if kind == "listopt":
        return (int(got.recursive), int(got.all))
    return ()


def name_views(kind, got, exp):
    """[((object, view prefix), expected name octets)] for the parameter kinds that carry names"""
    if kind == "putreq":
        return [((got, "source_file"), exp[2]), ((got, "dest_file"), exp[3])]
    if kind == "dirreq":
        return [((got, "dir_path"), exp[0]), ((got, "dir_file_name"), exp[1])]
    if kind == "dirresp":
        return [((got[1], "dir_path"), exp[1]), ((got[1], "dir_file_name"), exp[2])]
    return []


def repro_of(kind, p):
    if kind == "putreq":
        return f"ProxyPutRequest(ProxyPutRequestParams(UnsignedByteField({p['id']:#x}, {p['w']}), CfdpLv(bytes.fromhex('{bt(p['src']).hex()}')), CfdpLv(bytes.fromhex('{bt(p['dst']).hex()}'))))"
    if kind == "otid":
        return f"OriginatingTransactionId(TransactionId(UnsignedByteField({p['id']:#x}, {p['w']}), UnsignedByteField({p['seq']:#x}, {p['sw']})))"
    return f"{kind} {p!r}"


# ================================================================================== oracles
def check_classification(rec, case, r, msg_type, bad):
    """predicates and non-matching getters of a ReservedCfdpMessage whose message type is known"""
    try:
        if r.get_reserved_cfdp_message_type() != msg_type:
            bad("classify/get_reserved_cfdp_message_type", r.get_reserved_cfdp_message_type(), msg_type)
        is_dir = msg_type in R.DIRECTORY_TYPES
        if bool(r.is_directory_operation()) != is_dir:
            bad("classify/is_directory_operation", r.is_directory_operation(), is_dir)
        is_otid = msg_type == R.M_ORIGINATING_TRANSACTION_ID
        if bool(r.is_originating_transaction_id()) != is_otid:
            bad("classify/is_originating_transaction_id", r.is_originating_transaction_id(), is_otid)
        dt = r.get_directory_operation_type()
        if (None if dt is None else int(dt)) != (msg_type if is_dir else None):
            bad("classify/get_directory_operation_type", dt, msg_type if is_dir else None)
        if not is_otid:  # see ASSUMPTIONS: 0x0A is listed in table 6-1, the library keeps it apart
            is_proxy = msg_type in R.PROXY_TYPES
            if bool(r.is_cfdp_proxy_operation()) != is_proxy:
                bad("classify/is_cfdp_proxy_operation", r.is_cfdp_proxy_operation(), is_proxy)
            pt = r.get_cfdp_proxy_message_type()
            if (None if pt is None else int(pt)) != (msg_type if is_proxy else None):
                bad("classify/get_cfdp_proxy_message_type", pt, msg_type if is_proxy else None)
    except Exception as e:
        bad("classify/exception", _exc(e), None)
    own = GETTER_OF_TYPE.get(msg_type)
    for g in ALL_GETTERS:
        if g == own:
            continue
        try:
            x = getattr(r, g)()
        except Exception as e:
            bad(f"non-matching-getter/{g}/raised", _exc(e), None)
            continue
        if x is not None:
            bad(f"non-matching-getter/{g}/not-None", repr(x)[:120], None)


def _keeper(rec):
    """independence oracle (mc/alias.py): messages, decoded TLVs, parameter objects and pack() results handed
    out for earlier cases are re-observed after the following cases"""
    k = getattr(rec, "_keeper", None)
    if k is None:
        from mc.alias import Keeper
        k = rec._keeper = Keeper(rec, "C18", depth=8, live=True)
    return k


def _obs_msg(o):
    return (int(o.tlv_type), bytes(o.value), int(o.packet_len))


def check_message(rec: Rec, kind: str, p: dict, nontrivial=True):
    L = lib()
    case = {"kind": "msg", "msg": kind, "p": p}
    rec.case(nontrivial, ops=20)
    keep = _keeper(rec)
    try:
        return _check_message(rec, L, case, kind, p, keep)
    finally:
        keep.recheck(case)


def _check_message(rec, L, case, kind, p, keep):
    ref = ref_octets(kind, p)
    msg_type = MSG_TYPE[kind]

    def bad(what, observed, expected):
        rec.violation(f"C18.{what}" if what.startswith(("classify", "non-matching")) else f"C18.{what}/{kind}", case, observed, expected,
                      repro=repro_of(kind, p) + "  # from spacepackets.cfdp.tlv import *; see checks/c18.py check_message")

    try:
        msg = build(kind, p)
        packed = msg.pack()
        got = bytes(packed)
    except Exception as e:
        return bad("encode/pack/exception", _exc(e), ref)
    keep.recheck(case)  # before holding this case's own results: only EARLIER results are judged here
    keep.hold(f"build({kind})", msg, _obs_msg, case)
    keep.hold(f"{kind}.pack", packed, bytes, case)
    if got != ref:
        return bad("encode/pack/octets", got, ref)
    try:
        rb = receive_buffer(ref)
        m = L.tlv.MessageToUserTlv.unpack(rb)
        reuse_buffer(rb)  # the caller re-uses its receive buffer: the decoded message must not change
    except Exception as e:
        return bad("decode/MessageToUserTlv.unpack/exception", _exc(e), None)
    keep.hold("MessageToUserTlv.unpack", m, _obs_msg, case)
    if bytes(m.value) != ref[2:]:
        return bad("decode/MessageToUserTlv.unpack/value", bytes(m.value), ref[2:])
    try:
        if m.is_reserved_cfdp_message() is not True:
            return bad("recognise/is_reserved_cfdp_message/not-True", m.is_reserved_cfdp_message(), True)
        r = m.to_reserved_msg_tlv()
    except Exception as e:
        return bad("recognise/exception", _exc(e), None)
    if r is None:
        return bad("recognise/to_reserved_msg_tlv/None", None, "ReservedCfdpMessage")
    if bytes(r.pack()) != ref:
        bad("recognise/to_reserved_msg_tlv/repack", bytes(r.pack()), ref)
    keep.hold("MessageToUserTlv.to_reserved_msg_tlv", r, _obs_msg, case)
    # the same message reaching the class by the other routes a user has: built from immutable octets, converted from a generic TLV
    MTU, GenericTlv, TT = L.tlv.MessageToUserTlv, L.tlv.CfdpTlv, L.tlv.TlvType  # resolved outside the try: harness names, not library behaviour
    for route, make in (("MessageToUserTlv(bytes)", lambda: MTU(bytes(ref[2:]))),
                        ("MessageToUserTlv.from_tlv(CfdpTlv(bytes))", lambda: MTU.from_tlv(GenericTlv(TT.MESSAGE_TO_USER, bytes(ref[2:]))))):
        try:
            m2 = make()
            r2 = m2.to_reserved_msg_tlv() if m2.is_reserved_cfdp_message() is True else None
        except Exception as e:
            bad(f"recognise/{route}/exception", _exc(e), None)
            continue
        if r2 is None or bytes(r2.pack()) != ref:
            bad(f"recognise/{route}/not-recognised-or-repack", None if r2 is None else bytes(r2.pack()), ref)
        elif GETTERS[kind]:
            try:
                if observe_params(kind, getattr(r2, GETTERS[kind])()) != expected_params(kind, p):
                    bad(f"params/{GETTERS[kind]}/values/{route}", observe_params(kind, getattr(r2, GETTERS[kind])()), expected_params(kind, p))
            except Exception as e:
                bad(f"params/{GETTERS[kind]}/exception/{route}", _exc(e), None)
    getter = GETTERS[kind]
    if getter:
        exp = expected_params(kind, p)
        try:
            got_params = getattr(r, getter)()
            obs = observe_params(kind, got_params)
            keep.hold(f"ReservedCfdpMessage.{getter}", got_params, lambda g, kind=kind: observe_params(kind, g), case)
        except Exception as e:
            obs = None
            bad(f"params/{getter}/exception", _exc(e), exp)
        else:
            if obs != exp:
                bad(f"params/{getter}/values", obs, exp)
            else:  # reading the parameters is a pure observation: a second read gives the same answer
                try:
                    obs2 = observe_params(kind, getattr(r, getter)())
                except Exception as e:
                    bad(f"params/{getter}/second-read/exception", _exc(e), exp)
                else:
                    if obs2 != exp:
                        bad(f"params/{getter}/second-read/values", obs2, exp)
                if kind == "otid":  # equal transaction IDs hash equally (a dict of running transactions keyed by the ID finds the decoded one)
                    from spacepackets.util import ByteFieldGenerator as _Gen  # typed field classes, as a user builds an ID

                    try:
                        mine = L.TransactionId(_Gen.from_int(p["w"], p["id"]), _Gen.from_int(p["sw"], p["seq"]))
                        if not (mine == got_params and got_params == mine) or hash(mine) != hash(got_params):
                            bad(f"params/{getter}/decoded-id-not-equal-or-hashes-differently", [mine == got_params, hash(mine) == hash(got_params)], [True, True])
                    except Exception as e:
                        bad(f"params/{getter}/transaction-id-eq-hash/exception", _exc(e), None)
                # the text / path views of the names the parameter objects offer (names that are UTF-8 text only: the views decode)
                for view, name in name_views(kind, got_params, exp):
                    try:
                        text = name.decode("utf-8")
                    except UnicodeDecodeError:
                        continue
                    want = (text, str(pathlib.Path(text)))
                    try:
                        seen = (getattr(view[0], view[1] + "_as_str"), str(getattr(view[0], view[1] + "_as_path")))
                    except Exception as e:
                        bad(f"params/{getter}/name-view/exception", _exc(e), text)
                        continue
                    if seen != want:
                        bad(f"params/{getter}/name-view/values", list(seen), list(want))
    check_classification(rec, case, r, msg_type, bad)
    rec.outcome(f"{kind}/len={len(ref)}/ok")
    return ref


def check_type_octet(rec: Rec, t: int, fields: bytes, nontrivial=True):
    """ReservedCfdpMessage(t, fields): octets, recognition after decode, classification, non-matching getters"""
    L = lib()
    case = {"kind": "type", "t": t, "fields": hx(fields)}
    rec.case(nontrivial, ops=14)
    ref = R.reserved_msg(t, fields)

    def bad(what, observed, expected):
        rec.violation(f"C18.{what}", case, observed, expected, repro=f"ReservedCfdpMessage({t:#x}, bytes.fromhex('{fields.hex()}'))  # see checks/c18.py check_type_octet")

    try:
        got = bytes(L.tlv.ReservedCfdpMessage(t, fields).pack())
    except Exception as e:
        return bad("encode/ReservedCfdpMessage.pack/exception", _exc(e), ref)
    if got != ref:
        return bad("encode/ReservedCfdpMessage.pack/octets", got, ref)
    try:
        m = L.tlv.MessageToUserTlv.unpack(ref)
        if m.is_reserved_cfdp_message() is not True:
            return bad("recognise/is_reserved_cfdp_message/not-True", m.is_reserved_cfdp_message(), True)
        r = m.to_reserved_msg_tlv()
    except Exception as e:
        return bad("recognise/exception", _exc(e), None)
    if r is None:
        return bad("recognise/to_reserved_msg_tlv/None", None, "ReservedCfdpMessage")
    check_classification(rec, case, r, t, bad)
    rec.outcome(f"type={t:#04x}/proxy={t in R.PROXY_TYPES}/dir={t in R.DIRECTORY_TYPES}")


def is_reserved_content(c: bytes) -> bool:
    return len(c) >= 5 and c[:4] == R.MARKER


def check_nonreserved(rec: Rec, content: bytes, via: str, nontrivial=True):
    L = lib()
    case = {"kind": "nonreserved", "content": hx(content), "via": via}
    rec.case(nontrivial, ops=2)
    repro = (f"MessageToUserTlv(bytes.fromhex('{content.hex()}'))" if via == "ctor" else f"MessageToUserTlv.unpack(bytes.fromhex('{R.msg_to_user_tlv(content).hex()}'))") + ".is_reserved_cfdp_message()"
    try:
        m = L.tlv.MessageToUserTlv(content) if via == "ctor" else L.tlv.MessageToUserTlv.unpack(R.msg_to_user_tlv(content))
    except Exception as e:
        rec.violation("C18.nonreserved/MessageToUserTlv/construct-exception", case, _exc(e), None, repro=repro)
        return
    try:
        a = m.is_reserved_cfdp_message()
    except Exception as e:
        rec.violation(f"C18.nonreserved/MessageToUserTlv.is_reserved_cfdp_message/raised/{type(e).__name__}", case, _exc(e), False, repro=repro)
        return  # to_reserved_msg_tlv calls the same test: one defect site, one signature
    if a is not False:
        rec.violation("C18.nonreserved/MessageToUserTlv.is_reserved_cfdp_message/not-False", case, a, False, repro=repro)
    try:
        r = m.to_reserved_msg_tlv()
    except Exception as e:
        rec.violation(f"C18.nonreserved/MessageToUserTlv.to_reserved_msg_tlv/raised/{type(e).__name__}", case, _exc(e), None, repro=repro)
        return
    if r is not None:
        rec.violation("C18.nonreserved/MessageToUserTlv.to_reserved_msg_tlv/not-None", case, repr(r)[:120], None, repro=repro)


# ================================================================================ alphabets
def name_octets(tier):
    out = [n.encode("utf-8") for n in D.NAMES] + [b"x" * 120, "ü".encode("utf-8") * 60, b"data/", b"./a.txt", b"a/../b", b"cfdp", b"/data/cfdp", b"xcfdpcfdp/cfdp.bin"]  # the last three contain the reserved-message marker itself
    if tier != "quick":
        out += [b"\x00", b"\xff\xfe", b"\x01\x00", b"n" * 63, b"n" * 64, bytes(range(100, 200))]
    return D.dedupe(out)


def fit_pairs(tier, room):
    """pairs of octet strings (a, b) with len(a) + len(b) <= room: the name alphabet squared (fitting pairs only)
    and the largest names that fit"""
    ns = name_octets(tier)
    pairs = [(a, b) for a in ns for b in ns if len(a) + len(b) <= room]
    pairs += [(b"s" * room, b""), (b"", b"d" * room), (b"s" * (room // 2), b"d" * (room - room // 2)), (b"s" * (room - 1), b"d"), (b"s", b"d" * (room - 1)),
              (bytes(i & 0xFF for i in range(room - 7)), b"\xff" * 7)]
    if tier != "quick":
        for n in range(room + 1):
            pairs += [(b"s" * n, b"d" * (room - n)), (b"s" * n, b""), (b"", b"d" * n)]
    return D.dedupe(pairs)


def walk_ids(w):
    return D.walk(8 * w)


def sweep_ids(tier, w):
    if tier != "quick" and w <= 2:
        return D.full(8 * w)
    return D.walk(8 * w)


def nonreserved_contents(tier):
    """deterministic list, see RULE"""
    mk = R.MARKER
    for c in D.all_bytes(2):
        yield c
    tails = (b"\x00", b"\x07", b"\x10\x00\x00", b"\xff") if tier == "quick" else (b"\x00", b"\x07", b"\x10\x00\x00", b"\xff", b"\x0a\x11\x00\x01\x00\x05", b"\x09")
    for pos in range(4):
        for x in range(256):
            if x == mk[pos]:
                continue
            head = mk[:pos] + bytes([x]) + mk[pos + 1:]
            for t in tails:
                yield head + t
    for a in range(256):
        for b in range(256):
            if (a, b) != (mk[0], mk[1]):
                yield bytes([a, b]) + mk[2:] + b"\x00"
            if (a, b) != (mk[2], mk[3]):
                yield mk[:2] + bytes([a, b]) + b"\x00"
    if tier != "quick":
        for a in range(256):
            for b in range(256):
                if (a, b) != (mk[0], mk[3]):
                    yield bytes([a]) + mk[1:3] + bytes([b]) + b"\x07"
                if (a, b) != (mk[1], mk[2]):
                    yield mk[:1] + bytes([a, b]) + mk[3:] + b"\x07"
                if (a, b) != (mk[0], mk[2]):
                    yield bytes([a]) + mk[1:2] + bytes([b]) + mk[3:] + b"\x10"
                if (a, b) != (mk[1], mk[3]):
                    yield mk[:1] + bytes([a]) + mk[2:3] + bytes([b]) + b"\x10"
    for x in range(256):  # the marker shifted by one octet, with and without a type octet
        yield bytes([x]) + mk
        yield bytes([x]) + mk + b"\x00"
    for n in range(5):  # prefixes of the marker, incl. "cfdp" alone (no message type octet)
        yield mk[:n]
    for c in (b"CFDP\x00", b"Cfdp\x00", b"cfdP\x00", b"cfd\x00p", b"pdfc\x00", b"cfdcfdp\x00", b" cfdp\x00", b"cfd p\x00", b"\x00\x00\x00\x00\x00",
              b"\xff" * 5, b"\xff" * 255, b"\x80cfdp", b"\xc3\x28dp\x00", b"\xe2\x82dp\x00", b"cf\xf0\x9f\x00", bytes(range(255)), b"\xc0\x80\xc0\x80\x00",
              "ägdp".encode("utf-8") + b"\x00", "cfdä".encode("utf-8"), b"c\x00f\x00d\x00p\x00", b"\xfe\xffcfdp"):
        yield c


# =================================================================================== shards
NONRES_PARTS = 16


def shards(tier):
    items = []
    for w in (1, 2, 4, 8):
        items.append({"kind": "putreq", "w": w, "tier": tier})
    for w in (1, 2, 4, 8):
        for sw in (1, 2, 4, 8):
            items.append({"kind": "otid", "w": w, "sw": sw, "tier": tier})
    items.append({"kind": "small", "tier": tier})
    items.append({"kind": "widthcross", "tier": tier})
    items.append({"kind": "entry", "tier": tier})
    items.append({"kind": "dir", "tier": tier})
    items.append({"kind": "types", "tier": tier})
    for p in range(NONRES_PARTS):
        items.append({"kind": "nonres", "part": p, "tier": tier})
    return items


def run_shard(item):
    rec = Rec(PROPERTY, item)
    kind, tier = item["kind"], item.get("tier", "quick")
    if kind == "putreq":
        w = item["w"]
        room = 255 - 5 - (1 + w) - 2  # marker, type octet, dest ID LV, two LV length octets
        pairs = fit_pairs(tier, room)
        ids = walk_ids(w)
        n = 0
        for i, x in enumerate(ids):
            # every ID value with a rotating window of name pairs, every name pair with the asymmetric ID
            sel = pairs if tier != "quick" and i < 4 else [pairs[(i * 7 + k) % len(pairs)] for k in range(12)]
            for src, dst in D.dedupe(sel):
                check_message(rec, "putreq", {"w": w, "id": x, "src": hx(src), "dst": hx(dst)})
                n += 1
        asym = int.from_bytes(bytes(range(0xA1, 0xA1 + w)), "big")
        for src, dst in pairs:
            p = {"w": w, "id": asym, "src": hx(src), "dst": hx(dst)}
            ref = check_message(rec, "putreq", p, nontrivial=asym not in ids)
            n += 1
            if (src, dst) == ("ä".encode(), "名/x".encode()):
                rec.sample({"ProxyPutRequest": p, "expected_octets": ref})
        rec.count("proxy_put_requests", n)
    elif kind == "otid":
        w, sw = item["w"], item["sw"]
        n = 0
        ids, seqs = sweep_ids(tier, w), sweep_ids(tier, sw)
        if len(ids) * len(seqs) > 300000:  # both sides swept fully only one at a time
            plan = [(ids, D.walk(8 * sw)), (D.walk(8 * w), seqs)]
        else:
            plan = [(ids, seqs)]
        seen = set()
        for aa, bb in plan:
            for x in aa:
                for y in bb:
                    if (x, y) in seen:
                        continue
                    if len(plan) > 1:
                        seen.add((x, y))
                    check_message(rec, "otid", {"w": w, "id": x, "sw": sw, "seq": y})
                    n += 1
        p = {"w": w, "id": D.alt(8 * w, True), "sw": sw, "seq": D.alt(8 * sw, False)}
        if (w, sw) in ((2, 4), (8, 1)):
            rec.sample({"OriginatingTransactionId": p, "expected_octets": ref_octets("otid", p)})
        rec.count("originating_transaction_ids", n)
        rec.count("width_pairs", 1)
    elif kind == "small":
        n = 0
        for cc in CONDITION_CODES:
            for dc in (0, 1):
                for fs in range(4):
                    p = {"cc": cc, "dc": dc, "fs": fs}
                    ref = check_message(rec, "putresp", p)
                    check_message(rec, "putresp", dict(p, via="finished"))
                    n += 2
                    if (cc, dc, fs) == (10, 1, 2):
                        rec.sample({"ProxyPutResponse": p, "expected_octets": ref})
        rec.count("proxy_put_responses", n)
        check_message(rec, "cancel", {})
        for b in (0, 1):
            check_message(rec, "closure", {"b": b})
            check_message(rec, "tmode", {"m": b})
            for a in (0, 1):
                check_message(rec, "listopt", {"rec": b, "all": a})
        rec.count("fixed_size_messages", 1 + 2 + 2 + 4)
    elif kind == "widthcross":
        # the SAME numeric entity ID / sequence number in every width, one after the other in one process (the library's
        # TransactionId and EntityIdTlv compare numbers only: anything keyed on them confuses the widths exactly here)
        n = 0
        vals = [0, 1, 5, 255] if tier == "quick" else [0, 1, 2, 5, 127, 128, 254, 255]
        for x in vals:
            for y in vals:
                for w in (1, 2, 4, 8):
                    for sw in (1, 2, 4, 8):
                        check_message(rec, "otid", {"w": w, "id": x, "sw": sw, "seq": y})
                        n += 1
        for x in vals:
            for w in (1, 2, 4, 8):
                check_message(rec, "putreq", {"w": w, "id": x, "src": hx(b"s.txt"), "dst": hx(b"d.txt")})
                n += 1
        rec.count("same_value_in_every_width_cases", n)
    elif kind == "entry":
        # directory parameters through the str and the pathlib entry points; names written so that pathlib itself does
        # not rewrite them (str(PurePosixPath(x)) == x), among them '..' components, which only a normaliser removes
        names = ["/tmp", "/tmp/hello.txt", "a", "..", "../x", "/data/current/../archive", "a/../../b", "/a/b/..", "~/dir-listing.txt", "ä/ü.bin", "/", "." ]
        import pathlib
        assert all(str(pathlib.PurePosixPath(x)) == x for x in names)
        n = 0
        for via in ("strs", "paths"):
            for d in names:
                for f in names:
                    check_message(rec, "dirreq", {"dir": hx(d.encode()), "file": hx(f.encode()), "via": via})
                    check_message(rec, "dirresp", {"ok": 1, "dir": hx(d.encode()), "file": hx(f.encode()), "via": via})
                    n += 2
        rec.count("directory_messages_via_str_and_path_entry_points", n)
    elif kind == "dir":
        n = 0
        for src, dst in fit_pairs(tier, 255 - 5 - 2):
            check_message(rec, "dirreq", {"dir": hx(src), "file": hx(dst)})
            n += 1
        for ok in (0, 1):
            for src, dst in fit_pairs(tier, 255 - 5 - 1 - 2):
                p = {"ok": ok, "dir": hx(src), "file": hx(dst)}
                ref = check_message(rec, "dirresp", p)
                n += 1
                if ok and (src, dst) == (b"dir/f.bin", "ä".encode()):
                    rec.sample({"DirectoryListingResponse": p, "expected_octets": ref})
        rec.count("directory_messages", n)
    elif kind == "types":
        fields = [b"", b"\x00", b"\xff", bytes(8), b"\x01\x05\x01a\x01b"] + ([bytes(range(32)), b"\xff" * 250] if tier != "quick" else [])
        for t in range(255):  # the constructor documents msg_type < 255
            for f in fields:
                check_type_octet(rec, t, f)
        rec.count("message_type_octets", 255)
    elif kind == "nonres":
        n = 0
        for i, c in enumerate(D.dedupe(nonreserved_contents(tier))):  # de-duplicated before it is partitioned
            if i % NONRES_PARTS != item["part"]:
                continue
            if is_reserved_content(c):
                raise AssertionError("alphabet of non-reserved contents contains a reserved one: %r" % c)
            for via in ("ctor", "unpack"):
                check_nonreserved(rec, c, via)
            n += 1
        if item["part"] == 0:
            rec.sample({"non_reserved_content": b"cfdq\x00", "expected": "is_reserved_cfdp_message() False, to_reserved_msg_tlv() None"})
        rec.count("nonreserved_contents", n)
        rec.outcome("nonreserved/answered")
    return rec.result()


def replay(case):
    rec = Rec(PROPERTY, "replay")
    k = case["kind"]
    if k == "msg":
        check_message(rec, case["msg"], case["p"])
    elif k == "type":
        check_type_octet(rec, case["t"], bt(case["fields"]))
    elif k == "nonreserved":
        check_nonreserved(rec, bt(case["content"]), case["via"])
    else:
        raise ValueError("unknown case kind %r" % (k,))
    return rec.result()


def finalize(tier, agg):
    c = agg["counters"]
    return {
        "message_kinds": 9,
        "originating_id_width_pairs": f"{c.get('width_pairs', 0)}/16",
        "message_type_octets_classified": c.get("message_type_octets", 0),
        "nonreserved_contents": c.get("nonreserved_contents", 0),
    }
