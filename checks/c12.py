"""C12 - PDU factory and holder (engine V).  DESIGN.md section 4, C12.

For every reference-encoded PDU: type(PduFactory.from_raw(raw)) is exactly the kind's class, every observable equals
the recipe, == the constructed original (both directions), re-pack == raw; PduFactory.pdu_type / is_file_directive /
pdu_directive_type equal the reference extraction from the raw octets; the full 8x8 matrix of PduHolder accessors
(held kind x requested kind): the matching accessor returns the held object, every other raises TypeError.

Decode failures of a PDU class seen through the factory carry the prefix 'C12.factory/PduFactory.from_raw(<Class>)'
so that they are attributable to the same code sites C06 / C07 report as '<Class>.unpack'."""

from __future__ import annotations

import itertools

from mc import domains as D
from mc.rec import Rec
from ref import cfdp as R
from units import cfdp_pdu as U

PROPERTY = "C12"
LEVEL = "model_checking"  # bounded-exhaustive enumeration of executions against a reference model (DESIGN.md 1, 2.1)
EXHAUSTIVE = True
RULE = (
    "case = (PDU kind, header configuration, ID value scheme, parameter set). 8 kinds x 128 header configurations (CRC x "
    "large-file x ID width x sequence width x transmission mode; File Data alternates segmentation control) x 2 ID "
    "schemes (asymmetric default; octets that look like directive codes 0x04..0x0C, so that a directive octet looked up "
    "at a wrong offset among the 16 possible ones is seen) x the kind's parameter sets (minimal, all optional parts; "
    "File Data also empty data); under the directive-code ID scheme additionally every parameter vector of the C06 / C07 "
    "quick enumeration within deviation bound d of the default vector (ACK and Prompt: full product). Each case runs the factory decode, the three raw-buffer "
    "inspectors and the 8 holder accessors on a holder obtained from the factory and on a holder around the constructed "
    "object (for the corpus parameter sets), i.e. all 64 (held kind, requested kind) pairs in every configuration. Cases are pairwise distinct by "
    "construction (shards partition kind x configuration)."
)
BOUNDS = {"quick": "d<=1", "thorough": "d<=2 in 2 backgrounds (the whole C06 / C07 quick enumeration)"}
ASSUMPTIONS = [
    "reference encoder / extractor ref/cfdp.py transcribes CCSDS 727.0-B-5 (bound to the repository's byte vectors by selftest/st_ref_cfdp.py)",
    "the factory is fed reference octets; that the library's own pack() produces the same octets is C06 / C07",
]

CFGS = [{"crc": c, "large": l, "idw": i, "seqw": s, "mode": m}
        for c, l, i, s, m in itertools.product((0, 1), (0, 1), (1, 2, 4, 8), (1, 2, 4, 8), (0, 1))]
ACCESSORS = {
    "EofPdu": "to_eof_pdu", "FinishedPdu": "to_finished_pdu", "AckPdu": "to_ack_pdu", "MetadataPdu": "to_metadata_pdu",
    "NakPdu": "to_nak_pdu", "PromptPdu": "to_prompt_pdu", "KeepAlivePdu": "to_keep_alive_pdu", "FileDataPdu": "to_file_data_pdu",
}


def shards(tier):
    items = []
    for kind in U.PDU_KINDS:
        for idxs in D.chunks(list(range(len(CFGS))), 4 if tier == "quick" else 16):
            items.append({"kind": kind, "cfgs": idxs, "tier": tier})
    return items


def _deviations(kind, v):
    d = U.PARAM_DEFAULT[kind]
    n = 0
    for k, dv in d.items():
        x = v.get(k, dv)
        if k == "data":
            x = R.data_octets(x)
        if x != dv and not (x in (None, []) and dv in (None, [])):
            n += 1
    if kind == "EofPdu" and v.get("fault") is not None:
        n -= 1  # the error condition code a fault location needs is not a deviation of its own
    if kind == "FinishedPdu":
        flags = sum(1 for k in ("cc", "dc", "fs") if v[k] != 0)
        n -= max(0, flags - 1)  # the flag octet is one axis
        if v.get("fault") is not None and (v["cc"], v["dc"], v["fs"]) == (4, 0, 0):
            n -= 1
    return n


_VEC = {}


def extra_vectors(kind, large, tier):
    """quick: every parameter vector of the C06 / C07 quick enumeration within one deviation of the default vector;
    thorough: all of that enumeration (d<=2, 2 backgrounds)"""
    key = (kind, large, tier)
    if key not in _VEC:
        if kind == "FileDataPdu":
            from checks import c07

            vs = c07.vectors_for(large, "quick")[0]
        else:
            from checks import c06

            vs = c06.vectors_for(kind, large, "quick")[0]
        if tier == "quick" and kind not in ("AckPdu", "PromptPdu"):
            vs = [v for v in vs if _deviations(kind, v) <= 1]
        _VEC[key] = vs
    return _VEC[key]


def param_sets(unit, cfg, with_vectors, tier):
    out = []
    for tag in unit.param_set_tags():
        c = dict(cfg)
        p = unit.param_set(tag, c)
        out.append((c, p))
    if with_vectors:
        seen = {repr(U.hexed(p)) for _, p in out}
        for v in extra_vectors(unit.kind, cfg["large"], tier):
            if repr(U.hexed(v)) not in seen:
                out.append((dict(cfg), v))
    return out


def check_inspectors(rec, kind, recipe, raw):
    """PduFactory.pdu_type / is_file_directive / pdu_directive_type versus the reference extraction"""
    case = {"kind": "inspect", "unit": kind, "recipe": U.hexed(U.norm(recipe))}
    F = U.L.PduFactory
    exp_type, exp_dir = R.pdu_type(raw), R.directive_code(raw)
    feats = f"/idw={recipe['cfg']['idw']}/seqw={recipe['cfg']['seqw']}"
    for name, call, exp in (("pdu_type", lambda: int(F.pdu_type(raw)), exp_type),
                            ("is_file_directive", lambda: bool(F.is_file_directive(raw)), exp_type == 0),
                            ("pdu_directive_type", lambda: (lambda x: None if x is None else int(x))(F.pdu_directive_type(raw)), exp_dir)):
        try:
            got = call()
        except Exception as e:
            rec.violation(f"C12.inspect/PduFactory.{name}/exception/{kind}{feats}", case, repr(e), exp)
            continue
        if got != exp:
            rec.violation(f"C12.inspect/PduFactory.{name}/wrong-answer/{kind}{feats}", case, got, exp)


def check_holder(rec, kind, recipe, holder, origin):
    """8 accessors on a holder that holds a PDU of `kind`"""
    case = {"kind": "holder", "unit": kind, "origin": origin, "recipe": U.hexed(U.norm(recipe))}
    for want, acc in ACCESSORS.items():
        try:
            got = getattr(holder, acc)()
        except TypeError:
            if want == kind:
                rec.violation(f"C12.holder/PduHolder.{acc}/matching-kind-refused/held={kind}/{origin}", case, "TypeError", kind)
            continue
        except Exception as e:
            rec.violation(f"C12.holder/PduHolder.{acc}/other-exception/{type(e).__name__}/held={kind}/{origin}", case, repr(e),
                          "the object" if want == kind else "TypeError")
            continue
        if want != kind:
            rec.violation(f"C12.holder/PduHolder.{acc}/other-kind-accepted/held={kind}/{origin}", case, type(got).__name__, "TypeError")
        elif got is not holder.pdu or type(got) is not U.UNITS[kind].cls():
            rec.violation(f"C12.holder/PduHolder.{acc}/not-the-held-object/held={kind}/{origin}", case, type(got).__name__, kind)


def factory_case(rec, kind, recipe, holder_too=True):
    unit = U.UNITS[kind]
    raw = unit.ref(recipe)
    rec.case(True, ops=U.OPS_PER_CASE + 3 + (16 if holder_too else 0))
    ok = U.judge(rec, PROPERTY, "factory", unit, recipe, "factory", encode_side=False)
    rec.outcome(f"{kind}:{'ok' if ok else 'violation'}:hdr{R.header_len(raw)}")
    check_inspectors(rec, kind, recipe, raw)
    if not holder_too:
        return
    try:
        holder = U.L.PduFactory.from_raw_to_holder(raw)
        if type(holder.pdu) is not unit.cls():
            holder = None  # reported by the factory clause above
    except Exception:
        holder = None  # reported by the factory clause above
    if holder is not None:
        check_holder(rec, kind, recipe, holder, "from_raw_to_holder")
        rec.count("holder_pairs_checked", 8)
    try:
        obj = unit.build(recipe)
    except Exception:
        rec.count("original_not_constructible")
        return
    check_holder(rec, kind, recipe, U.L.PduHolder(obj), "constructed")
    rec.count("holder_pairs_checked", 8)


def run_shard(item):
    rec = Rec(PROPERTY, item)
    kind, tier = item["kind"], item["tier"]
    unit = U.UNITS[kind]
    for ci in item["cfgs"]:
        base = dict(CFGS[ci])
        if kind == "FileDataPdu":
            base["segctrl"] = ci % 2
        n = 0
        for scheme in ("dir", "std"):
            cfg = dict(base, ids=scheme)
            for c, p in param_sets(unit, cfg, scheme == "dir", tier):
                n += 1
                # the holder matrix does not depend on the parameter vector: all 64 pairs for the corpus sets only
                factory_case(rec, kind, {"cfg": c, "params": p}, holder_too=n <= 6)
                rec.count(f"{kind}_cases")
        recipe = {"cfg": dict(base, ids="dir"), "params": unit.param_set("full", dict(base))}
        raw = unit.ref(recipe)
        rec.sample({"kind": kind, "recipe": U.hexed(recipe), "raw": raw[:96], "expected_class": kind, "expected_pdu_type": R.pdu_type(raw),
                    "expected_directive_code": R.directive_code(raw), "directive_octet_offset": R.header_len(raw)}, limit=1)
    return rec.result()


def replay(case):
    rec = Rec(PROPERTY, "replay")
    kind = case["unit"]
    if case["kind"] == "pdu":
        rec.case(True, ops=U.OPS_PER_CASE)
        U.judge(rec, PROPERTY, "factory", U.UNITS[kind], case["recipe"], case.get("via", "factory"), case.get("enc", False))
    else:
        factory_case(rec, kind, case["recipe"], holder_too=True)
    return rec.result()


def finalize(tier, agg):
    c = agg["counters"]
    return {
        "header_configurations_crossed": len(CFGS),
        "directive_octet_offsets_exercised": sorted({4 + 2 * i + s for i in (1, 2, 4, 8) for s in (1, 2, 4, 8)}),
        "cases_per_kind": {k: c.get(f"{k}_cases", 0) for k in U.PDU_KINDS},
        "holder_accessor_calls": c.get("holder_pairs_checked", 0),
        "held_kind_x_requested_kind_pairs": 64,
    }
