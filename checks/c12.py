"""C12 - PDU factory and holder (engine V + engine H for the holder).  DESIGN.md section 4, C12.

matrix shards   For every reference-encoded PDU: type(PduFactory.from_raw(raw)) is exactly the kind's class, every
                observable equals the recipe, == the constructed original (both directions), re-pack == raw;
                PduFactory.pdu_type / is_file_directive / pdu_directive_type equal the reference extraction from the raw
                octets; the full 8x8 matrix of PduHolder accessors (held kind x requested kind): the matching accessor
                returns the held object, every other raises TypeError.  Segmentation control is a crossed header axis for
                ALL kinds (bit 7 of the octet that carries the two width fields the factory reads).
indep shards    Independence of what the factory hands out (mc.alias.Keeper): every result of from_raw /
                from_raw_to_holder (and the constructed original it has to equal) of kind a is re-observed after the
                factory decoded / the constructor built a PDU of kind b - all 64 (a, b), b's configuration being the
                complement of a's in every header axis (all 256 configurations of a) or the same configuration.
hist shards     PduHolder is a mutable object with a public `pdu` attribute (and the deprecated public `base`
                property): every event history up to the depth bound over {assign a PDU of kind k through either, read
                any of its 15 observers} from every start state, each step compared with the model "the holder holds the
                object assigned last".

Decode failures of a PDU class seen through the factory carry the prefix 'C12.factory/PduFactory.from_raw(<Class>)'
so that they are attributable to the same code sites C06 / C07 report as '<Class>.unpack'."""

from __future__ import annotations

import itertools

from mc import domains as D
from mc.alias import Keeper
from mc.rec import Rec
from ref import cfdp as R
from units import cfdp_pdu as U

PROPERTY = "C12"
LEVEL = "model_checking"  # bounded-exhaustive enumeration of executions against a reference model (DESIGN.md 1, 2.1)
EXHAUSTIVE = True
RULE = (
    "Three families of cases, all complete enumerations. (1) matrix: case = (PDU kind, header configuration, ID value "
    "scheme, parameter set). 8 kinds x 256 header configurations (CRC x large-file x ID width x sequence width x "
    "transmission mode x segmentation control - the latter for file directives too: it shares octet 3 with the two width "
    "fields the factory reads to find the directive octet) x 2 ID schemes (asymmetric default; octets that look like "
    "directive codes 0x04..0x0C, so that a directive octet looked up at a wrong offset among the 16 possible ones is "
    "seen) x the kind's parameter sets (minimal, all optional parts; File Data also empty data); under the "
    "directive-code ID scheme additionally every parameter vector of the C06 / C07 quick enumeration within deviation "
    "bound d of the default vector (ACK and Prompt: full product). Each case runs the factory decode, the three "
    "raw-buffer inspectors and the 8 holder accessors on a holder obtained from the factory and on a holder around the "
    "constructed object (for the corpus parameter sets), i.e. all 64 (held kind, requested kind) pairs in every "
    "configuration; the PDUs held by these holders are re-observed after the next 2 cases. Shards partition kind x "
    "configuration such that every shard contains every value of every configuration axis. (2) independence: case = "
    "(earlier kind a, later kind b, configuration of a, relation, parameter sets): the complete factory clause for a (in "
    "whatever state the earlier cases of the shard left the library), a decoded again by from_raw and by "
    "from_raw_to_holder and constructed, then the complete factory clause for b (constructs b, decodes it through "
    "from_raw), b through from_raw_to_holder with its 8 accessors and the three inspectors on b's octets, then the three "
    "results of a and the two octet buffers their pack() returned are observed again (class, all fields, packet_len, "
    "pdu_data_field_len by pure attribute reads; the buffers octet for octet), then the three results must still "
    "re-pack to the reference octets and a's holder must still hold the same object and answer all 8 accessors for "
    "kind a. relation 'complement': all 256 configurations of a, b's "
    "configuration differs in every header axis and in every ID octet, parameter sets (minimal, full) and (full, minimal); "
    "relation 'same': the 16 configurations of a Latin square (every width pair and every flag combination once), same "
    "configuration and IDs for b, all 4 parameter-set pairs; relation 'identical-header' (same 16 configurations): every "
    "ordered pair of different directive kinds for which the variable-length parts of one can be padded so that the two "
    "fixed headers are octet-for-octet identical (same direction, same data field length; EOF/Metadata, NAK/Finished, "
    "Keep Alive/Finished), i.e. only the directive octet and the body tell the two PDUs apart. (3) holder histories: case = (start state, origin of the "
    "assigned PDUs, event sequence of exactly the depth bound). Start states: PduHolder(None), PduHolder(<constructed "
    "PDU of kind k>), PduFactory.from_raw_to_holder(<octets of kind k>) for the 8 kinds. Events (31): `holder.pdu = x` "
    "and `holder.base = x` for a PDU x of each of the 8 kinds (constructed or decoded objects), and the 15 observers "
    "pdu, base, pdu_type, is_file_directive, pdu_directive_type, packet_len, pack(), to_<kind>_pdu() x 8. After every "
    "event the observation is compared with the model (the object assigned last: identity for pdu / base / the matching "
    "accessor, TypeError for the 7 others, PDU type and directive code of its kind, its own packet_len / pack()); after "
    "the last event all 15 observers are evaluated once more. Observers on a holder that holds nothing are outside the "
    "property (those histories are not generated). All cases are pairwise distinct by construction."
)
BOUNDS = {
    "quick": "matrix d<=1; holder histories of 3 events (+ final sweep of the 15 observers), one header configuration per start state",
    "thorough": "matrix d<=2 in 2 backgrounds (the whole C06 / C07 quick enumeration); holder histories of 4 events (+ final sweep)",
}
ASSUMPTIONS = [
    "reference encoder / extractor ref/cfdp.py transcribes CCSDS 727.0-B-5 (bound to the repository's byte vectors by selftest/st_ref_cfdp.py)",
    "the factory is fed reference octets; that the library's own pack() produces the same octets is C06 / C07",
    "holder histories: packet_len / pack() of a holder are compared with what the held PDU itself answered when it was created (delegation), not with reference octets (C06 / C07)",
    "segmentation control on a file directive PDU: the standard says the bit is ignored for directives; PduConfig.seg_ctrl is a public field, the header codec carries it for every PDU type (C05), so the factory has to cope with it",
]

WIDTHS = (1, 2, 4, 8)
CFGS = [{"crc": c, "large": l, "idw": i, "seqw": s, "mode": m, "segctrl": g}
        for c, l, i, s, m, g in itertools.product((0, 1), (0, 1), WIDTHS, WIDTHS, (0, 1), (0, 1))]
ACCESSORS = {
    "EofPdu": "to_eof_pdu", "FinishedPdu": "to_finished_pdu", "AckPdu": "to_ack_pdu", "MetadataPdu": "to_metadata_pdu",
    "NakPdu": "to_nak_pdu", "PromptPdu": "to_prompt_pdu", "KeepAlivePdu": "to_keep_alive_pdu", "FileDataPdu": "to_file_data_pdu",
}
ACC_KIND = {v: k for k, v in ACCESSORS.items()}

# ---- holder histories: alphabet ---------------------------------------------------------------------------------------
SET_METHODS = ("pdu", "base")
OBSERVERS = ["pdu", "base", "pdu_type", "is_file_directive", "pdu_directive_type", "packet_len", "pack"] + list(ACCESSORS.values())
EVENTS = [["set", m, k] for m in SET_METHODS for k in R.KINDS] + [["get", o] for o in OBSERVERS]
N_SET = len(SET_METHODS) * len(R.KINDS)
STARTS = [["none", None, "constructed"], ["none", None, "decoded"]] + \
         [["ctor", k, "constructed"] for k in R.KINDS] + [["factory", k, "decoded"] for k in R.KINDS]
HIST_DEPTH = {"quick": 3, "thorough": 4}


def _flag_index(cfg):
    return cfg["crc"] + 2 * cfg["large"] + 4 * cfg["mode"] + 8 * cfg["segctrl"]


def _latin(cfg):
    """0..15; together with n | 16: residue classes that contain every value of every axis"""
    return 4 * WIDTHS.index(cfg["idw"]) + WIDTHS.index(cfg["seqw"]) + 5 * _flag_index(cfg)


def cfg_parts(n):
    """partition of the configuration indices into n (4, 8 or 16) parts of equal size; every part contains every value of
    every axis and consecutive members differ in several axes at once (what a state leak between decodes needs)"""
    parts = [[] for _ in range(n)]
    for idx, cfg in enumerate(CFGS):
        parts[_latin(cfg) % n].append(idx)
    return parts


SAME_CFGS = [i for i, c in enumerate(CFGS) if _flag_index(c) == 4 * WIDTHS.index(c["idw"]) + WIDTHS.index(c["seqw"])]


def complement(cfg):
    """the configuration that differs in every header axis and (other ID scheme) in every ID octet"""
    nxt = {1: 2, 2: 4, 4: 8, 8: 1}
    return {"crc": 1 - cfg["crc"], "large": 1 - cfg["large"], "idw": nxt[cfg["idw"]], "seqw": nxt[nxt[cfg["seqw"]]],
            "mode": 1 - cfg["mode"], "segctrl": 1 - cfg["segctrl"], "ids": "std" if cfg.get("ids", "std") == "dir" else "dir"}


def shards(tier):
    items = []
    nparts = 8 if tier == "quick" else 16
    for kind in U.PDU_KINDS:
        for idxs in cfg_parts(nparts):
            items.append({"mode": "matrix", "kind": kind, "cfgs": idxs, "tier": tier})
    for kind in U.PDU_KINDS:
        for idxs in cfg_parts(4):
            items.append({"mode": "indep", "kind": kind, "cfgs": idxs, "tier": tier})
    for ci in range(len(SIZE_CFGS)):
        for part in range(4):
            items.append({"mode": "sizes", "ci": ci, "part": part, "parts": 4, "tier": tier})
    depth = HIST_DEPTH[tier]
    for si, start in enumerate(STARTS):
        firsts = list(range(N_SET if start[0] == "none" else len(EVENTS)))
        for fs in D.chunks(firsts, 4 if tier == "quick" else len(firsts)):
            # one header configuration per start state, spread over the configuration space
            items.append({"mode": "hist", "start": start, "firsts": fs, "depth": depth, "cfg": (si * 29 + 7) % len(CFGS), "tier": tier})
    return items


# ======================================================================================================================
# matrix
# ======================================================================================================================
def _deviations(kind, v):
    d = U.PARAM_DEFAULT[kind]
    n = 0
    for k, dv in d.items():
        x = v.get(k, dv)
        if k == "data":
            x = R.data_octets(x)
        if x != dv and not (x in (None, []) and dv in (None, [])):
            n += 1
    if kind == "EofPdu" and v.get("fault") is not None:
        n -= 1  # the error condition code a fault location needs is not a deviation of its own
    if kind == "FinishedPdu":
        flags = sum(1 for k in ("cc", "dc", "fs") if v[k] != 0)
        n -= max(0, flags - 1)  # the flag octet is one axis
        if v.get("fault") is not None and v["cc"] != 0 and (v["dc"], v["fs"]) == (0, 0):
            n -= 1  # as for EOF: the error condition code (ANY of them) a fault location needs is not a deviation of its own
    return n


_VEC = {}


def extra_vectors(kind, large, tier):
    """quick: every parameter vector of the C06 / C07 quick enumeration within one deviation of the default vector;
    thorough: all of that enumeration (d<=2, 2 backgrounds)"""
    key = (kind, large, tier)
    if key not in _VEC:
        if kind == "FileDataPdu":
            from checks import c07

            vs = c07.vectors_for(large, "quick")[0]
        else:
            from checks import c06

            vs = c06.vectors_for(kind, large, "quick")[0]
        if tier == "quick" and kind not in ("AckPdu", "PromptPdu"):
            vs = [v for v in vs if _deviations(kind, v) <= 1]
        _VEC[key] = vs
    return _VEC[key]


def param_sets(unit, cfg, with_vectors, tier):
    out = []
    for tag in unit.param_set_tags():
        c = dict(cfg)
        p = unit.param_set(tag, c)
        if c != cfg:
            # the parameter set needs another configuration (File Data with segment metadata sets segmentation
            # control): it is enumerated under that configuration, which is a member of CFGS
            continue
        out.append((c, p))
    if with_vectors:
        seen = {repr(U.hexed(p)) for _, p in out}
        for v in extra_vectors(unit.kind, cfg["large"], tier):
            if repr(U.hexed(v)) not in seen:
                out.append((dict(cfg), v))
    return out


def check_inspectors(rec, kind, recipe, raw, case=None):
    """PduFactory.pdu_type / is_file_directive / pdu_directive_type versus the reference extraction.
    With `case` (an independence pair) the signature is the coarse one of the independence clause."""
    pair = case is not None
    case = case or {"kind": "inspect", "unit": kind, "recipe": U.hexed(U.norm(recipe))}
    F = U.L.PduFactory
    exp_type, exp_dir = R.pdu_type(raw), R.directive_code(raw)
    cfg = recipe["cfg"]
    feats = f"/idw={cfg['idw']}/seqw={cfg['seqw']}" + ("/segctrl=1" if cfg.get("segctrl") else "")
    for name, call, exp in (("pdu_type", lambda: int(F.pdu_type(raw)), exp_type),
                            ("is_file_directive", lambda: bool(F.is_file_directive(raw)), exp_type == 0),
                            ("pdu_directive_type", lambda: (lambda x: None if x is None else int(x))(F.pdu_directive_type(raw)), exp_dir)):
        try:
            got = call()
        except Exception as e:
            sig = f"C12.independence/PduFactory.{name}/wrong-after-a-decode-of-another-kind" if pair else f"C12.inspect/PduFactory.{name}/exception/{kind}{feats}"
            rec.violation(sig, case, repr(e), exp)
            continue
        if got != exp:
            sig = f"C12.independence/PduFactory.{name}/wrong-after-a-decode-of-another-kind" if pair else f"C12.inspect/PduFactory.{name}/wrong-answer/{kind}{feats}"
            rec.violation(sig, case, got, exp)


def check_holder(rec, kind, recipe, holder, origin, case=None, held=None):
    """8 accessors on a holder that holds a PDU of `kind`"""
    case = case or {"kind": "holder", "unit": kind, "origin": origin, "recipe": U.hexed(U.norm(recipe))}
    for want, acc in ACCESSORS.items():
        try:
            got = getattr(holder, acc)()
        except TypeError:
            if want == kind:
                rec.violation(f"C12.holder/PduHolder.{acc}/matching-kind-refused/held={kind}/{origin}", case, "TypeError", kind)
            continue
        except Exception as e:
            rec.violation(f"C12.holder/PduHolder.{acc}/other-exception/{type(e).__name__}/held={kind}/{origin}", case, repr(e),
                          "the object" if want == kind else "TypeError")
            continue
        if want != kind:
            rec.violation(f"C12.holder/PduHolder.{acc}/other-kind-accepted/held={kind}/{origin}", case, type(got).__name__, "TypeError")
        elif got is not holder.pdu or type(got) is not U.UNITS[kind].cls() or (held is not None and got is not held):
            rec.violation(f"C12.holder/PduHolder.{acc}/not-the-held-object/held={kind}/{origin}", case, type(got).__name__, kind)


def pdu_observer(unit):
    """what the property says about a decoded PDU, as a plain value (copies).  Pure attribute reads only: pack()
    recomputes and stores lengths inside the object, an observer that calls it could repair or disturb what it observes;
    pack() results are held separately (observe=bytes) and re-packing is compared explicitly at the end of a case."""
    cls = unit.cls()

    def f(o):
        return (type(o) is cls, unit.observe(o), int(o.packet_len), int(o.pdu_data_field_len))

    return f


def factory_case(rec, kind, recipe, holder_too=True, keeper=None):
    unit = U.UNITS[kind]
    raw = unit.ref(recipe)
    rec.case(True, ops=U.OPS_PER_CASE + 3 + (16 if holder_too else 0))
    ok = U.judge(rec, PROPERTY, "factory", unit, recipe, "factory", encode_side=False)
    rec.outcome(f"{kind}:{'ok' if ok else 'violation'}:hdr{R.header_len(raw)}")
    check_inspectors(rec, kind, recipe, raw)
    if not holder_too:
        return
    hcase = {"kind": "holder", "unit": kind, "origin": "from_raw_to_holder", "recipe": U.hexed(U.norm(recipe))}
    try:
        holder = U.L.PduFactory.from_raw_to_holder(raw)
        if type(holder.pdu) is not unit.cls():
            holder = None  # reported by the factory clause above
    except Exception:
        holder = None  # reported by the factory clause above
    if holder is not None:
        check_holder(rec, kind, recipe, holder, "from_raw_to_holder")
        rec.count("holder_pairs_checked", 8)
        if keeper is not None and ok:
            keeper.hold("PduFactory.from_raw_to_holder", holder.pdu, pdu_observer(unit), hcase)
    try:
        obj = unit.build(recipe)
    except Exception:
        rec.count("original_not_constructible")
        return
    check_holder(rec, kind, recipe, U.L.PduHolder(obj), "constructed", held=obj)
    rec.count("holder_pairs_checked", 8)


def run_matrix(rec, item):
    kind, tier = item["kind"], item["tier"]
    unit = U.UNITS[kind]
    keeper = Keeper(rec, PROPERTY, depth=2)
    for ci in item["cfgs"]:
        base = dict(CFGS[ci])
        n = 0
        for scheme in ("dir", "std"):
            cfg = dict(base, ids=scheme)
            for c, p in param_sets(unit, cfg, scheme == "dir", tier):
                n += 1
                # the holder matrix does not depend on the parameter vector: all 64 pairs for the corpus sets only
                recipe = {"cfg": c, "params": p}
                factory_case(rec, kind, recipe, holder_too=n <= 6, keeper=keeper)
                keeper.recheck({"kind": "holder", "unit": kind, "recipe": U.hexed(recipe)})
                rec.count(f"{kind}_cases")
                if c.get("segctrl"):
                    rec.count(f"{kind}_cases_with_segmentation_control")
        recipe = {"cfg": dict(base, ids="dir"), "params": unit.param_set("full", dict(base))}
        raw = unit.ref(recipe)
        rec.sample({"kind": kind, "recipe": U.hexed(recipe), "raw": raw[:96], "expected_class": kind, "expected_pdu_type": R.pdu_type(raw),
                    "expected_directive_code": R.directive_code(raw), "directive_octet_offset": R.header_len(raw)}, limit=1)
    keeper.flush()


# ======================================================================================================================
# independence of the factory's results (theme: hidden shared mutable state)
# ======================================================================================================================
def _recipe(kind, cfg, tag):
    c = dict(cfg)
    p = U.UNITS[kind].param_set(tag, c)
    return {"cfg": c, "params": p}


def pair_recipes(a, b, ci, rel, tag_a, tag_b):
    cfg_a = dict(CFGS[ci], ids="dir" if (tag_a == "min" or rel == "same") else "std")
    cfg_b = complement(cfg_a) if rel == "complement" else dict(cfg_a)
    return _recipe(a, cfg_a, tag_a), _recipe(b, cfg_b, tag_b)


def _body_len(kind, recipe):
    r = U.norm(recipe)
    return len(U.UNITS[kind].ref(recipe)) - R.header_len_of(r["cfg"]["idw"], r["cfg"]["seqw"]) - (2 if r["cfg"]["crc"] else 0)


def twin_recipe(kind, cfg, length):
    """a recipe of `kind` under cfg whose data field is `length` octets long (variable-length parts padded), or None"""
    base = _recipe(kind, cfg, "min")
    pad = length - _body_len(kind, base)
    if pad == 0:
        return base
    cands = []
    if kind == "MetadataPdu" and 0 < pad < 200:
        cands.append(dict(base["params"], src="a" * pad))
    if kind == "FinishedPdu":
        if pad >= 6:  # one filestore response with a one-name action: 2 + 1 + (1 + n) + 1 octets
            cands.append(dict(base["params"], resps=[dict(U.RESP_ONE_NAME, first="d" * (pad - 5))]))
        cands.append(dict(base["params"], cc=4, fault=U._fault_for(cfg)))
    if kind == "EofPdu":
        cands.append(dict(base["params"], cc=6, fault=U._fault_for(cfg)))
    for p in cands:
        r = {"cfg": dict(base["cfg"]), "params": p}
        if _body_len(kind, r) == length:
            return r
    return None


def twin_pairs(ci):
    """ordered pairs of PDUs of DIFFERENT directive kinds whose fixed headers are octet-for-octet identical (same
    configuration, IDs, direction and data field length): only the directive octet and the body tell them apart"""
    cfg = dict(CFGS[ci], ids="dir")
    hlen = R.header_len_of(cfg["idw"], cfg["seqw"])
    out = []
    for x in R.KINDS:
        rx = _recipe(x, cfg, "min")
        raw_x = U.UNITS[x].ref(rx)
        for y in R.KINDS:
            if y == x:
                continue
            ry = twin_recipe(y, cfg, _body_len(x, rx))
            if ry is None or U.UNITS[y].ref(ry)[:hlen] != raw_x[:hlen]:
                continue
            out.append((x, y, rx, ry))
            out.append((y, x, ry, rx))
    return out


def indep_case(rec, a, b, ra, rb, rel):
    """decode / construct a; decode / construct b; the results of a must not have changed"""
    ra, rb = U.hexed(ra), U.hexed(rb)
    case = {"kind": "indep", "unit": a, "later": b, "rel": rel, "ra": ra, "rb": rb}
    ua, ub = U.UNITS[a], U.UNITS[b]
    raw_a, raw_b = ua.ref(ra), ub.ref(rb)
    F = U.L.PduFactory
    keeper = Keeper(rec, PROPERTY, depth=5)
    obs = pdu_observer(ua)
    rec.case(True, ops=2 * U.OPS_PER_CASE + 3 + 3 + 2 + 16 + 3 + 3)
    # a alone is the business of the matrix shards (complete factory clause, minimised witness); here it only has to
    # be usable as the earlier result
    if U.evaluate(ua, ra, "factory", False) is not None:
        rec.count("indep_earlier_not_decodable")
        return
    try:
        first = F.from_raw(raw_a)
        holder = F.from_raw_to_holder(raw_a)
        if type(first) is not ua.cls() or type(holder.pdu) is not ua.cls():
            raise ValueError("classes %s, %s" % (type(first).__name__, type(holder.pdu).__name__))
    except Exception as e:
        rec.violation("C12.independence/PduFactory.from_raw/second-decode-of-the-same-octets-differs", case, repr(e), a)
        return
    held = holder.pdu
    built = None
    try:
        built = ua.build(ra)
    except Exception:
        rec.count("original_not_constructible")
    try:
        packs_alone = built is not None and bytes(built.pack()) == raw_a  # otherwise C06 / C07, not this clause
    except Exception:
        packs_alone = False
    try:  # the very octet buffers pack() hands out (a shared output buffer would be rewritten by the next pack())
        out_first, out_holder = first.pack(), holder.pack()
    except Exception:
        out_first = out_holder = None  # C06 / C07
    # snapshots are taken after the pack() calls above; from here on the held objects are only read
    keeper.hold("PduFactory.from_raw", first, obs, case)
    keeper.hold("PduFactory.from_raw_to_holder", held, obs, case)
    keeper.hold("constructed-original", built, obs, case)
    keeper.hold("PduFactory.from_raw.pack()", out_first, bytes, case)
    keeper.hold("PduHolder.pack()", out_holder, bytes, case)
    # ---- later use of the library: kind b, straight after kind a (the complete factory clause again: constructs b,
    # decodes it through from_raw, compares every observable, equality, re-pack), then the holder entry point
    fail = U.evaluate(ub, rb, "factory", False)
    if fail is not None:
        rec.violation("C12.independence/PduFactory.from_raw/later-decode-of-another-kind-wrong", case,
                      [fail.subject, fail.kind, fail.observed], fail.expected,
                      note="factory clause for the later PDU evaluated straight after the earlier one (if the matrix shards report "
                           "the same recipe under C12.factory it also fails alone)")
    try:
        hb = F.from_raw_to_holder(raw_b)
        if type(hb.pdu) is ub.cls():
            check_holder(rec, b, rb, hb, "from_raw_to_holder-after-other-kind", case=case)
    except Exception:
        rec.count("indep_later_not_decodable")  # reported by the factory clause just above
    check_inspectors(rec, b, rb, raw_b, case=case)
    keeper.recheck({"later": b, "recipe": U.hexed(rb)})
    keeper.flush()
    # "re-packing identically to the original" must still hold for the earlier results (it did when a was judged)
    for subject, o in (("PduFactory.from_raw", first), ("PduFactory.from_raw_to_holder", held), ("constructed-original", built)):
        if o is None or (o is built and not packs_alone):
            continue
        try:
            again = bytes(o.pack())
        except Exception as e:
            again = repr(e)
        if again != raw_a:
            rec.violation(f"C12.independence/{subject}/repack-differs-after-a-later-call", case, again, raw_a)
    if holder.pdu is not held:
        rec.violation("C12.independence/PduHolder.pdu/replaced-by-a-later-call", case, type(holder.pdu).__name__, a)
    else:
        check_holder(rec, a, ra, holder, "from_raw_to_holder-after-other-kind", case=case, held=held)
    rec.count("holder_pairs_checked", 16)
    rec.count("independence_pairs")
    rec.outcome(f"indep:{a}:{b}:{rel}")


def indep_pairs(ci):
    out = [("complement", "min", "full"), ("complement", "full", "min")]
    if ci in SAME_CFGS:
        out += [("same", ta, tb) for ta in ("min", "full") for tb in ("min", "full")]
    return out


def run_indep(rec, item):
    a = item["kind"]
    for ci in item["cfgs"]:
        for rel, ta, tb in indep_pairs(ci):
            for b in U.PDU_KINDS:
                ra, rb = pair_recipes(a, b, ci, rel, ta, tb)
                indep_case(rec, a, b, ra, rb, rel)
        if ci in SAME_CFGS:
            for x, y, rx, ry in twin_pairs(ci):
                if x == a:
                    indep_case(rec, x, y, rx, ry, "identical-header")
                    rec.count("independence_pairs_with_identical_fixed_header")


# ======================================================================================================================
# holder histories (theme: stale state after setter sequences)
# ======================================================================================================================
class Held:
    __slots__ = ("kind", "obj", "cls", "ptype", "code", "plen", "packed")

    def __init__(self, kind, obj):
        self.kind, self.obj, self.cls = kind, obj, U.UNITS[kind].cls()
        self.ptype = R.FILE_DATA if kind == "FileDataPdu" else R.FILE_DIRECTIVE
        self.code = R.DIRECTIVE_CODE.get(kind)
        try:
            self.plen, self.packed = int(obj.packet_len), bytes(obj.pack())
        except Exception:
            self.plen = self.packed = None  # C06 / C07


def hist_pool(cfg_index):
    """one PDU per kind and origin (minimal parameter set) + the octets the factory start states decode"""
    cfg = dict(CFGS[cfg_index], ids="dir")
    pool, raws = {"constructed": {}, "decoded": {}}, {}
    for kind in R.KINDS:
        unit = U.UNITS[kind]
        recipe = _recipe(kind, cfg, "min")
        raws[kind] = unit.ref(recipe)
        try:
            o = unit.build(recipe)
            pool["constructed"][kind] = Held(kind, o) if type(o) is unit.cls() else None
        except Exception:
            pool["constructed"][kind] = None
        try:
            o = U.L.PduFactory.from_raw(raws[kind])
            pool["decoded"][kind] = Held(kind, o) if type(o) is unit.cls() else None
        except Exception:
            pool["decoded"][kind] = None  # reported by the factory clause of the matrix shards
    return pool, raws


def observe_holder(holder, name, ent):
    """None when the observer agrees with the model 'the holder holds ent', else (what, observed, expected)"""
    want = ACC_KIND.get(name)
    try:
        if want is not None:
            got = getattr(holder, name)()
        elif name == "pack":
            got = holder.pack()
        else:
            got = getattr(holder, name)
    except TypeError as e:
        if want is not None:
            return None if want != ent.kind else ("matching-kind-refused", "TypeError", ent.kind)
        return ("other-exception/TypeError", repr(e), "an answer")
    except Exception as e:
        return ("other-exception/" + type(e).__name__, repr(e), "TypeError" if (want is not None and want != ent.kind) else "an answer")
    if want is not None:
        if want != ent.kind:
            return ("other-kind-accepted", type(got).__name__, "TypeError (holding %s)" % ent.kind)
        if got is not ent.obj or type(got) is not ent.cls:
            return ("not-the-held-object", type(got).__name__, ent.kind)
        return None
    if name in ("pdu", "base"):
        return None if got is ent.obj else ("not-the-held-object", type(got).__name__, ent.kind)
    if name == "pdu_type":
        got, exp = int(got), ent.ptype
    elif name == "is_file_directive":
        got, exp = bool(got), ent.ptype == R.FILE_DIRECTIVE
    elif name == "pdu_directive_type":
        got, exp = (None if got is None else int(got)), ent.code
    elif name == "packet_len":
        got, exp = int(got), ent.plen
    else:
        got, exp = bytes(got), ent.packed
    if exp is None and name in ("packet_len", "pack"):
        return None
    return None if got == exp else ("wrong-answer", got, exp)


def make_start(start, pool, raws):
    """(holder, model) of a start state; None when the start state cannot be built on this tree"""
    how, kind, _origin = start
    H = U.L.PduHolder
    if how == "none":
        return H(None), None
    if how == "ctor":
        ent = pool["constructed"][kind]
        return (H(ent.obj), ent) if ent is not None else None
    try:
        holder = U.L.PduFactory.from_raw_to_holder(raws[kind])
    except Exception:
        return None
    if type(holder.pdu) is not U.UNITS[kind].cls():
        return None
    return holder, Held(kind, holder.pdu)


def run_history(rec, start, cfg_index, events, pool, raws, sweep=True):
    """execute one history on a fresh holder; True: executed and consistent, False: violation, None: not executable"""
    st = make_start(start, pool, raws)
    if st is None:
        return None
    holder, cur = st
    via = {"none": "nothing", "ctor": "constructor", "factory": "from_raw_to_holder"}[start[0]]
    origin = start[2]

    def report(name, bad, upto, swept):
        case = {"kind": "hist", "unit": cur.kind if cur is not None else None, "start": start, "cfg": cfg_index,
                "events": [list(e) for e in events[:upto]], "sweep": swept}
        rec.violation(f"C12.history/PduHolder.{name}/{bad[0]}/held-via={via}", case, bad[1], bad[2])

    n = 0
    for i, ev in enumerate(events):
        n += 1
        if ev[0] == "set":
            ent = pool[origin][ev[2]]
            if ent is None:
                return None
            try:
                setattr(holder, ev[1], ent.obj)
            except Exception as e:
                cur = ent
                report(ev[1] + "=", ("assignment-refused", repr(e), "assigned"), i + 1, False)
                return False
            cur, via = ent, ev[1] + "="
        else:
            bad = observe_holder(holder, ev[1], cur)
            if bad is not None:
                report(ev[1], bad, i + 1, False)
                return False
    if sweep:
        for name in OBSERVERS:
            n += 1
            bad = observe_holder(holder, name, cur)
            if bad is not None:
                report(name, bad, len(events), True)
                return False
    rec.ops += n
    return True


def run_hist(rec, item):
    start, depth, ci = item["start"], item["depth"], item["cfg"]
    pool, raws = hist_pool(ci)
    everything = list(range(len(EVENTS)))
    for first in item["firsts"]:
        for rest in itertools.product(everything, repeat=depth - 1):
            idxs = (first,) + rest
            events = [EVENTS[i] for i in idxs]
            res = run_history(rec, start, ci, events, pool, raws)
            if res is None:
                rec.count("histories_not_executable_on_this_tree")
                continue
            rec.case(True)
            rec.count("holder_histories")
            rec.count("holder_history_events", depth)
    cfg = dict(CFGS[ci], ids="dir")
    rec.sample({"kind": "holder history", "start": start, "configuration": cfg,
                "events": ([EVENTS[item["firsts"][0]], ["get", "pdu_directive_type"], ["set", "pdu", "NakPdu"], ["get", "to_nak_pdu"]])[:depth],
                "expected": "after every event the holder answers for the PDU assigned last"}, limit=1)
    rec.outcome(f"hist:{start[0]}:{start[1]}:{start[2]}")


# ======================================================================================================================
# ======================================================================================================================
# sizes: the PDU data field length is a 16-bit field the factory may use for slicing; every carry pattern of its two octets
# ======================================================================================================================
SIZE_CFGS = [{"crc": c, "large": lg, "idw": iw, "seqw": sw, "mode": 0, "segctrl": sc}
             for (c, lg, iw, sw, sc) in ((0, 0, 1, 1, 0), (1, 0, 1, 1, 1), (0, 1, 2, 4, 0), (1, 1, 8, 8, 1), (0, 0, 4, 1, 1), (1, 0, 1, 8, 0))]


def size_values(tier):
    """file data lengths: every length 0..1100 (all values of the low length octet under high octets 0..4), and around
    every multiple of 256 of the data field length up to the largest PDU (window -40..+8, which contains every carry of
    low octet + header length for all header lengths <= 28), for high octets 5..16 and 31, 32, 63, 64, 127, 128, 254, 255 (run_sizes adds the 16 largest data field lengths 65520..65535)"""
    vals = set(range(0, 1101))
    highs = list(range(5, 17)) + [31, 32, 63, 64, 127, 128, 254, 255] + ([] if tier == "quick" else list(range(17, 31)))
    for h in highs:
        vals.update(range(h * 256 - 40, h * 256 + 9))
    return sorted(v for v in vals if v >= 0)


def run_sizes(rec, item):
    cfg = SIZE_CFGS[item["ci"]]
    vals = size_values(item["tier"])
    n = 0
    unit = U.UNITS["FileDataPdu"]
    for i, ln in enumerate(vals):
        if i % item["parts"] != item["part"]:
            continue
        overhead = (8 if cfg["large"] else 4) + (2 if cfg["crc"] else 0)
        if ln + overhead > 65535:
            continue
        recipe = {"cfg": dict(cfg), "params": {"offset": 0x01020304, "data": ["shaped", ln, i % 4], "md": None}}
        factory_case(rec, "FileDataPdu", recipe, holder_too=(i % 16 == 0))
        n += 1
    # the largest PDUs: data field lengths 65520..65535 (the last one is the largest value of the 16-bit field)
    overhead = (8 if cfg["large"] else 4) + (2 if cfg["crc"] else 0)
    for dlen in range(65520, 65536):
        if dlen % item["parts"] != item["part"]:
            continue
        recipe = {"cfg": dict(cfg), "params": {"offset": 0x01020304, "data": ["shaped", dlen - overhead, dlen % 4], "md": None}}
        factory_case(rec, "FileDataPdu", recipe, holder_too=(dlen == 65535))
        n += 1
    # directives whose data field can be long: Metadata (names of 0..255 octets each: data field lengths contiguous over
    # ~510 values) and NAK (0..140 segment requests)
    if item["part"] == 0:
        for k in range(0, 511):
            a, b = min(k, 255), max(0, k - 255)
            recipe = {"cfg": dict(cfg), "params": {"closure": 1, "cs": 0, "size": 0x0102, "src": "s" * a, "dst": "d" * b, "opts": None}}
            factory_case(rec, "MetadataPdu", recipe, holder_too=(k % 32 == 0))
            n += 1
    if item["part"] == 1:
        for k in range(0, 141):
            recipe = {"cfg": dict(cfg), "params": {"start": 1, "end": 0x01020304, "segs": [[i, i + 1] for i in range(k)] or None}}
            factory_case(rec, "NakPdu", recipe, holder_too=(k % 32 == 0))
            n += 1
    rec.count("factory_size_sweep_cases", n)


def run_shard(item):
    rec = Rec(PROPERTY, item)
    mode = item.get("mode", "matrix")
    if mode == "sizes":
        run_sizes(rec, item)
    elif mode == "matrix":
        run_matrix(rec, item)
    elif mode == "indep":
        run_indep(rec, item)
    else:
        run_hist(rec, item)
    return rec.result()


def replay(case):
    rec = Rec(PROPERTY, "replay")
    kind = case["unit"]
    if case["kind"] == "pdu":
        rec.case(True, ops=U.OPS_PER_CASE)
        U.judge(rec, PROPERTY, "factory", U.UNITS[kind], case["recipe"], case.get("via", "factory"), case.get("enc", False))
    elif case["kind"] == "indep":
        indep_case(rec, case["unit"], case["later"], case["ra"], case["rb"], case["rel"])
    elif case["kind"] == "hist":
        pool, raws = hist_pool(case["cfg"])
        rec.case(True)
        run_history(rec, case["start"], case["cfg"], [list(e) for e in case["events"]], pool, raws, sweep=case.get("sweep", True))
    else:
        factory_case(rec, kind, case["recipe"], holder_too=True)
    return rec.result()


def finalize(tier, agg):
    c = agg["counters"]
    return {
        "header_configurations_crossed": len(CFGS),
        "segmentation_control_crossed_for_all_kinds": True,
        "directive_octet_offsets_exercised": sorted({4 + 2 * i + s for i in (1, 2, 4, 8) for s in (1, 2, 4, 8)}),
        "cases_per_kind": {k: c.get(f"{k}_cases", 0) for k in U.PDU_KINDS},
        "cases_per_kind_with_segmentation_control": {k: c.get(f"{k}_cases_with_segmentation_control", 0) for k in U.PDU_KINDS},
        "holder_accessor_calls": c.get("holder_pairs_checked", 0),
        "held_kind_x_requested_kind_pairs": 64,
        "independence_pairs_earlier_kind_x_later_kind_x_configuration": c.get("independence_pairs", 0),
        "independence_pairs_with_identical_fixed_header": c.get("independence_pairs_with_identical_fixed_header", 0),
        "independence_results_held": c.get("independence_results_held", 0),
        "independence_reobservations": c.get("independence_reobservations", 0),
        "holder_history_alphabet": {"assignments": N_SET, "observers": len(OBSERVERS), "start_states": len(STARTS)},
        "holder_history_depth": HIST_DEPTH[tier],
        "holder_histories": c.get("holder_histories", 0),
        "holder_history_events": c.get("holder_history_events", 0),
    }
