"""C04 - a corrupted CRC-protected packet is never accepted as valid (engine F `flip`).  DESIGN.md section 4, C04.

flip clause     every corpus packet (reference octets of the unit registry, CRC-protected kinds only) x every single-bit
                flip and every burst of L <= 16 adjacent bits (first and last bit of the window flipped, interior pattern
                enumerated) at every bit offset at which no FLIPPED bit lies in a length-determining field
                (unit.length_bits).  Every decoder of the unit (class unpack, and PduFactory.from_raw for PDUs) must raise
                a documented error; an object coming back is the violation (the factory answering None is not an object);
                check_pus_crc must answer False.
valid clause    every corpus packet, and every packet obtained by a setter history followed by a packing route, carries
                the reference CRC-16 (ref/crc16.py) of all preceding octets in its last two octets, is accepted by every
                decoder, and check_pus_crc answers True.  `pack(recalc_crc=False)` directly after a change is never used
                (its docstring makes the stale CRC the caller's responsibility).

signatures      C04.flip/<decoder>/accepted-corrupted[/returned=<class>]      a decoder returned an object for a corrupted packet
                C04.flip/<decoder>/undocumented-exception/<Class> | hang      neither an object nor a documented error
                C04.crc/check_pus_crc/true-for-corrupted | false-for-uncorrupted
                C04.trailer/<Kind>.pack/not-crc16-of-all-preceding-octets[/after=<setters>][/start=decoded][/route=<route>]
                C04.valid/<decoder>/uncorrupted-refused[/after=<setters>][/start=decoded][/route=<route>]
                The history features are those of the minimised history and are dropped when the same site already fails
                for some corpus packet without any history (then it is that defect, whatever was set before).

Detection self-test (scratch copies of the repaired tree, all reported): KeepAlivePdu.unpack without
verify_length_and_checksum; verify_length_and_checksum skipping the CRC for 8-octet entity IDs; PusTm CRC over packed[1:] in
pack and unpack (self-consistent - caught by the reference trailer and by the refused reference packet); PusTc with a
"dirty" flag that the source_id setter forgets (stale CRC after pack(); source_id = x; pack()); PusTm.unpack not checking the
CRC when the timestamp length is 0.
"""

from __future__ import annotations

import collections
import itertools

from mc.rec import Hang, Rec, Watchdog, unhex
from ref.crc16 import crc16
from units import cfdp_pdu as U
from units import pus as UP
from units.base import Unit, registry

PROPERTY = "C04"
LEVEL = "fault_enumeration"
EXHAUSTIVE = True
RULE = (
    "case = (corpus packet, bit offset, burst length L, interior pattern): the XOR mask has its first and last window bit "
    "set, so distinct (offset, L, interior) triples are distinct masks and, corpora being de-duplicated by octets, distinct "
    "corrupted buffers; shards partition (packet, offset range, pattern family), so no case is produced twice. Patterns "
    "with a flipped bit inside a length-determining field (space packet octets 4-5; CFDP octets 1-2, the two 3-bit width "
    "fields of octet 3 and the CRC flag, octet 0 mask 0x02) are not cases. Each case is handed to every decoder of the "
    "unit and (PUS) to check_pus_crc. A case counts as non-trivial when the uncorrupted packet is accepted by every "
    "decoder (otherwise refusing the corrupted one shows nothing). Valid clause: case = (corpus packet, starting point "
    "new/packed/decoded/every alternate public constructor (PusTc.from_sp_header, PusTc/PusTm.from_composite_fields), setter history up to depth d over the unit's event menu, packing route), enumerated shortest "
    "history first; histories leaving the domain of the standard (fault location without an error condition code) are not cases."
)
BOUNDS = {
    "quick": "whole quick corpus of the registry (CRC-protected recipes); patterns per offset: single flip, all bursts L<=8 "
             "(127), the all-zero and all-one interior for 9<=L<=16 (16) = 144; check_pus_crc on every corruption of PusTc/PusTm "
             "packets and on the L<=4 corruptions of Service17Tm/Service1Tm packets; setter histories to depth 2",
    "thorough": "the same 144 patterns per offset on the whole thorough corpus (check_pus_crc on every PUS corruption) plus ALL "
                "32768 patterns per offset (every burst L<=16) on a selected corpus: PusTc, PusTm, Service17Tm, Service1Tm one "
                "packet each, every PDU kind with all optional parts (32-bit, 1-octet IDs) and EOF/NAK/KeepAlive/FileData "
                "with 64-bit fields and 2/4-octet IDs (16 packets, 400 octets; check_pus_crc on every corruption of the PusTc and PusTm "
                "packet, L<=4 for the two wrapper packets); setter histories to depth 3",
}
ASSUMPTIONS = [
    "corpus packets are the reference octets of ref/pus.py / ref/cfdp.py (bound to the repository's vectors by selftest/st_ref_*.py); "
    "that the library's own pack() yields the same octets is C02/C03/C06/C07",
    "ref/crc16.py (bitwise-derived table, check value 0x29B1) is the CRC-16/CCITT-FALSE oracle; crcmod is not trusted",
    "decoders get exactly the packet (no trailing octets); trailing octets are C09",
    "length-determining fields are excluded as the property says; the CFDP CRC-flag bit is excluded because with it cleared the "
    "octets are, by definition of the format, a PDU without checksum (DESIGN.md C04)",
]

MAX_BURST = 16
BATCH_BUDGET_S = 900.0  # watchdog for all patterns of one bit offset (typically 0.05 s / 10 s)
SINGLE_BUDGET_S = 10.0
PUS_PLAIN = ("PusTc", "PusTm")


# ============================================================================== corpus
def crc_units():
    """name -> unit for every registry unit that has CRC-protected recipes (registry order)"""
    out = collections.OrderedDict()
    for name, u in registry().items():
        if type(u).crc_protected is Unit.crc_protected:
            continue
        if corpus_of(u, "quick"):
            out[name] = u
    return out


_CORPUS = {}


def corpus_of(unit, tier):
    """CRC-protected recipes of the unit's corpus, de-duplicated by reference octets, in corpus order"""
    key = (unit.name, tier)
    if key not in _CORPUS:
        seen, out = set(), []
        for r in unit.corpus(tier):
            if not unit.crc_protected(r):
                continue
            raw = unit.ref(r)
            k = (raw, repr(sorted((k2, v) for k2, v in r.items() if k2 in ("ts_len", "step_w", "err_w"))))
            if k not in seen:
                seen.add(k)
                out.append(r)
        _CORPUS[key] = out
    return _CORPUS[key]


CFG_A = {"crc": 1, "large": 0, "idw": 1, "seqw": 1, "mode": 0}
CFG_B = {"crc": 1, "large": 1, "idw": 2, "seqw": 4, "mode": 1}
KINDS_B = ("EofPdu", "NakPdu", "KeepAlivePdu", "FileDataPdu")  # the kinds with a 64-bit field right before the trailer / after the directive code
_FULL = []


def full_selection():
    """[(unit name, recipe)] of the packets that get all 32768 patterns per offset in the thorough tier"""
    if _FULL:
        return _FULL
    units = crc_units()

    def first(name, pred):
        for r in corpus_of(units[name], "thorough"):
            if pred(r):
                return r
        raise AssertionError("no corpus packet for the full family: " + name)

    sel = [
        ("PusTc", first("PusTc", lambda r: len(UP.bb(r["data"])) == 4)),
        ("PusTm", first("PusTm", lambda r: r["ts_len"] == 7 and len(UP.bb(r["data"])) == 1)),
        ("Service17Tm", first("Service17Tm", lambda r: r["ts_len"] == 0 and len(UP.bb(r["data"])) >= 1)),
        ("Service1Tm", first("Service1Tm", lambda r: r["sub"] == 6)),
    ]
    for kind in U.PDU_KINDS:
        unit = units[kind]
        cfg = dict(CFG_A)
        sel.append((kind, U.hexed({"cfg": cfg, "params": unit.param_set("full", cfg)})))
    for kind in KINDS_B:
        unit = units[kind]
        cfg = dict(CFG_B)
        sel.append((kind, U.hexed({"cfg": cfg, "params": unit.param_set("plain" if kind == "FileDataPdu" else "min", cfg)})))
    _FULL.extend(sel)
    return _FULL


_FAM = {}


def family(name):
    """[(L, pattern)], pattern = L-bit integer with MSB (first window bit) and LSB (last window bit) set; L ascending"""
    if name not in _FAM:
        out = [(1, 1)]
        for L in range(2, MAX_BURST + 1):
            n = 1 << (L - 2)
            interiors = range(n) if (name == "full" or L <= 8) else (0, n - 1)
            for inner in interiors:
                out.append((L, (1 << (L - 1)) | (inner << 1) | 1))
        _FAM[name] = out
    return _FAM[name]


def excl_mask(unit, raw):
    nb = 8 * len(raw)
    m = 0
    for b in unit.length_bits(raw):
        if 0 <= b < nb:
            m |= 1 << (nb - 1 - b)
    return m


def corrupt(raw, off, L, pat):
    nb = 8 * len(raw)
    shift = nb - off - L
    assert shift >= 0 and pat >> (L - 1) == 1 and pat & 1 == 1
    return (int.from_bytes(raw, "big") ^ (pat << shift)).to_bytes(len(raw), "big")


def flipped_bits(off, L, pat):
    return [off + i for i in range(L) if (pat >> (L - 1 - i)) & 1]


def _check_pus_crc():
    from spacepackets.ecss import check_pus_crc

    return check_pus_crc


def crc_max_len(name, tier, fam):
    """largest burst length for which check_pus_crc is called as well (it rebuilds a crcmod table per call: 0.2 ms)"""
    if name in PUS_PLAIN:
        return MAX_BURST
    if name in ("Service17Tm", "Service1Tm"):
        return MAX_BURST if (tier == "thorough" and fam == "quick") else 4
    return 0


# ============================================================================== shards
def shards(tier):
    units = crc_units()
    items = []
    full_raws = set()
    if tier == "thorough":
        for name, recipe in full_selection():
            full_raws.add((name, units[name].ref(recipe)))
    # simplest first: the valid clause (no fault at all), then the flips packet by packet
    for name, unit in units.items():
        for i in range(len(corpus_of(unit, tier))):
            items.append({"kind": "valid", "unit": name, "i": i, "tier": tier})
    for name, unit in units.items():
        for i, r in enumerate(corpus_of(unit, tier)):
            if (name, unit.ref(r)) in full_raws:
                continue  # enumerated with the full family below (a superset of the 144 patterns)
            items.append({"kind": "flip", "unit": name, "src": "corpus", "i": i, "fam": "quick", "lo": 0, "hi": 1 << 30, "tier": tier})
    for name in SIZE_UNITS:
        for part in range(4):
            items.append({"kind": "sizes", "unit": name, "part": part, "parts": 4, "tier": tier})
    if tier == "thorough":
        heavy = []
        for j, (name, recipe) in enumerate(full_selection()):
            nb = 8 * len(units[name].ref(recipe))
            for lo in range(0, nb, 8):
                heavy.append({"kind": "flip", "unit": name, "src": "full", "i": j, "fam": "full", "lo": lo, "hi": lo + 8, "tier": tier})
        items = heavy + items  # the long shards first keeps the 16 workers evenly loaded to the end
    # one shard of several kinds first, so that the evidence samples (the first six) show both clauses and several units
    show, seen = [], set()
    for want in SHOWCASE:
        for it in items:
            if (it["kind"], it["unit"]) == want and it.get("lo", 0) == 0 and it["i"] == (1 if it["unit"] in U.PDU_KINDS and it.get("src") != "full" else it["i"]) and id(it) not in seen:
                show.append(it)
                seen.add(id(it))
                break
    return show + [it for it in items if id(it) not in seen]


SHOWCASE = [("valid", "PusTc"), ("flip", "PusTc"), ("flip", "EofPdu"), ("valid", "MetadataPdu"), ("flip", "FileDataPdu"), ("flip", "Service1Tm")]


def _ranges(bits):
    """[32, 33, ..., 47] -> [[32, 47]]"""
    out = []
    for b in sorted(bits):
        if out and out[-1][1] == b - 1:
            out[-1][1] = b
        else:
            out.append([b, b])
    return out


def _recipe_of(item):
    unit = crc_units()[item["unit"]]
    if item["src"] == "full":
        name, recipe = full_selection()[item["i"]]
        assert name == item["unit"]
        return unit, recipe
    return unit, corpus_of(unit, item["tier"])[item["i"]]


# ========================================================================== flip clause
def _decoder_src(unit, dn, recipe):
    """python source of the decoder call on `buf` (for repro_py)"""
    name = unit.name
    if unit.is_cfdp_pdu:
        if dn.startswith("PduFactory"):
            return "from spacepackets.cfdp.pdu.helper import PduFactory\nr = PduFactory.from_raw(buf)"
        return f"from spacepackets.cfdp.pdu import {name}\nr = {name}.unpack(buf)"
    if name == "PusTc":
        return "from spacepackets.ecss.tc import PusTc\nr = PusTc.unpack(buf)"
    if name == "PusTm":
        return f"from spacepackets.ecss.tm import PusTm\nr = PusTm.unpack(buf, {recipe['ts_len']})"
    if name == "Service17Tm":
        return f"from spacepackets.ecss.pus_17_test import Service17Tm\nr = Service17Tm.unpack(buf, {recipe['ts_len']})"
    if name == "Service1Tm":
        p = f"UnpackParams({recipe['ts_len']}, {recipe['step_w']}, {recipe['err_w']})"
        if "from_tm" in dn:
            return ("from spacepackets.ecss.tm import PusTm\nfrom spacepackets.ecss.pus_1_verification import Service1Tm, UnpackParams\n"
                    f"r = Service1Tm.from_tm(PusTm.unpack(buf, {recipe['ts_len']}), {p})")
        return f"from spacepackets.ecss.pus_1_verification import Service1Tm, UnpackParams\nr = Service1Tm.unpack(buf, {p})"
    return f"r = {dn}(buf)"


def _region(unit, raw, bits):
    """coarse description of where the flipped bits lie (for the observation, not for the signature)"""
    n = len(raw)
    hdr = (4 + 2 * (((raw[3] >> 4) & 7) + 1) + (raw[3] & 7) + 1) if unit.is_cfdp_pdu else 6
    out = []
    for o in sorted({b // 8 for b in bits}):
        lab = "header" if o < hdr else ("crc" if o >= n - 2 else "data-field")
        if lab not in out:
            out.append(lab)
    return "+".join(out)


class _NoGuard:
    def __enter__(self):
        return self

    def __exit__(self, *exc):
        return False


def flip_one(rec, unit, recipe, off, L, pat, crc=True, guard=True):
    """one corruption through every decoder of the unit (+ check_pus_crc); reports violations.  Used by replay and by
    the shard loop for every corruption its fast path found suspicious, so both judge with the same code."""
    raw = unit.ref(recipe)
    c = corrupt(raw, off, L, pat)
    bits = flipped_bits(off, L, pat)
    assert not (set(bits) & set(unit.length_bits(raw))), "case flips a length-determining bit"
    case = {"kind": "flip", "unit": unit.name, "recipe": recipe, "off": off, "L": L, "pat": pat}
    documented = tuple(unit.documented)
    what = {"valid_packet": raw, "corrupted": c, "flipped_bits": bits, "region": _region(unit, raw, bits)}
    for dn, dec in unit.decoders():
        imports = "".join(f"from {x.__module__} import {x.__name__}\n" for x in documented if x.__module__ != "builtins")
        call = _decoder_src(unit, dn, recipe).split("\n")
        repro = (f"buf = bytes.fromhex('{c.hex()}')  # valid packet {raw.hex()} with bit(s) {bits} flipped (bit 0 = MSB of octet 0)\n"
                 + imports + "\n".join(call[:-1]) + "\ntry:\n    " + call[-1] + "\nexcept (" + ", ".join(x.__name__ for x in documented)
                 + ",):\n    pass  # a documented error: what the property demands\nelse:\n    assert r is None, 'corrupted packet accepted: %r' % (r,)")
        try:
            # guard=False inside the shard loop, whose per-offset watchdog is already running (watchdogs do not nest)
            with (Watchdog(SINGLE_BUDGET_S) if guard else _NoGuard()):
                r = dec(c, recipe)
        except documented:
            continue
        except Hang:
            rec.violation(f"C04.flip/{dn}/hang", case, dict(what, outcome="no answer within %.0f s" % SINGLE_BUDGET_S), "a documented error", repro=repro)
            continue
        except Exception as e:
            rec.violation(f"C04.flip/{dn}/undocumented-exception/{type(e).__name__}", case, dict(what, raised=repr(e)),
                          "one of " + ", ".join(x.__name__ for x in documented), repro=repro)
            continue
        if r is None:
            continue  # the factory's "no such directive" answer is not a packet object
        sig = f"C04.flip/{dn}/accepted-corrupted"
        if dn.startswith("PduFactory"):
            sig += "/returned=" + type(r).__name__
        rec.violation(sig, case, dict(what, returned=type(r).__name__),
                      "raises " + " | ".join(x.__name__ for x in documented), repro=repro)
    if crc and not unit.is_cfdp_pdu:
        repro = (f"from spacepackets.ecss import check_pus_crc\nbuf = bytes.fromhex('{c.hex()}')  # valid packet {raw.hex()} with bit(s) {bits} flipped\n"
                 "assert check_pus_crc(buf) is False")
        try:
            v = _check_pus_crc()(c)
        except Exception as e:
            rec.violation("C04.crc/check_pus_crc/exception/" + type(e).__name__, case, dict(what, raised=repr(e)), False, repro=repro)
        else:
            if v:
                rec.violation("C04.crc/check_pus_crc/true-for-corrupted", case, dict(what, answer=v), False, repro=repro)


def baseline_accepted(unit, recipe, raw):
    for _, dec in unit.decoders():
        try:
            if dec(raw, recipe) is None:
                return False
        except Exception:
            return False
    return True


def run_flip(rec, item):
    unit, recipe = _recipe_of(item)
    name = unit.name
    raw = unit.ref(recipe)
    assert len(raw) >= 2 and crc16(raw[:-2]) == int.from_bytes(raw[-2:], "big"), "reference packet without a reference CRC"
    n, nb = len(raw), 8 * len(raw)
    x = int.from_bytes(raw, "big")
    E = excl_mask(unit, raw)
    decs = unit.decoders()
    decfns = [d for _, d in decs]
    documented = tuple(unit.documented)
    fam = family(item["fam"])
    check = None if unit.is_cfdp_pdu else _check_pus_crc()
    crc_maxL = crc_max_len(name, item["tier"], item["fam"])
    base_ok = baseline_accepted(unit, recipe, raw)
    exc = [dict() for _ in decs]
    nnone = [0] * len(decs)
    lo, hi = item["lo"], min(item["hi"], nb)
    tot_corr = tot_skip = tot_crc = 0
    off_cov = off_excl = 0

    def batch(off):
        ncorr = nskip = ncrc = 0
        for L, pat in fam:
            shift = nb - off - L
            if shift < 0:
                break  # L ascending: longer windows do not fit either
            mask = pat << shift
            if mask & E:
                nskip += 1
                continue
            c = (x ^ mask).to_bytes(n, "big")
            ncorr += 1
            sus = False
            for k, dec in enumerate(decfns):
                try:
                    r = dec(c, recipe)
                except documented as e:
                    d = exc[k]
                    t = type(e)
                    d[t] = d.get(t, 0) + 1
                except Hang:
                    raise
                except Exception:
                    sus = True
                else:
                    if r is None:
                        nnone[k] += 1
                    else:
                        sus = True
            if check is not None and L <= crc_maxL:
                ncrc += 1
                try:
                    if check(c):
                        sus = True
                except Hang:
                    raise
                except Exception:
                    sus = True
            if sus:
                flip_one(rec, unit, recipe, off, L, pat, crc=L <= crc_maxL, guard=False)
        return ncorr, nskip, ncrc

    for off in range(lo, hi):
        try:
            with Watchdog(BATCH_BUDGET_S):
                ncorr, nskip, ncrc = batch(off)
        except Hang:
            # locate the single case: every pattern of this offset again, each under its own watchdog
            ncorr = nskip = ncrc = 0
            for L, pat in fam:
                if nb - off - L < 0:
                    break
                if (pat << (nb - off - L)) & E:
                    nskip += 1
                    continue
                ncorr += 1
                flip_one(rec, unit, recipe, off, L, pat, crc=False)
        tot_corr += ncorr
        tot_skip += nskip
        tot_crc += ncrc
        if ncorr:
            off_cov += 1
        else:
            off_excl += 1
    ncalls = tot_corr * len(decs)
    rec.evaluations += tot_corr
    rec.ops += ncalls + tot_crc
    if base_ok:
        rec.nontrivial += tot_corr
    else:
        rec.count("corruptions_of_packets_whose_valid_form_is_refused/" + name, tot_corr)
    rec.count("corruptions/" + name, tot_corr)
    rec.count("decoder_calls/" + name, ncalls)
    rec.count("corruptions/family=" + item["fam"], tot_corr)
    rec.count("check_pus_crc_calls_on_corrupted", tot_crc)
    rec.count("patterns_not_cases_flip_in_length_field", tot_skip)
    rec.count("bit_offsets_covered", off_cov)
    rec.count("bit_offsets_all_patterns_excluded", off_excl)
    if lo == 0:
        rec.count("packets/" + name)
        rec.count("packet_bits/" + name, nb)
    for (dn, _), d, nn in zip(decs, exc, nnone):
        for t, k in sorted(d.items(), key=lambda kv: kv[0].__name__):
            rec.count(f"raised/{dn}/{t.__name__}", k)
            rec.outcome(f"{name}/{dn}: raised {t.__name__}")
        if nn:
            rec.count(f"answered_None/{dn}", nn)
            rec.outcome(f"{name}/{dn}: answered None")
    if tot_crc:
        rec.outcome(f"{name}/check_pus_crc: False")
    if lo == 0:
        L, pat = family(item["fam"])[-1]
        off = next((o for o in range(nb - L + 1) if not ((pat << (nb - o - L)) & E)), 0)
        rec.sample({"unit": name, "recipe": recipe, "valid_packet": raw, "length_determining_bit_ranges": _ranges(unit.length_bits(raw)),
                    "example_corruption": {"bit_offset": off, "burst_length": L, "pattern": bin(pat), "octets": corrupt(raw, off, L, pat)},
                    "patterns_per_offset": len(fam), "decoders": [dn for dn, _ in decs],
                    "expected": "every decoder raises one of " + ", ".join(t.__name__ for t in documented)}, limit=1)


# ========================================================================= valid clause
class Failure:
    __slots__ = ("clause", "subject", "kind", "observed", "expected")

    def __init__(self, clause, subject, kind, observed=None, expected=None):
        self.clause, self.subject, self.kind, self.observed, self.expected = clause, subject, kind, observed, expected

    def key(self):
        return (self.clause, self.subject, self.kind.split("/")[0])


STARTS = ["new", "packed", "decoded"]


def starts_of(unit):
    """constructor, constructor + pack(), decoder, and every alternate public constructor of the unit ("alt:<name>")"""
    return STARTS + ["alt:" + n for n, _ in unit.alt_builders()]


def routes_of(name):
    if name in PUS_PLAIN:
        return ["pack", "pack+norecalc", "calc_crc+norecalc", "to_space_packet"]
    return ["pack", "pack+pack"]


def _hx(b):
    return "hex:" + bytes(b).hex()


def menu(unit, recipe):
    """event menu of the unit: ["set", dotted.path, value spec] | ["call", method]; plain data"""
    name = unit.name
    p5 = _hx(UP.payload(5, 3))
    if name == "PusTc":
        return [["set", "apid", 0x7FF], ["set", "apid", 0x2AA], ["set", "seq_count", 0x3FFF], ["set", "seq_count", 0x1555],
                ["set", "source_id", 0xFFFF], ["set", "source_id", 0x5AA5], ["set", "app_data", "hex:"], ["set", "app_data", "hex:01"],
                ["set", "app_data", p5], ["set", "pus_tc_sec_header.service", 0x55], ["set", "pus_tc_sec_header.ack_flags", 0b0101],
                ["call", "pack"], ["call", "calc_crc"]]
    if name == "PusTm":
        return [["set", "apid", 0x7FF], ["set", "apid", 0x2AA], ["set", "tm_data", "hex:"], ["set", "tm_data", "hex:01"], ["set", "tm_data", p5],
                ["set", "seq_flags", {"enum": "SequenceFlags", "v": 0}], ["set", "pus_tm_sec_header.message_counter", 0xFFFF],
                ["set", "pus_tm_sec_header.dest_id", 0x5AA5], ["set", "pus_tm_sec_header.service", 0x55],
                ["set", "space_packet_header.seq_count", 0x3FFF], ["call", "pack"], ["call", "calc_crc"]]
    if name == "Service17Tm":
        return [["set", "pus_tm.apid", 0x7FF], ["set", "pus_tm.tm_data", "hex:01"], ["set", "pus_tm.tm_data", p5],
                ["set", "pus_tm.pus_tm_sec_header.dest_id", 0x5AA5], ["call", "pack"]]
    if name == "Service1Tm":
        return [["set", "pus_tm.apid", 0x7FF], ["set", "pus_tm.space_packet_header.seq_count", 0x3FFF],
                ["set", "pus_tm.pus_tm_sec_header.dest_id", 0x5AA5], ["call", "pack"]]
    r = U.norm(recipe)
    cfg, p = r["cfg"], r["params"]
    ent = {"entity": _hx(bytes(range(0x41, 0x41 + cfg["idw"])))}
    # crc_flag: re-assigning the value the PDU was built with (the PDU stays "built with the CRC flag"; the NO_CRC <-> WITH_CRC
    # transitions leave the subject of this property)
    common = [["set", "pdu_header.transmission_mode", {"enum": "TransmissionMode", "v": 1 - cfg["mode"]}],
              ["set", "crc_flag", {"enum": "CrcFlag", "v": 1}], ["call", "pack"]]
    if name not in ("NakPdu", "KeepAlivePdu", "FileDataPdu"):  # those two have the event in their own menus; File Data offers no setter
        # the large-file flag changed after construction (every directive offers the setter; where a file-size field follows the
        # flag the packed PDU grows or shrinks)
        common.insert(1, ["set", "file_flag", {"enum": "LargeFileFlag", "v": 1 - cfg["large"]}])
    cc = lambda v: {"enum": "ConditionCode", "v": v}  # noqa: E731
    if name == "EofPdu":
        ev = [["set", "condition_code", cc(4)], ["set", "condition_code", cc(0)], ["set", "file_checksum", "hex:01020304"],
              ["set", "file_size", 0x0A0B0C], ["set", "fault_location", None], ["set", "fault_location", ent]]
    elif name == "FinishedPdu":
        ev = [["set", "condition_code", cc(0)], ["set", "condition_code", cc(6)], ["set", "file_store_responses", None],
              ["set", "file_store_responses", {"resps": [U.hexed(U.RESP_ONE_NAME)]}],
              ["set", "file_store_responses", {"resps": [U.hexed(U.RESP_TWO_NAMES_MSG), U.hexed(U.RESP_ONE_NAME)]}],
              ["set", "file_store_responses", {"resps": [U.hexed(U.RESP_REPLACE)]}],  # the third two-name action
              ["set", "fault_location", None], ["set", "fault_location", ent], ["set", "finished_params.file_status", {"enum": "FileStatus", "v": 3}]]
    elif name == "AckPdu":
        ev = [["set", "condition_code_of_acked_pdu", cc(4)], ["set", "transaction_status", {"enum": "TransactionStatus", "v": 3}]]
    elif name == "MetadataPdu":
        ev = [["set", "options", None], ["set", "options", {"opts": [U.hexed(U.OPT_FLOW)]}], ["set", "options", {"opts": U.hexed(U.OPTS_MIXED)}], ["set", "options", {"opts": U.hexed(U.OPTS_REPLACE_REQ)}],
              ["set", "source_file_name", None], ["set", "source_file_name", "ä.bin"], ["set", "dest_file_name", None],
              ["set", "dest_file_name", "d/e.f"], ["set", "params.file_size", 0x0A0B]]
    elif name == "NakPdu":
        ev = [["set", "segment_requests", None], ["set", "segment_requests", {"segs": [[1, 2]]}],
              ["set", "segment_requests", {"segs": [[0, 0], [3, 0x0A0B0C0D]]}], ["set", "file_flag", {"enum": "LargeFileFlag", "v": 1}],
              ["set", "start_of_scope", 5], ["set", "end_of_scope", 0x1000]]
    elif name == "PromptPdu":
        ev = [["set", "response_required", {"enum": "ResponseRequired", "v": 1 - p["rr"]}]]
    elif name == "KeepAlivePdu":
        ev = [["set", "file_flag", {"enum": "LargeFileFlag", "v": 1}], ["set", "progress", 0x0102]]
    elif name == "FileDataPdu":
        ev = [["set", "file_data", "hex:"], ["set", "file_data", "hex:aa"], ["set", "file_data", _hx(bytes(range(0x60, 0x70)))],
              ["set", "segment_metadata", None], ["set", "segment_metadata", {"segmeta": [1, "hex:7766"]}]]
    else:
        raise AssertionError(name)
    return ev + common


def in_domain(unit, recipe, history):
    """a fault location only together with an error condition code (CCSDS 727.0-B-5 5.2.2 / 5.2.3; DESIGN.md 5.2)"""
    name = unit.name
    if name not in ("EofPdu", "FinishedPdu"):
        return True
    p = U.norm(recipe)["params"]
    cc, fault = p["cc"], p.get("fault")
    for ev in history:
        if ev[0] == "set" and ev[1] == "condition_code":
            cc = ev[2]["v"]
        elif ev[0] == "set" and ev[1] == "fault_location":
            fault = ev[2]
    return fault is None or cc not in (0, 11)


def value(spec):
    if isinstance(spec, str):
        return unhex(spec)
    if isinstance(spec, dict):
        if "enum" in spec:
            if spec["enum"] == "SequenceFlags":
                from spacepackets.ccsds.spacepacket import SequenceFlags

                return SequenceFlags(spec["v"])
            return getattr(U.L, spec["enum"])(spec["v"])
        if "entity" in spec:
            return U.L.EntityIdTlv(unhex(spec["entity"]))
        if "resps" in spec:
            return [U.build_response(unhex(r)) for r in spec["resps"]]
        if "opts" in spec:
            return [U.build_option(unhex(o)) for o in spec["opts"]]
        if "segs" in spec:
            return [tuple(s) for s in spec["segs"]]
        if "segmeta" in spec:
            return U.L.SegmentMetadata(U.L.RecordContinuationState(spec["segmeta"][0]), unhex(spec["segmeta"][1]))
        raise AssertionError(spec)
    return spec


def value_src(spec):
    if isinstance(spec, str):
        return repr(unhex(spec))
    if isinstance(spec, dict):
        if "enum" in spec:
            return f"{spec['enum']}({spec['v']})"
        if "entity" in spec:
            return f"EntityIdTlv({unhex(spec['entity'])!r})"
        if "resps" in spec:
            return "[" + ", ".join(
                f"FileStoreResponseTlv(FilestoreActionCode({r['action']}), FilestoreResponseStatusCode({r['action'] << 4 | r['status']}), "
                f"{r['first']!r}, {(r.get('second') or '')!r}, CfdpLv({bytes(r.get('msg') or b'')!r}))" for r in unhex(spec["resps"])) + "]"
        if "opts" in spec:
            def opt(o):
                t = o["t"]
                if t == "flow":
                    return f"FlowLabelTlv({bytes(o['v'])!r})"
                if t == "msg":
                    return f"MessageToUserTlv({bytes(o['v'])!r})"
                if t == "fsreq":
                    return f"FileStoreRequestTlv(FilestoreActionCode({o['action']}), {o['first']!r}, {(o.get('second') or '')!r})"
                if t == "fault":
                    return f"FaultHandlerOverrideTlv(ConditionCode({o['cc']}), FaultHandlerCode({o['handler']}))"
                return f"CfdpTlv(TlvType({o['type']}), {bytes(o['v'])!r})"

            return "[" + ", ".join(opt(o) for o in unhex(spec["opts"])) + "]"
        if "segs" in spec:
            return repr([tuple(s) for s in spec["segs"]])
        if "segmeta" in spec:
            return f"SegmentMetadata(RecordContinuationState({spec['segmeta'][0]}), {unhex(spec['segmeta'][1])!r})"
    return repr(spec)


def apply_event(obj, ev):
    if ev[0] == "call":
        getattr(obj, ev[1])()
        return
    path = ev[1].split(".")
    tgt = obj
    for a in path[:-1]:
        tgt = getattr(tgt, a)
    setattr(tgt, path[-1], value(ev[2]))


def route_pack(obj, route):
    if route == "pack":
        return bytes(obj.pack())
    if route == "pack+pack":
        obj.pack()
        return bytes(obj.pack())
    if route == "pack+norecalc":
        obj.pack()
        return bytes(obj.pack(recalc_crc=False))
    if route == "calc_crc+norecalc":
        obj.calc_crc()
        return bytes(obj.pack(recalc_crc=False))
    if route == "to_space_packet":
        return bytes(obj.to_space_packet().pack())
    raise AssertionError(route)


def judge_packet(unit, recipe, raw, pack_subject):
    """the three demands on an uncorrupted packet; first disagreement or None"""
    if pack_subject is not None:
        want = crc16(raw[:-2]).to_bytes(2, "big") if len(raw) >= 2 else None
        if want is None or raw[-2:] != want:
            return Failure("trailer", pack_subject, "not-crc16-of-all-preceding-octets", {"packed": raw, "trailer": raw[-2:]}, {"trailer": want})
    for dn, dec in unit.decoders():
        try:
            r = dec(raw, recipe)
        except Exception as e:
            return Failure("valid", dn, "uncorrupted-refused/" + type(e).__name__, {"packet": raw, "raised": repr(e)}, "a packet object")
        if r is None:
            return Failure("valid", dn, "uncorrupted-refused/None", {"packet": raw, "returned": None}, "a packet object")
    if not unit.is_cfdp_pdu:
        try:
            v = _check_pus_crc()(raw)
        except Exception as e:
            return Failure("crc", "check_pus_crc", "exception/" + type(e).__name__, {"packet": raw, "raised": repr(e)}, True)
        if v is not True:
            return Failure("crc", "check_pus_crc", "false-for-uncorrupted", {"packet": raw, "answer": v}, True)
    return None


class Skip(Exception):
    pass


def eval_valid(unit, recipe, start, history, route):
    """-> None | Failure; raises Skip(reason) when the history cannot be executed (not judged by this property)"""
    if start == "ref":
        return judge_packet(unit, recipe, unit.ref(recipe), None)
    try:
        if start == "decoded":
            obj = unit.decoders()[0][1](unit.ref(recipe), recipe)
            if obj is None:
                raise ValueError("None")
        elif start.startswith("alt:"):
            obj = dict(unit.alt_builders())[start[4:]](recipe)
        else:
            obj = unit.build(recipe)
            if start == "packed":
                obj.pack()
    except Exception as e:
        raise Skip(f"start={start} unavailable: {type(e).__name__}")
    try:
        for ev in history:
            apply_event(obj, ev)
        raw = route_pack(obj, route)
    except Exception as e:
        raise Skip(f"history not executable / not packable: {type(e).__name__}")
    return judge_packet(unit, recipe, raw, unit.name + ".pack")


def _try(unit, recipe, start, history, route, key):
    if not in_domain(unit, recipe, history):
        return None
    try:
        f = eval_valid(unit, recipe, start, history, route)
    except Skip:
        return None
    return f if (f is not None and f.key() == key) else None


def minimise(unit, recipe, start, history, route, fail):
    """drop events, fall back to the simplest starting point and route, as long as the same site keeps failing (fixpoint)"""
    key = fail.key()
    history = list(history)
    if start == "ref":
        return start, history, route, fail
    changed = True
    while changed:
        changed = False
        for i in range(len(history)):
            h2 = history[:i] + history[i + 1:]
            f2 = _try(unit, recipe, start, h2, route, key)
            if f2 is not None:
                history, fail, changed = h2, f2, True
                break
        if changed:
            continue
        for s in starts_of(unit)[:starts_of(unit).index(start)]:
            f2 = _try(unit, recipe, s, history, route, key)
            if f2 is not None:
                start, fail, changed = s, f2, True
                break
        if changed:
            continue
        if route != "pack":
            f2 = _try(unit, recipe, start, history, "pack", key)
            if f2 is not None:
                route, fail, changed = "pack", f2, True
    return start, history, route, fail


_BASE_SITES = {}


def baseline_sites(unit, tier):
    """(clause, subject, starting point) triples that already fail for some corpus packet without any setter history:
    failures at such a site after a history are the same defect site and are reported under the plain signature"""
    k = (unit.name, tier)
    if k not in _BASE_SITES:
        out = set()
        for r in corpus_of(unit, tier):
            for start in ["ref"] + STARTS:
                try:
                    f = eval_valid(unit, r, start, [], "pack")
                except Skip:
                    continue
                if f is not None:
                    out.add((f.clause, f.subject, "new" if start == "ref" else start))
        _BASE_SITES[k] = out
    return _BASE_SITES[k]


def event_name(ev):
    return ev[1].split(".")[-1] + ("()" if ev[0] == "call" else "")


CRC_SRC = (
    "def crc16(d):  # CRC-16/CCITT-FALSE, bitwise: poly 0x1021, init 0xFFFF, no reflection, no final xor\n"
    "    c = 0xFFFF\n"
    "    for b in d:\n"
    "        c ^= b << 8\n"
    "        for _ in range(8):\n"
    "            c = ((c << 1) ^ 0x1021) & 0xFFFF if c & 0x8000 else (c << 1) & 0xFFFF\n"
    "    return c"
)


def pus_ctor_src(name, r, alt=None):
    """python source constructing the PUS packet of a recipe as `obj` (alt: through the named alternate constructor)"""
    hx = lambda k: f"bytes.fromhex('{UP.bb(r[k]).hex()}')"  # noqa: E731
    if alt is not None:
        imp = "from spacepackets.ccsds.spacepacket import PacketType, SequenceFlags, SpacePacketHeader\n"
        if (name, alt) == ("PusTc", "from_sp_header"):
            return (imp + "from spacepackets.ecss.tc import PusTc\n"
                    f"obj = PusTc.from_sp_header(SpacePacketHeader(PacketType.TC, {r['apid']:#x}, {r['seq']:#x}, 0x0123), {r['svc']}, {r['sub']}, {hx('data')}, "
                    f"{r['src']:#x}, {r['ack']:#x})")
        if (name, alt) == ("PusTc", "from_composite_fields"):
            n = len(UP.bb(r["data"]))
            return (imp + "from spacepackets.ecss.tc import PusTc, PusTcDataFieldHeader\n"
                    f"obj = PusTc.from_composite_fields(SpacePacketHeader(PacketType.TC, {r['apid']:#x}, {r['seq']:#x}, {5 + n + 1}, True), "
                    f"PusTcDataFieldHeader({r['svc']}, {r['sub']}, {r['src']:#x}, {r['ack']:#x}), {hx('data')})")
        if (name, alt) == ("PusTm", "from_composite_fields"):
            n = len(UP.bb(r["ts"])) + len(UP.bb(r["data"]))
            return (imp + "from spacepackets.ecss.tm import PusTm, PusTmSecondaryHeader\n"
                    f"obj = PusTm.from_composite_fields(SpacePacketHeader(PacketType.TM, {r['apid']:#x}, {r['seq']:#x}, {7 + n + 1}, True, "
                    f"SequenceFlags.UNSEGMENTED, {r['ver']}), PusTmSecondaryHeader(service={r['svc']}, subservice={r['sub']}, timestamp={hx('ts')}, "
                    f"message_counter={r['mc']:#x}, dest_id={r['dest']:#x}, spacecraft_time_ref={r['tref']}), {hx('data')})")
        raise AssertionError((name, alt))
    if name == "PusTc":
        return ("from spacepackets.ecss.tc import PusTc\n"
                f"obj = PusTc(service={r['svc']}, subservice={r['sub']}, apid={r['apid']:#x}, app_data={hx('data')}, seq_count={r['seq']:#x}, "
                f"source_id={r['src']:#x}, ack_flags={r['ack']:#x})")
    if name == "PusTm":
        return ("from spacepackets.ecss.tm import PusTm\n"
                f"obj = PusTm(service={r['svc']}, subservice={r['sub']}, timestamp={hx('ts')}, source_data={hx('data')}, apid={r['apid']:#x}, "
                f"seq_count={r['seq']:#x}, message_counter={r['mc']:#x}, space_time_ref={r['tref']}, destination_id={r['dest']:#x}, packet_version={r['ver']})")
    if name == "Service17Tm":
        return ("from spacepackets.ecss.pus_17_test import Service17Tm\n"
                f"obj = Service17Tm(apid={r['apid']:#x}, subservice={r['sub']}, timestamp={hx('ts')}, ssc={r['seq']:#x}, source_data={hx('data')}, "
                f"packet_version={r['ver']}, space_time_ref={r['tref']}, destination_id={r['dest']:#x})")
    if name == "Service1Tm":
        ver, typ, shf, apid, fl, cnt = r["rid"]
        step = f"PacketFieldEnum.with_byte_size({r['step'][1]}, {r['step'][0]:#x})" if r["step"] else "None"
        fail = (f"FailureNotice(PacketFieldEnum.with_byte_size({r['fail'][0][1]}, {r['fail'][0][0]:#x}), bytes.fromhex('{UP.bb(r['fail'][1]).hex()}'))"
                if r["fail"] else "None")
        return ("from spacepackets.ccsds.spacepacket import PacketId, PacketSeqCtrl, PacketType, SequenceFlags\n"
                "from spacepackets.ecss import PacketFieldEnum, RequestId\n"
                "from spacepackets.ecss.pus_1_verification import FailureNotice, Service1Tm, Subservice, VerificationParams\n"
                f"rid = RequestId(PacketId(PacketType({typ}), {bool(shf)}, {apid:#x}), PacketSeqCtrl(SequenceFlags({fl}), {cnt:#x}), {ver})\n"
                f"obj = Service1Tm(apid={r['apid']:#x}, subservice=Subservice({r['sub']}), timestamp={hx('ts')}, "
                f"verif_params=VerificationParams(rid, {step}, {fail}), seq_count={r['seq']:#x}, packet_version={r['ver']}, "
                f"space_time_ref={r['tref']}, destination_id={r['dest']:#x})")
    raise AssertionError(name)


def valid_repro(unit, recipe, start, history, route, fail):
    """self-contained python (only `import spacepackets`) that fails on a tree with the defect and passes on a correct one"""
    name = unit.name
    ref = unit.ref(recipe)
    lines = [f"# observed by the check: {fail.clause}/{fail.subject}/{fail.kind}"]
    if start == "ref":
        lines.append(f"raw = bytes.fromhex('{ref.hex()}')  # valid packet (reference encoder), trailer = CRC-16/CCITT-FALSE of all preceding octets")
    else:
        if start == "decoded":
            lines.append(f"buf = bytes.fromhex('{ref.hex()}')  # valid packet (reference encoder)")
            lines.append(_decoder_src(unit, unit.decoders()[0][0], recipe).replace("r = ", "obj = "))
        elif start.startswith("alt:"):
            lines.append(pus_ctor_src(name, recipe, alt=start[4:]))
        elif unit.is_cfdp_pdu:
            r = U.norm(recipe)
            lines.append(U.ctor_source(name, r["cfg"], r["params"]).replace("pdu = ", "obj = "))
        else:
            lines.append(pus_ctor_src(name, recipe))
        if start == "packed":
            lines.append("obj.pack()")
        if any(isinstance(ev[2], dict) and ev[2].get("enum") == "SequenceFlags" for ev in history if ev[0] == "set"):
            lines.append("from spacepackets.ccsds.spacepacket import SequenceFlags")
        if unit.is_cfdp_pdu and start == "decoded":
            lines.append("from spacepackets.cfdp import *; from spacepackets.cfdp.defs import *; from spacepackets.cfdp.tlv import *")
            lines.append("from spacepackets.cfdp.pdu import *; from spacepackets.cfdp.pdu.file_data import *; from spacepackets.cfdp.pdu.prompt import ResponseRequired")
        for ev in history:
            lines.append(f"obj.{ev[1]}()" if ev[0] == "call" else f"obj.{ev[1]} = {value_src(ev[2])}")
        lines.append({"pack": "raw = bytes(obj.pack())", "pack+pack": "obj.pack(); raw = bytes(obj.pack())",
                      "pack+norecalc": "obj.pack(); raw = bytes(obj.pack(recalc_crc=False))",
                      "calc_crc+norecalc": "obj.calc_crc(); raw = bytes(obj.pack(recalc_crc=False))",
                      "to_space_packet": "raw = bytes(obj.to_space_packet().pack())"}[route])
        lines.append(CRC_SRC)
        lines.append("assert raw[-2:] == crc16(raw[:-2]).to_bytes(2, 'big'), 'trailer is not the CRC-16 of all preceding octets'")
    lines.append("buf = raw")
    for dn, _ in unit.decoders():
        lines.append(_decoder_src(unit, dn, recipe) + f"  # must accept the uncorrupted packet\nassert r is not None")
    if not unit.is_cfdp_pdu:
        lines.append("from spacepackets.ecss import check_pus_crc\nassert check_pus_crc(raw) is True")
    return "\n".join(lines)


_SEEN_SITES = {}


def valid_case(rec, unit, recipe, start, history, route, tier, count=True):
    """evaluate one (packet, start, history, route); report a disagreement under the signature of its minimised form"""
    try:
        fail = eval_valid(unit, recipe, start, history, route)
    except Skip as s:
        if count:
            rec.count("valid_cases_not_executable/" + unit.name)
            rec.outcome(f"{unit.name}: not judged ({s})")
        return
    if count:
        rec.case(True, ops=len(history) + 2 + len(unit.decoders()))
        rec.count("valid_cases/" + unit.name)
    if fail is None:
        return
    # one minimisation per (packet, site, event names, start, route) is enough: the signature is what is kept
    ck = (unit.name, repr(recipe), fail.key(), tuple(sorted({event_name(e) for e in history})), start, route)
    hit = _SEEN_SITES.get(ck)
    if hit is None:
        if start == "packed":  # the same thing as a fresh object whose history begins with pack()
            start, history = "new", [["call", "pack"]] + list(history)
        mstart, mhist, mroute, mfail = minimise(unit, recipe, start, history, route, fail)
        sig = f"C04.{mfail.clause}/{mfail.subject}/{mfail.key()[2]}"
        base = baseline_sites(unit, tier)
        if (mfail.clause, mfail.subject, "new") in base:
            pass
        elif (mfail.clause, mfail.subject, mstart) in base:
            sig += "/start=" + mstart
        else:
            names = sorted({event_name(e) for e in mhist})
            if names:
                sig += "/after=" + "+".join(names)
            if mstart not in ("new", "ref"):
                sig += "/start=" + mstart
            if mroute != "pack":
                sig += "/route=" + mroute
        case = {"kind": "valid", "unit": unit.name, "recipe": recipe, "start": mstart, "history": mhist, "route": mroute, "tier": tier}
        hit = _SEEN_SITES[ck] = (sig, case, mfail, valid_repro(unit, recipe, mstart, mhist, mroute, mfail))
    sig, case, mfail, repro = hit
    rec.violation(sig, case, mfail.observed, mfail.expected, repro=repro)


def histories(events, depth):
    for d in range(depth + 1):
        for h in itertools.product(events, repeat=d):
            yield list(h)


def run_valid(rec, item):
    unit = crc_units()[item["unit"]]
    recipe = corpus_of(unit, item["tier"])[item["i"]]
    depth = 2 if item["tier"] == "quick" else 3
    ref = unit.ref(recipe)
    assert crc16(ref[:-2]) == int.from_bytes(ref[-2:], "big")
    valid_case(rec, unit, recipe, "ref", [], "pack", item["tier"])
    rec.count("uncorrupted_reference_packets/" + unit.name)
    events = menu(unit, recipe)
    for start in starts_of(unit):
        for h in histories(events, depth):
            if not in_domain(unit, recipe, h):
                rec.count("histories_outside_the_domain/" + unit.name)
                continue
            for route in routes_of(unit.name):
                valid_case(rec, unit, recipe, start, h, route, item["tier"])
    rec.outcome(f"{unit.name}: uncorrupted packets judged")
    h = [events[0], events[-1], events[1 % len(events)]][:depth]
    rec.sample({"unit": unit.name, "recipe": recipe, "valid_clause_example": {"start": "packed", "history": h, "route": routes_of(unit.name)[-1]},
                "event_menu": events, "expected": "trailer == ref.crc16(all preceding octets); accepted by " + ", ".join(dn for dn, _ in unit.decoders())}, limit=1)


# ============================================================================== driver
# ============================================================================== sizes
# The CRC checks slice with the 16-bit length field.  Payload lengths are swept so that the field takes every low-octet
# value under high octets 0..4 and every carry pattern around further multiples of 256: for each packet the valid clause,
# and single-bit flips in the first octet, the last octet before the trailer and every trailer bit.
SIZE_UNITS = ("PusTc", "PusTm", "FileDataPdu")


def size_lengths(tier):
    vals = set(range(0, 1101))
    highs = list(range(5, 17)) + [31, 32, 63, 64, 127, 128, 254, 255] + ([] if tier == "quick" else list(range(17, 31)))
    for h in highs:
        vals.update(range(h * 256 - 40, h * 256 + 9))
    return sorted(v for v in vals if v >= 0)


def size_recipe(name, n, i):
    from units.pus import hx, payload
    if name == "PusTc":
        return dict(svc=17, sub=1, apid=0x2AA, seq=0x1555, src=0x1234, ack=5, data=hx(payload(n, i)))
    if name == "PusTm":
        ts = payload((0, 7, 2)[i % 3], 3)
        return dict(svc=5, sub=2, apid=0x155, seq=0x2AAA, mc=0x0102, dest=0x0304, tref=3, ver=0, ts=hx(ts), data=hx(payload(n, i)), ts_len=len(ts))
    cfg = {"crc": 1, "large": i % 2, "idw": (1, 2, 8)[i % 3], "seqw": (1, 4, 8)[i % 3], "mode": 0, "segctrl": (i // 2) % 2}
    return {"cfg": cfg, "params": {"offset": 0x0102, "data": ["shaped", n, i % 4], "md": None}}


def size_one(rec, unit, recipe):
    case = {"kind": "sizes", "unit": unit.name, "recipe": recipe}
    rec.case(True, ops=2 * len(unit.decoders()) + 20)
    try:
        raw = bytes(unit.build(recipe).pack())
    except Exception:
        rec.count("size_sweep_not_constructible")
        return  # whether this length can be built is the encoding properties' business
    if raw != unit.ref(recipe):
        rec.count("size_sweep_packed_differs_from_reference(judged by the encoding properties)")
        return
    f = judge_packet(unit, recipe, raw, unit.name + ".pack")
    if f is not None:
        rec.violation(f"C04.{f.clause}/{f.subject}/{f.kind.split('/')[0]}/long-packet", case, f.observed, f.expected,
                      note="payload length sweep: the packet as packed by the library, uncorrupted")
        return
    n = 8 * len(raw)
    excl = set(unit.length_bits(raw))
    for off in (0, n - 17, n - 16, n - 9, n - 8, n - 1):  # first bit, last bit before the trailer, first/last bit of each trailer octet
        if 0 <= off < n and off not in excl:
            flip_one(rec, unit, recipe, off, 1, 1, crc=True)
    rec.outcome(f"sizes/{unit.name}/ok")


def run_sizes(rec, item):
    unit = crc_units()[item["unit"]]
    k = 0
    for i, n in enumerate(size_lengths(item["tier"])):
        if i % item["parts"] != item["part"]:
            continue
        size_one(rec, unit, size_recipe(item["unit"], n, i))
        k += 1
    rec.count("size_sweep_packets", k)


def run_shard(item):
    rec = Rec(PROPERTY, item)
    if item["kind"] == "sizes":
        run_sizes(rec, item)
    elif item["kind"] == "flip":
        run_flip(rec, item)
    elif item["kind"] == "valid":
        run_valid(rec, item)
    else:
        raise AssertionError(item)
    return rec.result()


def replay(case):
    rec = Rec(PROPERTY, "replay")
    unit = crc_units()[case["unit"]]
    if case["kind"] == "sizes":
        size_one(rec, unit, case["recipe"])
    elif case["kind"] == "flip":
        rec.case(True, ops=len(unit.decoders()) + 1)
        flip_one(rec, unit, case["recipe"], case["off"], case["L"], case["pat"], crc=True)
    elif case["kind"] == "valid":
        _SEEN_SITES.clear()
        valid_case(rec, unit, case["recipe"], case["start"], [list(e) for e in case["history"]], case["route"], case.get("tier", "quick"))
    else:
        raise AssertionError(case)
    return rec.result()


def finalize(tier, agg):
    c = agg["counters"]
    names = list(crc_units())

    def per(prefix):
        return {k[len(prefix):]: v for k, v in sorted(c.items()) if k.startswith(prefix)}

    raised = per("raised/")
    classes = sorted({k.rsplit("/", 1)[1] for k in raised})
    return {
        "kinds": names,
        "packets_per_kind": per("packets/"),
        "packet_bits_per_kind": per("packet_bits/"),
        "corruptions_per_kind": {k: v for k, v in per("corruptions/").items() if not k.startswith("family=")},
        "corruptions_per_pattern_family": {k[len("family="):]: v for k, v in per("corruptions/").items() if k.startswith("family=")},
        "decoder_calls_per_kind": per("decoder_calls/"),
        "patterns_per_offset": {"quick": len(family("quick")), "full": len(family("full"))},
        "max_burst_length_completed": MAX_BURST,
        "bit_offsets_covered": c.get("bit_offsets_covered", 0),
        "bit_offsets_where_every_pattern_flips_a_length_bit": c.get("bit_offsets_all_patterns_excluded", 0),
        "patterns_dropped_because_a_flipped_bit_is_length_determining": c.get("patterns_not_cases_flip_in_length_field", 0),
        "check_pus_crc_calls_on_corrupted": c.get("check_pus_crc_calls_on_corrupted", 0),
        "exceptions_raised_per_decoder": raised,
        "distinct_exception_classes": classes,
        "factory_answered_None": per("answered_None/"),
        "valid_clause_cases_per_kind": per("valid_cases/"),
        "valid_clause_histories_outside_domain": per("histories_outside_the_domain/"),
        "valid_clause_cases_not_executable": per("valid_cases_not_executable/"),
        "corruptions_of_packets_whose_valid_form_is_refused": per("corruptions_of_packets_whose_valid_form_is_refused/"),
        "full_family_packets": [n for n, _ in full_selection()] if tier == "thorough" else [],
        "observed_outcomes": sorted(agg["outcomes"])[:80],
    }
