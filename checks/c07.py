"""C07 - CFDP File Data PDU (engine V).  DESIGN.md section 4, C07.

Round trip script: units.cfdp_pdu.evaluate (construct, pack == reference octets, lengths, unpack of the reference
octets returns exactly offset / segment metadata / file data, decoded lengths, == original, re-pack).  Further
clauses: segment metadata longer than 63 octets is refused; get_max_file_seg_len_for_max_packet_len_and_pdu_cfg
agrees with the packed form."""

from __future__ import annotations

import itertools

from checks.c06 import enum_vectors
from mc import domains as D
from mc.rec import Rec
from ref import cfdp as R
from units import cfdp_pdu as U

PROPERTY = "C07"
LEVEL = "model_checking"  # bounded-exhaustive enumeration of executions against a reference model (DESIGN.md 1, 2.1)
EXHAUSTIVE = True
RULE = (
    "case = (header configuration, offset, file data, segment metadata). 256 configurations (CRC x large-file x ID width "
    "{1,2,4,8} x sequence width {1,2,4,8} x transmission mode x segmentation control) crossed with: d=1 sweeps in K "
    "backgrounds of offset over walk(32|64), file data over every length 0..20 and {255,256,1024,4096} in every shaped "
    "content plus every octet string of length <= 1, segment metadata over {none} U {4 continuation states x every "
    "length 0..63}; the full product of the edge alphabets of the three axes; every 2-octet file data string (65536) in "
    "C configurations; the largest file data that fits a 65535-octet data field with and without 63 octets of metadata "
    "in every configuration; metadata of 64, 65, 127, 128, 255 octets x 4 states x 4 routes (constructor; setter on a PDU constructed without / with metadata; setter on a decoded PDU) in every configuration (refusal); the max-segment "
    "helper for every configuration x 4 metadata shapes x every M in [base-2, base+40]. Vectors are de-duplicated before "
    "execution and shards partition the configurations, so executed cases are pairwise distinct (non-trivial = distinct)."
)
BOUNDS = {"quick": "K=2 backgrounds, 2-octet strings in C=4 configurations", "thorough": "K=4 backgrounds, 2-octet strings in C=16 configurations"}
ASSUMPTIONS = [
    "reference encoder ref/cfdp.py transcribes CCSDS 727.0-B-5 5.1/5.3 (bound to the repository's expected byte vectors by selftest/st_ref_cfdp.py)",
    "file data between 21 and 65535 octets is represented by lengths 255, 256, 1024, 4096 and the largest that fits",
]

CFGS = [{"crc": c, "large": l, "idw": i, "seqw": s, "mode": m, "segctrl": g}
        for c, l, i, s, m, g in itertools.product((0, 1), (0, 1), (1, 2, 4, 8), (1, 2, 4, 8), (0, 1), (0, 1))]
BIG_LENGTHS = [255, 256, 1024, 4096]
REFUSED_MD_LENGTHS = [64, 65, 127, 128, 255]


def _k(tier):
    return 2 if tier == "quick" else 4


def md_pattern(n):
    return bytes((0x80 + i) & 0xFF for i in range(n))


def axes(large, tier="quick"):
    bits = 64 if large else 32
    data_full = [b"\x00"]
    for length in range(0, 21 if tier == "quick" else 300):  # thorough: every length whose data-field length has low octet 0..255 and a carry
        data_full += D.shaped(length)
    data_full += D.all_bytes(1)
    data_full = D.dedupe(data_full)
    data_full += [["shaped", length, k] for length in BIG_LENGTHS for k in range(5)]
    data_edge = [b"\x00", b"", b"\xff\xfe", bytes(range(20)), ["shaped", 255, 3]]
    md_full = [None] + [[s, md_pattern(n)] for s in range(4) for n in range(64)]
    md_edge = [None, [0, b""], [3, b"\x99"], [1, md_pattern(63)], [2, md_pattern(32)]]
    return [("offset", D.walk(bits), D.edge(bits)), ("data", data_full, data_edge), ("md", md_full, md_edge)]


_VEC = {}


def vectors_for(large, tier):
    key = (large, tier)
    if key not in _VEC:
        _VEC[key] = enum_vectors("FileDataPdu", axes(large, tier), 3, _k(tier), pairs_full=False)
        if tier == "thorough":  # every (offset, segment metadata) pair over the full alphabets, and the data lengths 0..40 x every metadata
            ax = axes(large, tier)
            seen = {repr(U.hexed(v)) for v in _VEC[key][0]}
            extra = []
            default = {n: full[0] for n, full, _e in ax}
            offs, datas, mds = ax[0][1], [d for d in ax[1][1] if isinstance(d, bytes) and len(d) <= 40][::5], ax[2][1]
            for md in mds:
                for off in offs[::3]:
                    extra.append(dict(default, offset=off, md=md))
                for d in datas:
                    extra.append(dict(default, data=d, md=md))
            for v in extra:
                k = repr(U.hexed(v))
                if k not in seen:
                    seen.add(k)
                    _VEC[key][0].append(v)
    return _VEC[key]


def allbytes2_cfgs(tier):
    if tier == "quick":
        pick = [(0, 0, 1, 1), (1, 0, 2, 4), (0, 1, 4, 8), (1, 1, 8, 2)]
    else:
        pick = [(c, l, i, s) for c in (0, 1) for l in (0, 1) for i, s in ((1, 1), (2, 4), (4, 8), (8, 2))]
    return [{"crc": c, "large": l, "idw": i, "seqw": s, "mode": (i + c) % 2, "segctrl": (s // 2) % 2} for c, l, i, s in pick]


def shards(tier):
    items = _shards(tier)
    items[0] = dict(items[0], first_shard=1)
    return items


def _shards(tier):
    items = []
    for idxs in D.chunks(list(range(len(CFGS))), 32):
        items.append({"job": "roundtrip", "cfgs": idxs, "tier": tier})
    for ci in range(len(allbytes2_cfgs(tier))):
        for part in range(8):
            items.append({"job": "allbytes2", "cfg": ci, "part": part, "parts": 8, "tier": tier})
    for idxs in D.chunks(list(range(len(CFGS))), 8):
        items.append({"job": "limits", "cfgs": idxs, "tier": tier})
    return items


def base_len(cfg, md_len):
    """octets of a File Data PDU without any file data, from the format"""
    return R.header_len_of(cfg["idw"], cfg["seqw"]) + (8 if cfg["large"] else 4) + (2 if cfg["crc"] else 0) + (0 if md_len is None else 1 + md_len)


REFUSAL_ROUTES = ["ctor", "setter/constructed-without-md", "setter/constructed-with-md", "setter/decoded"]


def check_refusal(rec, cfg, state, n, route="ctor"):
    """segment metadata longer than 63 octets: refused (constructor, setter or pack) whatever the route by which it
    reaches the PDU; octets are the violation"""
    rec.case(True, ops=2)
    recipe = {"cfg": cfg, "params": {"offset": 1, "data": b"ab", "md": [state, md_pattern(n)]}}
    case = {"kind": "refuse", "cfg": cfg, "state": state, "n": n, "route": route}
    unit = U.UNITS["FileDataPdu"]
    sub = "FileDataPdu.pack" if route == "ctor" else f"FileDataPdu.segment_metadata=({route.split('/')[1]})"
    try:
        if route == "ctor":
            pdu = unit.build(recipe)
        else:
            base = dict(recipe["params"], md=None if route.endswith("without-md") else [3 - state, md_pattern(5)])
            try:
                pdu = unit.build({"cfg": cfg, "params": base})
                if route == "setter/decoded":
                    pdu = unit.cls().unpack(unit.ref({"cfg": cfg, "params": base}))
            except Exception:
                rec.count("refusal_route_start_not_available")
                return  # the start object is the business of the encode / decode clauses
            try:
                pdu.segment_metadata = U.L.SegmentMetadata(U.L.RecordContinuationState(state), md_pattern(n))
            except unit.documented as e:
                # the assignment was refused; the caller catches that and goes on with the PDU: whatever pack() hands out afterwards
                # must not carry the refused metadata (either it refuses too, or the PDU is what it was before the assignment)
                rec.outcome(f"md>{63}:{route}:{type(e).__name__}")
                before = unit.ref({"cfg": cfg, "params": base})
                try:
                    after = bytes(pdu.pack())
                except unit.documented:
                    rec.outcome(f"md>{63}:{route}:pack-after-refused-assignment-refuses")
                    return
                if after != before:
                    rec.violation(f"C07.refuse/{sub}/refused-metadata-packed-afterwards", case, after[:64], before[:64])
                return
        raw = bytes(pdu.pack())
    except unit.documented as e:
        rec.outcome(f"md>{63}:{route}:{type(e).__name__}")
        return
    except Exception as e:
        rec.violation(f"C07.refuse/{sub}/undocumented-exception/{type(e).__name__}", case, repr(e), "ValueError or a documented error")
        return
    rec.violation(f"C07.refuse/{sub}/metadata-longer-than-63-octets-packed", case, raw[:64], "refused")


def check_maxseg(rec, cfg, md_len, m):
    """get_max_file_seg_len_for_max_packet_len_and_pdu_cfg(cfg, M, md): a PDU carrying exactly the returned number of
    octets packs to exactly M octets; M smaller than the base packet must not yield a number"""
    rec.case(True, ops=4)
    case = {"kind": "maxseg", "cfg": cfg, "md_len": md_len, "m": m}
    fd = U.L
    import spacepackets.cfdp.pdu.file_data as fdm

    base = base_len(cfg, md_len)
    sm = None if md_len is None else fd.SegmentMetadata(fd.RecordContinuationState(1), md_pattern(md_len))
    conf = U.pdu_config(cfg)
    feats = "".join(f"/{k}=1" for k, on in (("crc", cfg["crc"]), ("large", cfg["large"]), ("md", md_len is not None)) if on)
    for entry, call in (
        ("get_max_file_seg_len_for_max_packet_len_and_pdu_cfg", lambda: fdm.get_max_file_seg_len_for_max_packet_len_and_pdu_cfg(conf, m, sm)),
        ("FileDataPdu.get_max_file_seg_len_for_max_packet_len", lambda: fd.FileDataPdu(conf, fd.FileDataParams(b"", 0, sm)).get_max_file_seg_len_for_max_packet_len(m)),
        # the same question put to a PDU that currently carries file data (constructed / decoded): the answer is about the
        # configuration and the metadata, not about what the PDU holds at the moment
        ("FileDataPdu.get_max_file_seg_len_for_max_packet_len", lambda: fd.FileDataPdu(conf, fd.FileDataParams(b"0123456789abcdef", 3, sm)).get_max_file_seg_len_for_max_packet_len(m)),
        ("FileDataPdu.get_max_file_seg_len_for_max_packet_len", lambda: fd.FileDataPdu.unpack(bytes(fd.FileDataPdu(conf, fd.FileDataParams(b"01234", 3, sm)).pack())).get_max_file_seg_len_for_max_packet_len(m)),
    ):
        try:
            n = call()
        except Exception as e:
            if m < base:
                rec.outcome(f"maxseg:too-small:{type(e).__name__}")
                continue
            rec.violation(f"C07.maxseg/{entry}/raised-for-sufficient-length{feats}", case, repr(e), m - base)
            continue
        if m < base:
            rec.violation(f"C07.maxseg/{entry}/answered-for-length-below-base-packet{feats}", case, n, "an exception (ValueError)")
            continue
        if n != m - base:
            rec.violation(f"C07.maxseg/{entry}/wrong-length{feats}", case, n, m - base)
            continue
        try:
            packed = len(fd.FileDataPdu(conf, fd.FileDataParams(bytes(n), 7, sm)).pack())
        except Exception as e:
            rec.violation(f"C07.maxseg/{entry}/pdu-of-returned-length-does-not-pack{feats}", case, repr(e), m)
            continue
        ref_len = len(R.encode_pdu("FileDataPdu", cfg, {"offset": 7, "data": bytes(n), "md": None if md_len is None else [1, md_pattern(md_len)]}))
        if packed != m or ref_len != m:
            rec.violation(f"C07.maxseg/{entry}/pdu-of-returned-length-is-not-M-octets{feats}", case, (packed, ref_len), m)


STATE_BY_MEANING = {"NO_START_NO_END": 0b00, "START_WITHOUT_END": 0b01, "END_WITHOUT_START": 0b10, "START_AND_END": 0b11}  # 727.0-B-5 table 5-14


def check_state_names(rec):
    """the enumeration members are named after the rows of the standard's table: each carries that row's code, and goes on the wire
    as (code << 6 | length) - a symmetric exchange of two codes survives every round trip"""
    fd = U.L
    for name, code in STATE_BY_MEANING.items():
        rec.case(True, ops=2)
        case = {"kind": "state-name", "name": name}
        member = getattr(fd.RecordContinuationState, name, None)
        if member is None or int(member) != code:
            rec.violation("C07.encode/RecordContinuationState/member-does-not-carry-the-code-of-its-row", case, None if member is None else int(member), code)
            continue
        cfg = dict(CFGS[1], segctrl=1)
        pdu = fd.FileDataPdu(U.pdu_config(cfg), fd.FileDataParams(b"ab", 1, fd.SegmentMetadata(member, b"\x55")))
        raw = bytes(pdu.pack())
        ref = R.encode_pdu("FileDataPdu", cfg, {"offset": 1, "data": b"ab", "md": [code, b"\x55"]})
        if raw != ref:
            rec.violation("C07.encode/FileDataPdu.pack/octets/record-continuation-state-by-name", case, raw, ref)
    rec.outcome("state-names-ok")


def run_shard(item):
    rec = Rec(PROPERTY, item)
    if item.get("first_shard"):
        check_state_names(rec)
    tier = item["tier"]
    unit = U.UNITS["FileDataPdu"]
    if item["job"] == "roundtrip":
        for ci in item["cfgs"]:
            cfg = CFGS[ci]
            vs, dups = vectors_for(cfg["large"], tier)
            rec.count("duplicate_vectors_not_executed", dups)
            for v in vs:
                rec.case(True, ops=U.OPS_PER_CASE)
                if not U.judge(rec, PROPERTY, None, unit, {"cfg": cfg, "params": v}, "class"):
                    rec.count("violating_roundtrip_cases")
                rec.count("roundtrip_cases")
            # the largest file data that fits the 16-bit data field length, without and with 63 octets of metadata
            for md in (None, [2, md_pattern(63)]):
                n = 65535 - (base_len(cfg, None if md is None else 63) - R.header_len_of(cfg["idw"], cfg["seqw"]))
                recipe = {"cfg": cfg, "params": {"offset": 0x01020304, "data": ["shaped", n, 2], "md": md}}
                rec.case(True, ops=U.OPS_PER_CASE)
                U.judge(rec, PROPERTY, None, unit, recipe, "class")
                rec.count("largest_fitting_cases")
                rec.outcome(f"maxfit:data={n}")
            v = vs[len(vs) // 2]
            ref = unit.ref({"cfg": cfg, "params": v})
            rec.sample({"recipe": U.hexed({"cfg": cfg, "params": v}), "expected_octets": ref[:96], "expected_len": len(ref)}, limit=1)
    elif item["job"] == "allbytes2":
        cfg = allbytes2_cfgs(tier)[item["cfg"]]
        lo, hi = 256 * item["part"] // item["parts"], 256 * (item["part"] + 1) // item["parts"]
        for a in range(lo, hi):
            for b in range(256):
                rec.case(True, ops=U.OPS_PER_CASE)
                U.judge(rec, PROPERTY, None, unit, {"cfg": cfg, "params": {"offset": 0x0102, "data": bytes([a, b]), "md": None}}, "class")
        rec.count("two_octet_file_data_cases", (hi - lo) * 256)
        rec.sample({"all_2_octet_file_data": f"first octet {lo}..{hi - 1}", "cfg": cfg}, limit=1)
    elif item["job"] == "limits":
        for ci in item["cfgs"]:
            cfg = CFGS[ci]
            for n in REFUSED_MD_LENGTHS:
                for state in range(4):
                    for route in REFUSAL_ROUTES:
                        check_refusal(rec, cfg, state, n, route)
                        rec.count("metadata_refusal_cases")
            if cfg["segctrl"] == 0:  # the helper does not look at segmentation control: 128 configurations
                for md_len in (None, 0, 5, 63):
                    base = base_len(cfg, md_len)
                    for m in range(base - 2, base + 41):
                        check_maxseg(rec, cfg, md_len, m)
                        rec.count("max_segment_helper_cases")
        rec.sample({"max_segment_helper": {"cfg": CFGS[item["cfgs"][0]], "M": base_len(CFGS[item["cfgs"][0]], None) + 5, "expected": 5}}, limit=1)
    return rec.result()


def replay(case):
    rec = Rec(PROPERTY, "replay")
    if case["kind"] == "pdu":
        rec.case(True, ops=U.OPS_PER_CASE)
        U.judge(rec, PROPERTY, None, U.UNITS[case["unit"]], case["recipe"], case.get("via", "class"), case.get("enc", True))
    elif case["kind"] == "refuse":
        check_refusal(rec, case["cfg"], case["state"], case["n"], case.get("route", "ctor"))
    elif case["kind"] == "maxseg":
        check_maxseg(rec, case["cfg"], case["md_len"], case["m"])
    return rec.result()


def finalize(tier, agg):
    c = agg["counters"]
    return {
        "header_configurations_crossed": len(CFGS),
        "backgrounds": _k(tier),
        "alphabet_sizes": {f"large={l}": {a[0]: {"full": len(a[1]), "edge": len(a[2])} for a in axes(l)} for l in (0, 1)},
        "vectors_per_configuration": {f"large={l}": len(vectors_for(l, tier)[0]) for l in (0, 1)},
        "roundtrip_cases": c.get("roundtrip_cases", 0),
        "two_octet_file_data_cases": c.get("two_octet_file_data_cases", 0),
        "metadata_refusal_cases": c.get("metadata_refusal_cases", 0),
        "max_segment_helper_cases": c.get("max_segment_helper_cases", 0),
    }
