"""C06 - the seven CFDP file-directive PDUs (engine V).  DESIGN.md section 4, C06.

Every case is one recipe (header configuration + parameter vector) run through the fixed script of
units.cfdp_pdu.evaluate: construct, pack == reference octets, packet_len / pdu_data_field_len, unpack of the
reference octets (same class, every observable by value, lengths of the decoded object, == original in both
directions, re-pack == reference).  Reference octets come from ref/cfdp.py (CCSDS 727.0-B-5)."""

from __future__ import annotations

import itertools

from mc import domains as D
from mc.rec import Rec
from ref import cfdp as R
from units import cfdp_pdu as U

PROPERTY = "C06"
LEVEL = "model_checking"  # bounded-exhaustive enumeration of executions against a reference model (DESIGN.md 1, 2.1)
EXHAUSTIVE = True
RULE = (
    "case = (directive kind, header configuration, parameter vector). The 128 header configurations (CRC x large-file x "
    "ID width {1,2,4,8} x sequence width {1,2,4,8} x transmission mode) are crossed with: the full parameter product for "
    "ACK (2x13x4), Prompt (2) and the Finished flag octet (13x2x4, itself crossed with filestore responses x fault "
    "location); for EOF, Metadata, NAK, Keep Alive every parameter vector within deviation bound d of the default vector "
    "(d=1: every value of the axis' full/walk alphabet in K background vectors; 2<=d<=bound: every combination of "
    "non-default edge values of every d-subset of axes). Fit clause: every size/offset/progress field with values >= 2^32 "
    "(32-bit fields) and >= 2^64 (64-bit fields) in every configuration. Vectors are de-duplicated per (kind, large) "
    "before execution (duplicates are counted, not executed) and shards partition (kind, configuration), so every "
    "executed case is distinct; a case is non-trivial when it differs from every other executed case in kind, "
    "configuration or parameter vector."
)
BOUNDS = {
    "quick": "d<=2, K=2 backgrounds, Finished fault locations {none, 1, 8 octets}",
    "thorough": "full product of the edge alphabets of all axes, every pair of axes over the product of their full alphabets, K=8 backgrounds, Finished fault locations {none, 1, 2, 4, 8 octets}",
}
ASSUMPTIONS = [
    "reference encoder ref/cfdp.py transcribes CCSDS 727.0-B-5 5.1/5.2/5.4 (bound to the repository's expected byte vectors by selftest/st_ref_cfdp.py)",
    "fault locations are only built together with an error condition code (EOF: any but 'no error'; Finished: any but 'no error' and 'unsupported checksum type'), as the standard omits the field otherwise",
    "filestore responses / requests inside PDUs use ASCII names (octet-length accounting of non-ASCII names is C08's subject); Metadata file names do include multi-octet UTF-8",
    "two arbitrary non-edge values of two different parameters at once are outside the bound",
]

DIRECTIVES = ["EofPdu", "FinishedPdu", "AckPdu", "MetadataPdu", "NakPdu", "PromptPdu", "KeepAlivePdu"]
# 128 header configurations; the segmentation-control bit (it shares octet 3 with the two width fields, and every PDU kind
# carries it) alternates over them so that every value of every other axis meets both of its values
CFGS = [{"crc": c, "large": l, "idw": i, "seqw": s, "mode": m, "segctrl": (k // 2 + k // 8 + k // 32) % 2}
        for k, (c, l, i, s, m) in enumerate(itertools.product((0, 1), (0, 1), (1, 2, 4, 8), (1, 2, 4, 8), (0, 1)))]
CHUNKS = 16


def _dmax(tier):
    return 2 if tier == "quick" else 6  # 6 >= number of axes of every kind: the full product of the edge alphabets


def _k(tier):
    return 2 if tier == "quick" else 8


def fault_values():
    return [None] + [bytes(range(0x31, 0x31 + w)) for w in (1, 2, 4, 8)]


NAMES_FULL = [None] + D.NAMES + ["n" * 255, "data/", "./a.txt", "/tmp//x", "a/../b"]  # the last four: spellings a path normaliser would rewrite
NAMES_EDGE = [None, "a", "ä", "n" * 255]
CHK_FULL = [v.to_bytes(4, "big") for v in D.dedupe(D.edge(32) + [0x01020304])]
CHK_EDGE = [bytes(4), b"\xff" * 4, bytes([1, 2, 3, 4]), b"\xaa" * 4]
RESPS = [[], [U.RESP_ONE_NAME], [U.RESP_TWO_NAMES_MSG], [U.RESP_TWO_NAMES], [U.RESP_ONE_NAME_MSG],
         [U.RESP_ONE_NAME, U.RESP_TWO_NAMES_MSG], [U.RESP_TWO_NAMES_MSG, U.RESP_TWO_NAMES, U.RESP_ONE_NAME_MSG], [U.RESP_REPLACE], [U.RESP_REPLACE, U.RESP_ONE_NAME]]
OPTS_FULL = [None, [], [U.OPT_FLOW], U.OPTS_MIXED, U.OPTS_TWO_NAME_REQ, U.OPTS_REPLACE_REQ]
OPTS_EDGE = [None, [], [U.OPT_FLOW], U.OPTS_MIXED]


def seg_values(large):
    e = D.edge(64 if large else 32)
    m = e[5]
    full = [None, [], [[0, 0]], [[1, 2]], [[m, m - 1]], [[e[6], e[7]]], [[1, 2], [3, 4]], [[0, m], [m, 0]],
            [[1, 2], [m - 1, m], [0x0102, 0x0304]], [[e[0], e[1]], [e[2], e[3]], [e[4], e[5]]]]
    edge = [None, [[1, 2]], [[0, m], [m, 0]], [[1, 2], [m - 1, m], [0x0102, 0x0304]]]
    return full, edge


def axes_of(kind, large, tier):
    """[(name, full alphabet, edge alphabet)]; element 0 of both alphabets is the default"""
    bits = 64 if large else 32
    walk, edge = D.walk(bits), D.edge(bits)
    if kind == "EofPdu":
        return [("cc", R.CONDITION_CODES, [0, 1, 10, 15]), ("checksum", CHK_FULL, CHK_EDGE), ("size", walk, edge),
                ("fault", fault_values(), [None, fault_values()[1], fault_values()[4]])]
    if kind == "MetadataPdu":
        return [("closure", [0, 1], [0, 1]), ("cs", R.CHECKSUM_TYPES, [0, 3, 15]), ("size", walk, edge),
                ("src", NAMES_FULL, NAMES_EDGE), ("dst", NAMES_FULL, NAMES_EDGE), ("opts", OPTS_FULL, OPTS_EDGE)]
    if kind == "NakPdu":
        sf, se = seg_values(large)
        return [("start", walk, edge), ("end", walk, edge), ("segs", sf, se)]
    if kind == "KeepAlivePdu":
        return [("progress", walk, edge)]
    raise AssertionError(kind)


def fix_vector(kind, v):
    """bring a vector into the property's domain (fault location only with an error condition code)"""
    if kind == "EofPdu" and v["fault"] is not None and v["cc"] == R.NO_ERROR:
        v = dict(v, cc=6)
    return v


def _key(v):
    return repr(U.hexed(v))


def enum_vectors(kind, axes, dmax, k_bg, pairs_full=False):
    """(vectors simplest first, number of duplicates dropped)"""
    names = [a[0] for a in axes]
    full = {a[0]: a[1] for a in axes}
    edge = {a[0]: a[2] for a in axes}
    default = {n: full[n][0] for n in names}
    out, seen, dups = [], set(), [0]

    def emit(v):
        v = fix_vector(kind, v)
        k = _key(v)
        if k in seen:
            dups[0] += 1
            return
        seen.add(k)
        out.append(v)

    emit(dict(default))
    for j in range(k_bg):
        bg = {n: (default[n] if j == 0 else edge[n][j % len(edge[n])]) for n in names}
        for n in names:
            for val in full[n]:
                emit(dict(bg, **{n: val}))
    for d in range(2, min(dmax, len(names)) + 1):
        for subset in itertools.combinations(names, d):
            for vals in itertools.product(*[edge[n][1:] for n in subset]):
                emit(dict(default, **dict(zip(subset, vals))))
    if pairs_full:  # thorough: every pair of axes over the product of their FULL alphabets
        for a, b in itertools.combinations(names, 2):
            for va in full[a]:
                for vb in full[b]:
                    emit(dict(default, **{a: va, b: vb}))
    return out, dups[0]


_VEC_CACHE = {}


def vectors_for(kind, large, tier):
    key = (kind, large, tier)
    if key in _VEC_CACHE:
        return _VEC_CACHE[key]
    if kind == "AckPdu":
        vs = [{"acked": a, "cc": c, "ts": t} for a in (4, 5) for c in R.CONDITION_CODES for t in range(4)]
        res = (vs, 0)
    elif kind == "PromptPdu":
        res = ([{"rr": 0}, {"rr": 1}], 0)
    elif kind == "FinishedPdu":
        faults = fault_values() if tier == "thorough" else [None, fault_values()[1], fault_values()[4]]
        vs = []
        for cc, dc, fs in itertools.product(R.CONDITION_CODES, (0, 1), range(4)):
            for resps in RESPS:
                for fault in faults:
                    if fault is not None and cc in (R.NO_ERROR, R.UNSUPPORTED_CHECKSUM_TYPE):
                        continue  # outside the domain: the standard omits the field for these codes
                    vs.append({"cc": cc, "dc": dc, "fs": fs, "resps": resps, "fault": fault})
        res = (vs, 0)
    else:
        res = enum_vectors(kind, axes_of(kind, large, tier), _dmax(tier), _k(tier), pairs_full=(tier == "thorough"))
    _VEC_CACHE[key] = res
    return res


FIT_32 = [1 << 32, (1 << 32) + 1, (1 << 33) - 1, 1 << 63, (1 << 64) - 1, 1 << 64]
FIT_64 = [1 << 64, (1 << 64) + 1, 1 << 70]


def fit_recipes(cfg):
    """(class, field, recipe) with one file-size-sensitive value that does not fit the configured width"""
    vals = FIT_64 if cfg["large"] else FIT_32
    out = []
    for v in vals:
        out.append(("EofPdu", "file_size", {"cc": 0, "checksum": bytes(4), "size": v, "fault": None}))
        out.append(("MetadataPdu", "file_size", {"closure": 0, "cs": 0, "size": v, "src": "a", "dst": "b", "opts": None}))
        out.append(("NakPdu", "start_of_scope", {"start": v, "end": 0, "segs": None}))
        out.append(("NakPdu", "end_of_scope", {"start": 0, "end": v, "segs": None}))
        out.append(("NakPdu", "segment_start", {"start": 0, "end": 0, "segs": [[v, 1]]}))
        out.append(("NakPdu", "segment_end", {"start": 0, "end": 0, "segs": [[1, 2], [0, v]]}))
        out.append(("KeepAlivePdu", "progress", {"progress": v}))
    return out


def shards(tier):
    items = []
    for kind in DIRECTIVES:
        for part, idxs in enumerate(D.chunks(list(range(len(CFGS))), CHUNKS)):
            items.append({"job": "roundtrip", "kind": kind, "cfgs": idxs, "tier": tier})
    for part, idxs in enumerate(D.chunks(list(range(len(CFGS))), 4)):
        items.append({"job": "fit", "cfgs": idxs, "tier": tier})
    items.append({"job": "ack-refusal", "tier": tier})
    # directives whose data field is long: the 16-bit length beyond 0x7FFF and close to 0xFFFF (NAK segment requests, Finished
    # filestore responses, Metadata options), under eight configurations spread over the configuration space
    for k in range(8):
        items.append({"job": "big", "cfg": (k * 37 + 5) % len(CFGS), "tier": tier})
    return items


def big_recipes(cfg):
    w = 16 if cfg["large"] else 8
    scope = 17 if cfg["large"] else 9
    room = 65535 - scope - (2 if cfg["crc"] else 0)
    out = []
    for n in sorted({32768 // w - 1, 32768 // w, 32768 // w + 1, room // w - 1, room // w}):
        out.append(("NakPdu", {"start": 1, "end": 0x01020304, "segs": [[i, i + 1] for i in range(n)]}))
    resp = lambda i: {"action": 1, "status": 0, "first": "f%03d" % i + "x" * 96, "second": None, "msg": bytes([i & 0xFF]) * 100}  # noqa: E731
    for n in (159, 160, 300):  # 205 octets each
        out.append(("FinishedPdu", {"cc": 4, "dc": 1, "fs": 1, "resps": [resp(i) for i in range(n)], "fault": b"\x31"}))
    for n in (162, 163, 320):  # 202 octets each
        out.append(("MetadataPdu", {"closure": 1, "cs": 0, "size": 0x0102, "src": "s", "dst": "d",
                                    "opts": [{"t": "msg", "v": bytes([(i + j) & 0xFF for j in range(200)])} for i in range(n)]}))
    return out


def check_fit(rec, kind, field, recipe):
    """packing must fail (any exception, at construction or in pack()); octets are the violation"""
    unit = U.UNITS[kind]
    r = U.norm(recipe)
    rec.case(True, ops=2)
    try:
        raw = bytes(unit.build(r).pack())
    except Exception as e:
        rec.outcome(f"fit:{kind}:{type(e).__name__}")
        return
    bits = 64 if r["cfg"]["large"] else 32
    rec.violation(f"C06.fit/{kind}.pack/packed-value-wider-than-field/{field}/large={r['cfg']['large']}",
                  {"kind": "fit", "unit": kind, "field": field, "recipe": U.hexed(r)}, raw,
                  f"an exception: the value does not fit the {bits}-bit field")


def run_shard(item):
    rec = Rec(PROPERTY, item)
    tier = item["tier"]
    if item["job"] == "roundtrip":
        kind = item["kind"]
        unit = U.UNITS[kind]
        for ci in item["cfgs"]:
            cfg = CFGS[ci]
            vs, dups = vectors_for(kind, cfg["large"], tier)
            rec.count(f"{kind}_duplicate_vectors_not_executed", dups)
            for v in vs:
                recipe = {"cfg": cfg, "params": v}
                rec.case(True, ops=U.OPS_PER_CASE)
                ok = U.judge(rec, PROPERTY, None, unit, recipe, "class")
                rec.count(f"{kind}_cases")
                if not ok:
                    rec.count(f"{kind}_violating")
            if vs:
                ref = unit.ref({"cfg": cfg, "params": vs[-1]})
                rec.sample({"kind": kind, "recipe": U.hexed({"cfg": cfg, "params": vs[-1]}), "expected_octets": ref[:96],
                            "expected_len": len(ref)}, limit=1)
                rec.outcome(f"{kind}:cfg{ci}:{len(vs)}-vectors")
    elif item["job"] == "fit":
        for ci in item["cfgs"]:
            cfg = CFGS[ci]
            for kind, field, p in fit_recipes(cfg):
                check_fit(rec, kind, field, {"cfg": cfg, "params": p})
                rec.count("fit_cases")
        rec.sample({"fit": "EofPdu", "recipe": {"cfg": CFGS[item["cfgs"][0]], "params": {"size": str(FIT_32[0])}}, "expected": "pack() raises"}, limit=1)
    elif item["job"] == "big":
        cfg = CFGS[item["cfg"]]
        for kind, p in big_recipes(cfg):
            rec.case(True, ops=U.OPS_PER_CASE)
            U.judge(rec, PROPERTY, None, U.UNITS[kind], {"cfg": cfg, "params": p}, "class")
            rec.count("big_directive_cases")
        # one segment request more than the 16-bit data-field length can announce: building / packing must fail, octets with a
        # length field that wrapped are the violation
        w = 16 if cfg["large"] else 8
        room = 65535 - (17 if cfg["large"] else 9) - (2 if cfg["crc"] else 0)
        for extra in (1, 2, 40):
            check_fit(rec, "NakPdu", "data-field-length", {"cfg": cfg, "params": {"start": 1, "end": 2, "segs": [[i, i + 1] for i in range(room // w + extra)]}})
    elif item["job"] == "ack-refusal":
        # the property speaks of valid parameter sets only: what the constructor does with another acked directive
        # is recorded as an outcome, not judged
        for code in (0x07, 0x08, 0x09, 0x0C, 0x06):
            rec.case(True, ops=1)
            try:
                U.L.AckPdu(U.pdu_config(dict(U.CFG_DEFAULT)), U.L.DirectiveType(code), U.L.ConditionCode(0), U.L.TransactionStatus(0))
                rec.outcome(f"ack-of-{code:#x}:accepted")
            except Exception as e:
                rec.outcome(f"ack-of-{code:#x}:{type(e).__name__}")
        rec.sample({"ack_refusal": "AckPdu(acked=0x07) outcome recorded, not judged"}, limit=1)
    return rec.result()


def replay(case):
    rec = Rec(PROPERTY, "replay")
    case = dict(case)
    if case["kind"] == "pdu":
        rec.case(True, ops=U.OPS_PER_CASE)
        U.judge(rec, PROPERTY, None, U.UNITS[case["unit"]], case["recipe"], case.get("via", "class"), case.get("enc", True))
    elif case["kind"] == "fit":
        check_fit(rec, case["unit"], case["field"], case["recipe"])
    return rec.result()


def finalize(tier, agg):
    c = agg["counters"]
    per_kind = {k: c.get(f"{k}_cases", 0) for k in DIRECTIVES}
    sizes = {}
    for kind in ("EofPdu", "MetadataPdu", "NakPdu", "KeepAlivePdu"):
        for large in (0, 1):
            sizes[f"{kind}/large={large}"] = {a[0]: {"full": len(a[1]), "edge": len(a[2])} for a in axes_of(kind, large, tier)}
    return {
        "header_configurations_crossed": len(CFGS),
        "deviation_bound": _dmax(tier),
        "backgrounds": _k(tier),
        "cases_per_kind": per_kind,
        "alphabet_sizes": sizes,
        "vectors_per_configuration": {f"{k}/large={l}": len(vectors_for(k, l, tier)[0]) for k in DIRECTIVES for l in (0, 1)},
        "fit_cases": c.get("fit_cases", 0),
    }
