"""C16 - PUS verification tracker (engines T + H).

T: TLC explores models/PusVerificator.tla (documented state machine, invariants I1..I7 checked on the
   model), dumps the complete labelled state graph, and EVERY edge (s, action(args), s') is replayed on a
   fresh real PusVerificator with real PusTc / Service1Tm objects: abstraction of the implementation state
   must equal s', and the call's answer must be the one the action name stands for.
H: breadth-first search directly over the implementation against a Python port of the documented table,
   with a larger alphabet (two step IDs, three telecommands in the thorough tier).
DESIGN.md sections 2.4 and 4/C16."""

from __future__ import annotations

import collections
import os
import pickle
import shutil

from mc import tlc as T
from mc.rec import Rec

PROPERTY = "C16"
LEVEL = "model_checking"
EXHAUSTIVE = True
RULE = (
    "TLC enumerates all reachable states of the TLA+ model (NTC telecommands whose request IDs differ only in the sequence "
    "count + one never-registered telecommand, step IDs STEPIDS, step list <= MAXSTEPS) and checks the model properties; every "
    "edge of the dumped graph is replayed on the implementation via the shortest path to its source state. In addition a BFS over "
    "the implementation itself (state = full dump of verif_dict) is compared transition by transition with a Python port of the "
    "documented table. states/transitions = model states/edges + implementation-BFS states/transitions; traces = edges replayed."
)
BOUNDS = {"quick": "T: NTC=2, STEPIDS={1}, MAXSTEPS=2 (a failed step can be followed by a successful one); H: 1 TC, step ids {1,2}, step list <= 3", "thorough": "T as quick; H: 2 TCs step ids {1,2} list<=2; 1 TC step ids {1,2,3} list<=4; 3 TCs with reports {1,2,3,5,6,7} list<=1"}
ASSUMPTIONS = [
    "the documented state machine is the table in DESIGN.md section 4/C16 (from the class and TmCheckResult docstrings and the property text)",
    "TLC 1.8.0 explores the model completely (it reports 0 states left on queue); fingerprint collision probability as printed by TLC",
]

VERIF = os.path.dirname(os.path.dirname(os.path.abspath(__file__)))
SPEC = os.path.join(VERIF, "models", "PusVerificator.tla")
UNSET, FAILURE, SUCCESS = 0, 1, 2


def cfg_text(ntc, stepids, maxsteps):
    return (f"CONSTANTS NTC = {ntc}\nSTEPIDS = {{{', '.join(map(str, stepids))}}}\nMAXSTEPS = {maxsteps}\n"
            "SPECIFICATION Spec\nINVARIANT TypeOK\nPROPERTIES StepFailSticky AllMonotone StepsGrow AllOnlyByRule FrameCond RemoveExact\n")


# ------------------------------------------------------------------ the implementation side
class Impl:
    """real objects: telecommands 1..n differ only in the sequence count; telecommand 0 is never registered"""

    _cache = {}

    def __init__(self, ntc):
        from spacepackets.ecss.tc import PusTc
        from spacepackets.ecss.pus_verificator import PusVerificator, StatusField
        from spacepackets.ecss.req_id import RequestId

        self.ntc = ntc
        self.PusVerificator = PusVerificator
        self.sf = {StatusField.UNSET: UNSET, StatusField.FAILURE: FAILURE, StatusField.SUCCESS: SUCCESS}
        self.tcs = {t: PusTc(service=17, subservice=1, apid=0x2A, seq_count=100 + t) for t in range(0, ntc + 1)}
        self.rids = {t: RequestId.from_pus_tc(tc) for t, tc in self.tcs.items()}
        self.tms = {}

    def tm(self, t, s, step_id, decoded):
        key = (t, s, step_id, decoded)
        if key not in self.tms:
            from spacepackets.ecss import pus_1_verification as p1
            from spacepackets.ecss.fields import PacketFieldU8

            step = PacketFieldU8(step_id) if s in (5, 6) else None
            fn = p1.FailureNotice(PacketFieldU8(3), b"\x01") if s % 2 == 0 else None
            tm = p1.Service1Tm(apid=0x2A, subservice=p1.Subservice(s), timestamp=b"", seq_count=s,
                               verif_params=p1.VerificationParams(self.rids[t], step, fn))
            if decoded:
                tm = p1.Service1Tm.unpack(bytes(tm.pack()), p1.UnpackParams(0, 1, 1))
            self.tms[key] = tm
        return self.tms[key]

    def fresh(self):
        return self.PusVerificator()

    def apply(self, v, action, args, decoded=False):
        """returns the observable answer of the call in model terms"""
        if action in ("AddTcNew", "AddTcDup"):
            # a *new* PusTc object with the same header each time: identity must not matter
            from spacepackets.ecss.tc import PusTc

            t = args[0]
            tc = self.tcs[t] if not decoded else PusTc.unpack(bytes(self.tcs[t].pack()))
            return ("bool", v.add_tc(tc))
        if action in ("RemoveHit", "RemoveMiss"):
            return ("bool", v.remove_entry(self.rids[args[0]]))
        if action == "RemoveCompleted":
            return ("none", v.remove_completed_entries())
        if action in ("AddTmDone", "AddTmOpen", "AddTmIgnored"):
            t, s = args
            sid = 1
        elif action in ("AddTmStepOpen", "AddTmStepDone"):
            t, sid = args
            s = 5 if action == "AddTmStepOpen" else 6
        elif action == "AddTmUnknownTc":
            t, s, sid = 0, args[0], 1
        else:
            raise AssertionError("unknown action " + action)
        res = v.add_tm(self.tm(t, s, sid, decoded))
        if res is None:
            return ("tm", None)
        same = res.status is v.verif_dict.get(self.rids[t])
        return ("tm", (bool(res.completed), same))

    def abstract(self, v):
        d = v.verif_dict
        st = {"tracked": [], "acc": [], "sta": [], "stp": [], "cmp": [], "allr": [], "steps": []}
        for t in range(1, self.ntc + 1):
            r = d.get(self.rids[t])
            st["tracked"].append(r is not None)
            if r is None:
                vals = (UNSET, UNSET, UNSET, UNSET, False, [])
            else:
                vals = (self.sf[r.accepted], self.sf[r.started], self.sf[r.step], self.sf[r.completed], bool(r.all_verifs_recvd), [int(x) for x in r.step_list])
            for k, x in zip(("acc", "sta", "stp", "cmp", "allr", "steps"), vals):
                st[k].append(x)
        extra = [k for k in d if all(k != self.rids[t] for t in range(1, self.ntc + 1))]
        st["foreign_keys"] = len(extra)
        return st


EXPECT = {
    "AddTcNew": ("bool", True), "AddTcDup": ("bool", False), "RemoveHit": ("bool", True), "RemoveMiss": ("bool", False),
    "RemoveCompleted": ("none", None), "AddTmDone": ("tm", (True, True)), "AddTmOpen": ("tm", (False, True)),
    "AddTmStepOpen": ("tm", (False, True)), "AddTmStepDone": ("tm", (True, True)), "AddTmIgnored": ("tm", None), "AddTmUnknownTc": ("tm", None),
}


def replay_path(impl, path, decoded_last=False):
    """path: list of (action, args).  returns (answer of the last call, abstract state) ; raises on exceptions"""
    v = impl.fresh()
    ans = None
    for i, (a, args) in enumerate(path):
        ans = impl.apply(v, a, tuple(args), decoded=(decoded_last and i == len(path) - 1))
    return ans, impl.abstract(v)


def model_state_norm(st, ntc):
    out = {k: list(st[k]) for k in ("tracked", "acc", "sta", "stp", "cmp", "allr")}
    out["steps"] = [list(x) for x in st["steps"]]
    out["foreign_keys"] = 0
    return out


def check_edge(rec, impl, path, action, args, expected_state, decoded_last):
    full = list(path) + [(action, args)]
    case = {"kind": "edge", "ntc": impl.ntc, "path": [[a, list(g)] for a, g in full], "decoded_last": decoded_last,
            "expected_state": expected_state}
    rec.traces += 1
    try:
        ans, st = replay_path(impl, full, decoded_last)
    except Exception as e:
        rec.violation(f"C16.exception/{action}/{type(e).__name__}", case, repr(e), None)
        return
    if ans != EXPECT[action]:
        rec.violation(f"C16.answer/{action}" + (f"/subservice={args[1]}" if action in ("AddTmDone", "AddTmOpen") else ""), case, ans, EXPECT[action])
    if st != expected_state:
        diff = [k for k in st if st[k] != expected_state.get(k)]
        rec.violation(f"C16.state/{action}" + (f"/subservice={args[1]}" if action in ("AddTmDone", "AddTmOpen") else "") + "/" + "+".join(diff), case, st, expected_state)


# ------------------------------------------------------------------ engine H: BFS on the implementation vs the table
def table_step(state, ev, ntc):
    """Python port of the documented table. state: tuple per tc (1..ntc) of None | (acc, sta, stp, cmp, allr, steps)"""
    kind = ev[0]
    st = list(state)
    if kind == "add_tc":
        t = ev[1]
        if st[t - 1] is None:
            st[t - 1] = (UNSET, UNSET, UNSET, UNSET, False, ())
            return tuple(st), ("bool", True)
        return state, ("bool", False)
    if kind == "remove":
        t = ev[1]
        if st[t - 1] is None:
            return state, ("bool", False)
        st[t - 1] = None
        return tuple(st), ("bool", True)
    if kind == "remove_completed":
        return tuple(None if (r is not None and r[4]) else r for r in st), ("none", None)
    _, t, s, sid = ev
    if t == 0 or st[t - 1] is None:
        return state, ("tm", None)
    acc, sta, stp, cmp_, allr, steps = st[t - 1]
    after = acc != UNSET and sta != UNSET
    if s == 1:
        acc = SUCCESS
    elif s == 2:
        acc, allr = FAILURE, True
    elif s == 3:
        sta = SUCCESS
    elif s == 4:
        allr = allr or acc != UNSET
        sta = FAILURE
    elif s == 5:
        stp = SUCCESS if stp == UNSET else stp
        steps = steps + (sid,)
    elif s == 6:
        allr = allr or after
        stp = FAILURE
        steps = steps + (sid,)
    elif s == 7:
        allr = allr or after
        cmp_ = SUCCESS
    elif s == 8:
        allr = allr or after
        cmp_ = FAILURE
    st[t - 1] = (acc, sta, stp, cmp_, allr, steps)
    return tuple(st), ("tm", (s % 2 == 0 or s == 7, True))


def impl_apply_event(impl, v, ev, decoded=False):
    k = ev[0]
    if k == "add_tc":
        return impl.apply(v, "AddTcNew", (ev[1],), decoded)
    if k == "remove":
        return impl.apply(v, "RemoveHit", (ev[1],))
    if k == "remove_completed":
        return impl.apply(v, "RemoveCompleted", ())
    _, t, s, sid = ev
    res = v.add_tm(impl.tm(t, s, sid, decoded))
    if res is None:
        return ("tm", None)
    return ("tm", (bool(res.completed), res.status is v.verif_dict.get(impl.rids[t])))


def impl_state(impl, v):
    a = impl.abstract(v)
    out = []
    for i in range(impl.ntc):
        out.append(None if not a["tracked"][i] else (a["acc"][i], a["sta"][i], a["stp"][i], a["cmp"][i], a["allr"][i], tuple(a["steps"][i])))
    return tuple(out), a["foreign_keys"]


def event_menu(ntc, stepids, subservices):
    events = []
    for t in range(1, ntc + 1):
        events.append(("add_tc", t))
        events.append(("remove", t))
    events.append(("remove_completed",))
    for t in range(0, ntc + 1):
        for s in subservices:
            for sid in (stepids if s in (5, 6) else (1,)):
                events.append(("tm", t, s, sid))
    return events


def enabled(state, ev, maxsteps):
    """the step-list bound is an enabling condition of step reports (as in the TLA+ model)"""
    if ev[0] == "tm" and ev[2] in (5, 6) and ev[1] > 0 and state[ev[1] - 1] is not None:
        return len(state[ev[1] - 1][5]) < maxsteps
    return True


def table_reach(ntc, events, maxsteps):
    """reachable states of the table model with a shortest history each (pure Python, no library code)"""
    init = tuple([None] * ntc)
    seen = collections.OrderedDict()
    seen[init] = ()
    frontier = collections.deque([init])
    while frontier:
        st = frontier.popleft()
        for ev in events:
            if not enabled(st, ev, maxsteps):
                continue
            nxt, _ = table_step(st, ev, ntc)
            if nxt not in seen:
                seen[nxt] = seen[st] + (ev,)
                frontier.append(nxt)
    return seen


def bfs_impl(rec, ntc, stepids, maxsteps, subservices, part, parts):
    """conformance of EVERY transition of the table model's reachable graph: each reachable state is rebuilt on a
    fresh tracker by replaying its shortest history through the real methods, then every enabled event is applied
    and answer + resulting state are compared with the table.  (Induction over BFS order: if every transition out
    of every table-reachable state agrees, the implementation's reachable set is the table's.)"""
    impl = Impl(ntc)
    events = event_menu(ntc, stepids, subservices)
    reach = table_reach(ntc, events, maxsteps)
    mine = 0
    for idx, (state, hist) in enumerate(reach.items()):
        if idx % parts != part:
            continue
        mine += 1
        for ev in events:
            if not enabled(state, ev, maxsteps):
                continue
            v = impl.fresh()
            try:
                for e in hist:
                    impl_apply_event(impl, v, e)
            except Exception as e:
                rec.violation(f"C16.exception/history/{type(e).__name__}", {"kind": "hist", "ntc": ntc, "history": [list(x) for x in hist]}, repr(e), None)
                break
            rec.transitions += 1
            rec.traces += 1
            exp_state, exp_ans = table_step(state, ev, ntc)
            case = {"kind": "hist", "ntc": ntc, "history": [list(e) for e in hist + (ev,)]}
            try:
                ans = impl_apply_event(impl, v, ev, decoded=(len(hist) % 2 == 1))
            except Exception as e:
                rec.violation(f"C16.exception/{ev[0]}/{type(e).__name__}", case, repr(e), None)
                continue
            got, foreign = impl_state(impl, v)
            if ans != exp_ans:
                rec.violation(f"C16.answer/bfs/{ev[0]}" + (f"/subservice={ev[2]}" if ev[0] == "tm" else ""), case, ans, exp_ans)
            if got != exp_state or foreign:
                rec.violation(f"C16.state/bfs/{ev[0]}" + (f"/subservice={ev[2]}" if ev[0] == "tm" else ""), case, got, exp_state)
    rec.states += mine
    rec.count("impl_bfs_states", mine)
    rec.outcome(f"bfs/ntc={ntc}/part={part}/states={mine}")


# ------------------------------------------------------------------ shards
def shards(tier):
    q = tier == "quick"
    scratch = os.path.join(VERIF, ".scratch", "c16-%d" % os.getpid())
    shutil.rmtree(scratch, ignore_errors=True)
    ntc, stepids, maxsteps = 2, [1], 2
    info = T.run_tlc(SPEC, cfg_text(ntc, stepids, maxsteps), scratch, workers=4)
    init, states, edges = T.parse_dot(info["dot"])
    if len(states) != info["distinct"]:
        raise T.TlcError(f"dump has {len(states)} states, TLC reported {info['distinct']}")
    if len(edges) != info["generated"] - 1:
        raise T.TlcError(f"dump has {len(edges)} edges, TLC generated {info['generated']} states (1 initial)")
    paths = T.spanning_paths(init, edges)
    if len(paths) != len(states):
        raise T.TlcError("some dumped states are unreachable from the initial state")
    os.remove(info["dot"])
    shutil.rmtree(os.path.join(scratch, "meta"), ignore_errors=True)
    nparts = 32
    items = []
    fn = os.path.join(scratch, "graph.pkl")
    with open(fn, "wb") as f:
        pickle.dump({"ntc": ntc, "states": {sid: model_state_norm(st, ntc) for sid, st in states.items()}, "paths": paths, "edges": edges}, f, protocol=pickle.HIGHEST_PROTOCOL)
    for i in range(nparts):
        items.append({"kind": "edges", "file": fn, "part": i, "parts": nparts, "tlc": info if i == 0 else None, "model_states": len(states) if i == 0 else 0, "model_edges": len(edges) if i == 0 else 0})
    subs = [1, 2, 3, 4, 5, 6, 7, 8]
    if q:
        for part in range(4):
            items.append({"kind": "bfs", "ntc": 1, "stepids": [1, 2], "maxsteps": 3, "subs": subs, "part": part, "parts": 4})
    else:
        for part in range(32):
            items.append({"kind": "bfs", "ntc": 2, "stepids": [1, 2], "maxsteps": 2, "subs": subs, "part": part, "parts": 32})
        for part in range(4):
            items.append({"kind": "bfs", "ntc": 1, "stepids": [1, 2, 3], "maxsteps": 4, "subs": subs, "part": part, "parts": 4})
        for part in range(16):
            items.append({"kind": "bfs", "ntc": 3, "stepids": [1], "maxsteps": 1, "subs": [1, 2, 3, 5, 6, 7], "part": part, "parts": 16})
    return items


def run_shard(item):
    rec = Rec(PROPERTY, {k: v for k, v in item.items() if k != "tlc"})
    if item["kind"] == "edges":
        with open(item["file"], "rb") as f:
            data = pickle.load(f)
        impl = Impl(data["ntc"])
        mine = data["edges"][item["part"]::item["parts"]]
        for i, (src, dst, a, args) in enumerate(mine):
            check_edge(rec, impl, data["paths"][src], a, args, data["states"][dst], decoded_last=(i % 2 == 1))
            rec.outcome(a)
        rec.states += item["model_states"]
        rec.transitions += item["model_edges"]
        rec.evaluations += len(mine)
        rec.nontrivial += len(mine)
        rec.ops += sum(len(data["paths"][e[0]]) + 1 for e in mine)
        if item["tlc"]:
            rec.extra = {"tlc": item["tlc"]}
            src, dst, a, args = mine[-1]
            p, exp = data["paths"][src], data["states"][dst]
            rec.sample({"edge_replayed": [[x, list(y)] for x, y in p] + [[a, list(args)]], "expected_answer": EXPECT[a], "expected_state": exp})
    else:
        bfs_impl(rec, item["ntc"], item["stepids"], item["maxsteps"], item["subs"], item["part"], item["parts"])
        rec.evaluations += rec.transitions
        rec.nontrivial += rec.transitions
    return rec.result()


def replay(case):
    rec = Rec(PROPERTY, "replay")
    impl = Impl(case["ntc"])
    if case["kind"] == "edge":
        path = [(a, tuple(g)) for a, g in case["path"]]
        check_edge(rec, impl, path[:-1], path[-1][0], path[-1][1], case["expected_state"], case["decoded_last"])
    else:
        hist = [tuple(e) for e in case["history"]]
        v = impl.fresh()
        st = tuple([None] * case["ntc"])
        for i, ev in enumerate(hist):
            exp_state, exp_ans = table_step(st, ev, case["ntc"])
            try:
                ans = impl_apply_event(impl, v, ev, decoded=(i == len(hist) - 1 and (len(hist) - 1) % 2 == 1))
            except Exception as e:
                rec.violation(f"C16.exception/{ev[0]}/{type(e).__name__}", case, repr(e), None)
                break
            got, foreign = impl_state(impl, v)
            if ans != exp_ans:
                rec.violation(f"C16.answer/bfs/{ev[0]}" + (f"/subservice={ev[2]}" if ev[0] == "tm" else ""), case, ans, exp_ans)
            if got != exp_state or foreign:
                rec.violation(f"C16.state/bfs/{ev[0]}" + (f"/subservice={ev[2]}" if ev[0] == "tm" else ""), case, got, exp_state)
                break
            st = exp_state
    return rec.result()


def finalize(tier, agg):
    shutil.rmtree(os.path.join(VERIF, ".scratch", "c16-%d" % os.getpid()), ignore_errors=True)
    try:
        os.rmdir(os.path.join(VERIF, ".scratch"))
    except OSError:
        pass
    tlc = next((e["tlc"] for e in agg["extra"] if e.get("tlc")), {})
    return {"tlc_distinct_states": tlc.get("distinct"), "tlc_states_generated": tlc.get("generated"), "tlc_graph_depth": tlc.get("depth"),
            "tlc_cmd": tlc.get("cmd"), "model_properties_checked_by_tlc": ["TypeOK", "StepFailSticky", "AllMonotone", "StepsGrow", "AllOnlyByRule", "FrameCond", "RemoveExact"],
            "edges_replayed_on_implementation": agg["traces"], "implementation_bfs_states": agg["counters"].get("impl_bfs_states", 0)}
