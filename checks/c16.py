"""C16 - PUS verification tracker (engines T + H).

T: TLC explores models/PusVerificator.tla (documented state machine, invariants I1..I7 checked on the
   model), dumps the complete labelled state graph, and EVERY edge (s, action(args), s') is replayed on a
   fresh real PusVerificator with real PusTc / Service1Tm objects: abstraction of the implementation state
   must equal s', and the call's answer must be the one the action name stands for.
H: (a) breadth-first search over the reachable graph of a Python port of the documented table, every
   transition executed on the implementation, with a larger alphabet (two step IDs, three telecommands
   in the thorough tier) and, at every state, "probe" events: reports / remove_entry calls for request
   IDs that differ from a registered one in exactly one of the 32 bits (must be unknown), reports whose
   irrelevant content varies (APID of the report, time stamp, field widths, step-ID boundary values);
   (b) stateless: ALL histories up to depth D over a stated alphabet, each executed on a fresh tracker
   (hidden implementation state - caches - cannot hide behind a shortest path).
Hidden state (T and H(a)): after every conforming transition the COMPLETE attribute graph of the tracker
   is compared with the one reached by the shortest history of the same documented state; a tracker that
   carries something else (a lookup cache, a counter, a 'finished' set) is a new *extended* state and is
   explored too (every event from it, recursively, de-duplicated on documented state + attribute graph).
DESIGN.md sections 2.3, 2.4 and 4/C16."""

from __future__ import annotations

import collections
import os
import pickle
import shutil

from mc import tlc as T
from mc.rec import Rec

PROPERTY = "C16"
LEVEL = "model_checking"
EXHAUSTIVE = True
RULE = (
    "T: TLC enumerates all reachable states of the TLA+ model (NTC telecommands whose request IDs differ only in the sequence "
    "count + one never-registered telecommand, step IDs STEPIDS, step list <= MAXSTEPS) and checks the model properties; every "
    "edge of the dumped graph is replayed on the implementation via the shortest path to its source state (source state, answer and "
    "destination state compared). H/bfs: every transition of the reachable graph of a Python port of the documented table is "
    "executed the same way, and at every state the probe events: reports and remove_entry calls for each single-bit neighbour "
    "(32 bits incl. the 3 version bits) of each telecommand's request ID (never registered -> None / False, nothing changes), "
    "reports for the telecommand with a different report APID / non-empty time stamp / 16-bit step and error-code fields / step "
    "IDs 0 and 255 (same effect as the plain report). Extended states (T and H/bfs): whenever the tracker's complete attribute "
    "graph (pickle of vars(tracker), aliasing included, dict-valued attributes ordered by key) after a conforming transition differs "
    "from the one the destination state's shortest history produces, the pair is a new state and every event is applied from it too "
    "(breadth-first, de-duplicated, per-shard cap EXT_CAP; 0 on a tracker without hidden state). H/stateless: every event sequence "
    "of length 1..D over the stated alphabet is executed from a fresh tracker (telecommands, reports and request IDs built by the "
    "constructors with the last event alternately decoded, or - 'all-decoded' runs - all obtained by unpack()); the state before the last event, its answer and the "
    "state after it are compared with the table, and every result handed out earlier in the history must still have its completed "
    "flag and status object. A divergence is always reported at the first diverging event of the history (minimal replay). "
    "states = model states + table states (+ extended states); transitions = model edges + table transitions + probes + "
    "stateless histories; traces = histories executed on the implementation."
)
BOUNDS = {
    "quick": "T: NTC=2, STEPIDS={1}, MAXSTEPS=2 (a failed step can be followed by a successful one), extended states <= 400 per shard; "
             "H/bfs: 1 TC, step ids {1,2}, step list <= 3, all probes (32 neighbours x (8 subservices + remove_entry), 25 report variants); "
             "H/stateless: 1 TC, {add_tc, remove_entry, remove_completed, reports 1..8, report for a never-registered TC} (12 events) depth 6; "
             "2 TCs, {add_tc, remove_entry} x 2, remove_completed, reports {1,2,4,6} x 2 (13 events) depth 5, once with constructed objects "
             "(last event alternately decoded) and once with every telecommand / report / request ID obtained by unpack()",
    "thorough": "T as quick; H/bfs: 2 TCs step ids {1,2} list<=2; 1 TC step ids {1,2,3} list<=4 with all probes; 3 TCs with reports {1,2,3,5,6,7} list<=1; "
                "2 TCs step ids {1} list<=1 with probes (64 neighbours x (subservices 1,6 + remove_entry), report variants); "
                "H/stateless: 1 TC, 12 events depth 7 and 14 events (step ids {1,2}) depth 6; 2 TCs, 13 events depth 6; all-decoded: 2 TCs 13 events depth 5, "
                "1 TC 14 events depth 5",
}
ASSUMPTIONS = [
    "the documented state machine is the table in DESIGN.md section 4/C16 (from the class and TmCheckResult docstrings and the property text)",
    "TLC 1.8.0 explores the model completely (it reports 0 states left on queue); fingerprint collision probability as printed by TLC",
    "a request ID is the 32-bit value version(3) | packet type(1) | secondary header flag(1) | APID(11) | sequence flags(2) | sequence count(14) "
    "(RequestId docstring / as_u32): IDs that differ in any bit are different telecommands",
    "extended states are merged when documented state and attribute graph agree, ignoring the insertion order of dict-valued attributes "
    "(order-dependent behaviour within depth D is covered by the stateless part, which merges nothing)",
]

VERIF = os.path.dirname(os.path.dirname(os.path.abspath(__file__)))
SPEC = os.path.join(VERIF, "models", "PusVerificator.tla")
UNSET, FAILURE, SUCCESS = 0, 1, 2
APID, SEQ0 = 0x2A, 100
EXT_CAP_T, EXT_CAP_H = 400, 2000
VARIANTS = ("apid", "stamp", "wide")


def cfg_text(ntc, stepids, maxsteps):
    return (f"CONSTANTS NTC = {ntc}\nSTEPIDS = {{{', '.join(map(str, stepids))}}}\nMAXSTEPS = {maxsteps}\n"
            "SPECIFICATION Spec\nINVARIANT TypeOK\nPROPERTIES StepFailSticky AllMonotone StepsGrow AllOnlyByRule FrameCond RemoveExact\n")


def nb_field(b):
    """request-ID field that bit b (0 = least significant of the 32) belongs to"""
    return "seqcount" if b < 14 else "seqflags" if b < 16 else "apid" if b < 27 else "shf" if b == 27 else "ptype" if b == 28 else "version"


def key_u32(k):
    """32-bit request ID from the attributes of a RequestId (no library method involved)"""
    pid, psc = k.tc_packet_id, k.tc_psc
    return ((int(k.ccsds_version) & 7) << 29 | (int(pid.ptype) & 1) << 28 | (1 if pid.sec_header_flag else 0) << 27
            | (int(pid.apid) & 0x7FF) << 16 | (int(psc.seq_flags) & 3) << 14 | (int(psc.seq_count) & 0x3FFF))


# ------------------------------------------------------------------ the implementation side
class Impl:
    """real objects: telecommands 1..n differ only in the sequence count; telecommand 0 is never registered"""

    def __init__(self, ntc):
        from spacepackets.ecss.tc import PusTc
        from spacepackets.ecss.pus_verificator import PusVerificator, StatusField
        from spacepackets.ecss.req_id import RequestId

        self.ntc = ntc
        self.PusVerificator = PusVerificator
        self.sf = {StatusField.UNSET: UNSET, StatusField.FAILURE: FAILURE, StatusField.SUCCESS: SUCCESS}
        from spacepackets.ccsds.spacepacket import PacketType, SequenceFlags, SpacePacketHeader

        # the last telecommand (and the never registered number 0) carries sequence flags FIRST_SEGMENT - a header only the
        # alternate constructor (or a decoder) produces; the request ID is the first four header octets whatever they are
        self.flags = {t: (1 if t in (0, ntc) else 3) for t in range(0, ntc + 1)}
        # telecommand 1 asks for no acknowledgements at all (ack flags 0): what the tracker records does not depend on them
        self.tcs = {t: (PusTc(service=17, subservice=1, apid=APID, seq_count=SEQ0 + t, ack_flags=0b0000 if t == 1 else 0b1111) if self.flags[t] == 3 else
                        PusTc.from_sp_header(SpacePacketHeader(PacketType.TC, APID, SEQ0 + t, 0, True, SequenceFlags(self.flags[t])), 17, 1))
                    for t in range(0, ntc + 1)}
        self.tcs_dec = {}
        # the request IDs as the harness knows them (version 0, TC, secondary header, APID, sequence flags, count)
        self.u32 = {t: (1 << 28) | (1 << 27) | (APID << 16) | (self.flags[t] << 14) | (SEQ0 + t) for t in range(0, ntc + 1)}
        self.t_of = {self.u32[t]: t for t in range(1, ntc + 1)}
        self.tms = {}
        self.nbs = {}
        # the RequestId objects the reports are built with: through the plain constructors from the 32-bit value for even telecommand
        # numbers (independent of the library's header conversion), through RequestId.from_pus_tc for odd ones
        self.rids = {t: (self.rid(self.u32[t], False) if t % 2 == 0 else RequestId.from_pus_tc(tc)) for t, tc in self.tcs.items()}

    # -- objects -------------------------------------------------------------------
    def tc(self, t, decoded):
        if not decoded:
            return self.tcs[t]
        if t not in self.tcs_dec:
            from spacepackets.ecss.tc import PusTc

            self.tcs_dec[t] = PusTc.unpack(bytes(self.tcs[t].pack()))
        return self.tcs_dec[t]

    def rid(self, u, decoded):
        """RequestId object for the 32-bit value u: through the constructors, or decoded from its 4 octets"""
        key = (u, decoded)
        if key not in self.nbs:
            from spacepackets.ccsds.spacepacket import PacketId, PacketSeqCtrl, PacketType, SequenceFlags
            from spacepackets.ecss.req_id import RequestId

            if decoded:
                r = RequestId.unpack(u.to_bytes(4, "big"))
            else:
                r = RequestId(PacketId(PacketType((u >> 28) & 1), bool((u >> 27) & 1), (u >> 16) & 0x7FF),
                              PacketSeqCtrl(SequenceFlags((u >> 14) & 3), u & 0x3FFF), ccsds_version=(u >> 29) & 7)
            self.nbs[key] = r
        return self.nbs[key]

    def nb_u32(self, t, b):
        """single-bit neighbour of telecommand t's request ID, or None if that is one of the telecommands 1..ntc"""
        u = self.u32[t] ^ (1 << b)
        return None if any(u == self.u32[x] for x in range(1, self.ntc + 1)) else u

    def tm(self, rid_key, s, step_id, decoded, variant=None):
        """service-1 report; rid_key: telecommand number or ('u32', value)"""
        key = (rid_key, s, step_id, decoded, variant)
        if key not in self.tms:
            from spacepackets.ecss import pus_1_verification as p1
            from spacepackets.ecss.fields import PacketFieldU8, PacketFieldU16

            rid = self.rids[rid_key] if isinstance(rid_key, int) else self.rid(rid_key[1], False)
            fld = PacketFieldU16 if variant == "wide" else PacketFieldU8
            step = fld(step_id) if s in (5, 6) else None
            fn = p1.FailureNotice(fld(3), b"\x01") if s % 2 == 0 else None
            stamp = b"\x01\x02\x03\x04\x05\x06\x07" if variant == "stamp" else b""
            kw = {"apid": 0x2B, "seq_count": 77, "destination_id": 5} if variant == "apid" else {"apid": APID, "seq_count": s}
            tm = p1.Service1Tm(subservice=p1.Subservice(s), timestamp=stamp, verif_params=p1.VerificationParams(rid, step, fn), **kw)
            if decoded:
                w = 2 if variant == "wide" else 1
                tm = p1.Service1Tm.unpack(bytes(tm.pack()), p1.UnpackParams(len(stamp), w, w))
            self.tms[key] = tm
        return self.tms[key]

    def fresh(self):
        return self.PusVerificator()

    # -- observation ---------------------------------------------------------------
    def records(self, v):
        """{32-bit request ID: [records stored under keys with that value]} - by scanning verif_dict, keys read by attribute"""
        out = {}
        for k, r in v.verif_dict.items():
            out.setdefault(key_u32(k), []).append(r)
        return out

    def record_of(self, v, t):
        rs = self.records(v).get(self.u32[t], [])
        return rs[0] if len(rs) == 1 else None

    def abstract(self, v):
        by = self.records(v)
        st = {"tracked": [], "acc": [], "sta": [], "stp": [], "cmp": [], "allr": [], "steps": []}
        own = 0
        for t in range(1, self.ntc + 1):
            rs = by.get(self.u32[t], [])
            r = rs[0] if len(rs) == 1 else None
            own += r is not None
            st["tracked"].append(r is not None)
            if r is None:
                vals = (UNSET, UNSET, UNSET, UNSET, False, [])
            else:
                vals = (self.sf[r.accepted], self.sf[r.started], self.sf[r.step], self.sf[r.completed], bool(r.all_verifs_recvd), [int(x) for x in r.step_list])
            for k, x in zip(("acc", "sta", "stp", "cmp", "allr", "steps"), vals):
                st[k].append(x)
        st["foreign_keys"] = sum(len(x) for x in by.values()) - own
        return st

    def view_h(self, v):
        """(table state, number of keys that are not exactly one key per telecommand 1..ntc) - the fast form of abstract()"""
        out = [None] * self.ntc
        foreign = 0
        sf = self.sf
        for k, r in v.verif_dict.items():
            t = self.t_of.get(key_u32(k), 0)
            if t == 0 or out[t - 1] is not None:
                foreign += 1
            else:
                out[t - 1] = (sf[r.accepted], sf[r.started], sf[r.step], sf[r.completed], bool(r.all_verifs_recvd), tuple([int(x) for x in r.step_list]))
        return tuple(out), foreign

    # -- events --------------------------------------------------------------------
    def apply(self, v, ev, decoded=False, judge=True):
        """executes one event (H vocabulary); returns (answer in model terms, raw result of add_tm or None);
        judge=False (prefix of a case): the answer is not put into model terms"""
        k = ev[0]
        if k == "add_tc":
            # a PusTc object that is reused / a decoded copy: identity must not matter
            return ("bool", v.add_tc(self.tc(ev[1], decoded))), None
        if k == "remove":
            return ("bool", v.remove_entry(self.rid(self.u32[ev[1]], True) if decoded else self.rids[ev[1]])), None
        if k == "remove_nb":
            return ("bool", v.remove_entry(self.rid(self.nb_u32(ev[1], ev[2]), decoded))), None
        if k == "remove_completed":
            return ("none", v.remove_completed_entries()), None
        if k == "tm":
            _, t, s, sid = ev
            tm = self.tm(t, s, sid, decoded)
        elif k == "tm_var":
            _, t, s, sid, variant = ev
            tm = self.tm(t, s, sid, decoded, variant)
        elif k == "tm_nb":
            _, t, b, s = ev
            tm = self.tm(("u32", self.nb_u32(t, b)), s, 1, decoded)
        else:
            raise AssertionError("unknown event %r" % (ev,))
        res = v.add_tm(tm)
        if res is None:
            return ("tm", None), None
        if not judge:
            return None, res
        rec = self.record_of(v, t) if t else None
        return ("tm", (bool(res.completed), rec is not None and res.status is rec)), res


def t2h(action, args):
    """TLA+ action label -> event"""
    if action in ("AddTcNew", "AddTcDup"):
        return ("add_tc", args[0])
    if action in ("RemoveHit", "RemoveMiss"):
        return ("remove", args[0])
    if action == "RemoveCompleted":
        return ("remove_completed",)
    if action in ("AddTmDone", "AddTmOpen", "AddTmIgnored"):
        return ("tm", args[0], args[1], 1)
    if action in ("AddTmStepOpen", "AddTmStepDone"):
        return ("tm", args[0], 5 if action == "AddTmStepOpen" else 6, args[1])
    if action == "AddTmUnknownTc":
        return ("tm", 0, args[0], 1)
    raise AssertionError("unknown action " + action)


EXPECT = {
    "AddTcNew": ("bool", True), "AddTcDup": ("bool", False), "RemoveHit": ("bool", True), "RemoveMiss": ("bool", False),
    "RemoveCompleted": ("none", None), "AddTmDone": ("tm", (True, True)), "AddTmOpen": ("tm", (False, True)),
    "AddTmStepOpen": ("tm", (False, True)), "AddTmStepDone": ("tm", (True, True)), "AddTmIgnored": ("tm", None), "AddTmUnknownTc": ("tm", None),
}


def dump_key(v):
    """canonical image of the COMPLETE attribute graph of the tracker (values and aliasing): equal images => the two
    trackers are isomorphic Python object graphs => same future behaviour.  dict-valued attributes are ordered by key."""
    d = {}
    for name, val in vars(v).items():
        if isinstance(val, dict):
            items = list(val.items())
            try:
                items.sort(key=lambda kv: key_u32(kv[0]))
            except Exception:  # noqa: BLE001 - not request IDs
                try:
                    items.sort(key=lambda kv: repr(kv[0]))
                except Exception:  # noqa: BLE001
                    pass
            d[name] = items
        else:
            d[name] = val
    try:
        return pickle.dumps(d, 4)
    except Exception:  # noqa: BLE001 - something unpicklable is stored: structural walk
        return repr(_walk(d, {}, 0)).encode()


def _walk(x, memo, depth):
    if x is None or isinstance(x, (bool, int, float, str, bytes)):
        return x
    if id(x) in memo:
        return ("ref", memo[id(x)])
    memo[id(x)] = len(memo)
    if depth > 12:
        return ("deep", type(x).__name__)
    if isinstance(x, dict):
        return ("dict", [(_walk(k, memo, depth + 1), _walk(w, memo, depth + 1)) for k, w in x.items()])
    if isinstance(x, (list, tuple)):
        return (type(x).__name__, [_walk(w, memo, depth + 1) for w in x])
    if isinstance(x, (set, frozenset)):
        return ("set", sorted(repr(_walk(w, memo, depth + 1)) for w in x))
    if isinstance(x, bytearray):
        return ("bytearray", bytes(x))
    a = getattr(x, "__dict__", None)
    if isinstance(a, dict):
        return (type(x).__name__, [(k, _walk(w, memo, depth + 1)) for k, w in a.items()])
    return ("opaque", type(x).__name__)


# ------------------------------------------------------------------ the documented table (Python port)
def table_step(state, ev, ntc):
    """state: tuple per tc (1..ntc) of None | (acc, sta, stp, cmp, allr, steps); returns (state', answer)"""
    kind = ev[0]
    st = list(state)
    if kind == "add_tc":
        t = ev[1]
        if st[t - 1] is None:
            st[t - 1] = (UNSET, UNSET, UNSET, UNSET, False, ())
            return tuple(st), ("bool", True)
        return state, ("bool", False)
    if kind == "remove":
        t = ev[1]
        if st[t - 1] is None:
            return state, ("bool", False)
        st[t - 1] = None
        return tuple(st), ("bool", True)
    if kind == "remove_nb":
        return state, ("bool", False)
    if kind == "tm_nb":
        return state, ("tm", None)
    if kind == "remove_completed":
        return tuple(None if (r is not None and r[4]) else r for r in st), ("none", None)
    t, s, sid = ev[1], ev[2], ev[3]
    if t == 0 or st[t - 1] is None:
        return state, ("tm", None)
    acc, sta, stp, cmp_, allr, steps = st[t - 1]
    after = acc != UNSET and sta != UNSET
    if s == 1:
        acc = SUCCESS
    elif s == 2:
        acc, allr = FAILURE, True
    elif s == 3:
        sta = SUCCESS
    elif s == 4:
        allr = allr or acc != UNSET
        sta = FAILURE
    elif s == 5:
        stp = SUCCESS if stp == UNSET else stp
        steps = steps + (sid,)
    elif s == 6:
        allr = allr or after
        stp = FAILURE
        steps = steps + (sid,)
    elif s == 7:
        allr = allr or after
        cmp_ = SUCCESS
    elif s == 8:
        allr = allr or after
        cmp_ = FAILURE
    st[t - 1] = (acc, sta, stp, cmp_, allr, steps)
    return tuple(st), ("tm", (s % 2 == 0 or s == 7, True))


def table_run(hist, ntc):
    st = tuple([None] * ntc)
    for ev in hist:
        st, _ = table_step(st, ev, ntc)
    return st


def model_to_table(st, ntc):
    """normalised TLC state (dict of lists) -> table state"""
    return tuple(None if not st["tracked"][i] else (st["acc"][i], st["sta"][i], st["stp"][i], st["cmp"][i], st["allr"][i], tuple(st["steps"][i]))
                 for i in range(ntc))


def ev_sig(ev):
    k = ev[0]
    if k in ("tm", "tm_var"):
        return f"tm_var/variant={ev[4]}" if k == "tm_var" else f"tm/subservice={ev[2]}"
    if k in ("tm_nb", "remove_nb"):
        return f"{k}/field={nb_field(ev[2])}"
    return k


# ------------------------------------------------------------------ executing one case
def hist_case(ntc, hist, decoded_last, decoded_prefix=False):
    return {"kind": "hist", "ntc": ntc, "history": [list(e) for e in hist], "decoded_last": bool(decoded_last), "decoded_prefix": bool(decoded_prefix)}


def locate_divergence(rec, impl, hist, decoded=False):
    """the state reached by `hist` (all objects constructed, or all decoded) is not the table's: report the FIRST diverging event with
    the history up to it as the case (so that the replay artefact is minimal and its signature names that event)"""
    ntc = impl.ntc
    v = impl.fresh()
    st = tuple([None] * ntc)
    for i, ev in enumerate(hist):
        case = hist_case(ntc, hist[: i + 1], decoded, decoded)
        exp_state, exp_ans = table_step(st, ev, ntc)
        try:
            ans, _ = impl.apply(v, ev, decoded)
        except Exception as e:  # noqa: BLE001
            rec.violation(f"C16.exception/hist/{ev_sig(ev)}/{type(e).__name__}", case, repr(e), None)
            return
        got = impl.view_h(v)
        bad = False
        if ans != exp_ans:
            rec.violation(f"C16.answer/hist/{ev_sig(ev)}", case, ans, exp_ans)
            bad = True
        if got != (exp_state, 0):
            rec.violation(f"C16.state/hist/{ev_sig(ev)}", case, got, (exp_state, 0))
            bad = True
        if bad:
            return
        st = exp_state
    rec.violation("C16.nondeterministic/hist", hist_case(ntc, hist, decoded, decoded), "state differs between two executions of the same history", None)


def run_events(rec, impl, prefix, last, decoded_last, view, exp_src, exp_dst, exp_ans, sig, case, state_sig=None, decoded_prefix=False):
    """fresh tracker; prefix (constructed objects, or all decoded) must lead to exp_src - otherwise the first diverging event of the
    prefix is located and reported; then `last`: answer, resulting state, and the results handed out earlier.
    returns the tracker if everything agreed, else None"""
    v = impl.fresh()
    held = []
    try:
        for e in prefix:
            _, res = impl.apply(v, e, decoded_prefix, False)
            if res is not None:
                held.append((res, bool(res.completed), res.status))
    except Exception:  # noqa: BLE001 - the shorter history is a case of its own; name its first diverging event
        locate_divergence(rec, impl, prefix, decoded_prefix)
        return None
    if exp_src is not None and view(v) != exp_src:
        rec.count("prefix_diverged")
        locate_divergence(rec, impl, prefix, decoded_prefix)
        return None
    try:
        ans, _res = impl.apply(v, last, decoded_last)
    except Exception as e:  # noqa: BLE001
        rec.violation(f"C16.exception/{sig}/{type(e).__name__}", case, repr(e), None)
        return None
    got = view(v)
    ok = True
    if ans != exp_ans:
        rec.violation(f"C16.answer/{sig}", case, ans, exp_ans)
        ok = False
    if got != exp_dst:
        suffix, g, e = state_sig(v) if state_sig else ("", got, exp_dst)
        rec.violation(f"C16.state/{sig}{suffix}", case, g, e)
        ok = False
    for res, completed, status in held:
        if bool(res.completed) != completed or res.status is not status:
            rec.violation("C16.independence/add_tm/result-changed-by-a-later-call", case, (bool(res.completed), res.status is status), (completed, True))
            ok = False
            break
    return v if ok else None


def check_hist(rec, impl, hist, src_state, decoded_last, decoded_prefix=False):
    """history in the H vocabulary; src_state: table state the prefix hist[:-1] leads to"""
    ntc = impl.ntc
    ev = hist[-1]
    exp_state, exp_ans = table_step(src_state, ev, ntc)
    rec.transitions += 1
    rec.traces += 1
    rec.ops += len(hist)
    return run_events(rec, impl, hist[:-1], ev, decoded_last, impl.view_h, (src_state, 0), (exp_state, 0), exp_ans,
                      "hist/" + ev_sig(ev), hist_case(ntc, hist, decoded_last, decoded_prefix), None, decoded_prefix)


def _diff_sig(got, exp):
    return "/" + "+".join(k for k in got if got[k] != exp.get(k))


def check_edge(rec, impl, path, action, args, src_state, dst_state, decoded_last):
    """path: tuple of (action, args) in the TLA+ vocabulary"""
    case = {"kind": "edge", "ntc": impl.ntc, "path": [[a, list(g)] for a, g in path] + [[action, list(args)]], "decoded_last": bool(decoded_last),
            "source_state": src_state, "expected_state": dst_state}
    rec.traces += 1
    sig = action + (f"/subservice={args[1]}" if action in ("AddTmDone", "AddTmOpen") else "")
    ntc = impl.ntc

    def state_sig(v):
        got = impl.abstract(v)
        return _diff_sig(got, dst_state), got, dst_state

    exp_src = (model_to_table(src_state, ntc), 0) if src_state is not None else None  # None: replay file written before the source state was recorded
    return run_events(rec, impl, [t2h(a, g) for a, g in path], t2h(action, args), decoded_last, impl.view_h, exp_src,
                      (model_to_table(dst_state, ntc), 0), EXPECT[action], sig, case, state_sig)


# ------------------------------------------------------------------ engine H (a): table graph, probes, extended states
def event_menu(ntc, stepids, subservices):
    events = []
    for t in range(1, ntc + 1):
        events.append(("add_tc", t))
        events.append(("remove", t))
    events.append(("remove_completed",))
    for t in range(0, ntc + 1):
        for s in subservices:
            for sid in (stepids if s in (5, 6) else (1,)):
                events.append(("tm", t, s, sid))
    return events


def probe_menu(impl, level):
    """events whose effect the table fixes without enlarging its state space: never-registered single-bit neighbours
    of every telecommand's request ID, and reports whose content differs only in what the tracker must ignore"""
    ev = []
    if level == "none":
        return ev
    subs = list(range(1, 9)) if level == "full" else [1, 6]
    for t in range(1, impl.ntc + 1):
        for b in range(31, -1, -1):
            if impl.nb_u32(t, b) is None:
                continue
            ev.append(("remove_nb", t, b))
            for s in subs:
                ev.append(("tm_nb", t, b, s))
    for t in range(1, impl.ntc + 1):
        for variant in ("apid", "stamp"):
            for s in range(1, 9):
                ev.append(("tm_var", t, s, 1, variant))
        for s in (2, 4, 5, 6, 8):
            ev.append(("tm_var", t, s, 300, "wide"))
        for s in (5, 6):
            for sid in (0, 255):
                ev.append(("tm", t, s, sid))
    return ev


def enabled(state, ev, maxsteps):
    """the step-list bound is an enabling condition of step reports (as in the TLA+ model)"""
    if ev[0] in ("tm", "tm_var") and ev[2] in (5, 6) and ev[1] > 0 and state[ev[1] - 1] is not None:
        return len(state[ev[1] - 1][5]) < maxsteps
    return True


def table_reach(ntc, events, maxsteps):
    """reachable states of the table model with a shortest history each (pure Python, no library code)"""
    init = tuple([None] * ntc)
    seen = collections.OrderedDict()
    seen[init] = ()
    frontier = collections.deque([init])
    while frontier:
        st = frontier.popleft()
        for ev in events:
            if not enabled(st, ev, maxsteps):
                continue
            nxt, _ = table_step(st, ev, ntc)
            if nxt not in seen:
                seen[nxt] = seen[st] + (ev,)
                frontier.append(nxt)
    return seen


def bfs_impl(rec, ntc, stepids, maxsteps, subservices, part, parts, probes="none"):
    """conformance of EVERY transition of the table model's reachable graph: each reachable state is rebuilt on a
    fresh tracker by replaying its shortest history through the real methods, then every enabled event (and probe)
    is applied and source state, answer and resulting state are compared with the table.  (Induction over BFS order:
    if every transition out of every table-reachable state agrees, the implementation's reachable set is the table's -
    for a tracker whose attribute graph is a function of the documented state; otherwise the extended states follow.)"""
    impl = Impl(ntc)
    events = event_menu(ntc, stepids, subservices)
    reach = table_reach(ntc, events, maxsteps)
    probe_events = probe_menu(impl, probes)
    canon = {}

    def canon_key(st):
        if st not in canon:
            canon[st] = None
            h = reach.get(st)
            if h is not None:
                try:
                    v = impl.fresh()
                    for e in h:
                        impl.apply(v, e, False, False)
                    canon[st] = dump_key(v)
                except Exception:  # noqa: BLE001 - reported where that history is a case
                    pass
        return canon[st]

    work = collections.deque()
    mine = 0
    for idx, (state, hist) in enumerate(reach.items()):
        if idx % parts == part:
            mine += 1
            work.append((state, hist, False))
    seen_ext = set()
    while work:
        state, hist, is_ext = work.popleft()
        for ev in (events if is_ext else events + probe_events):
            if not enabled(state, ev, maxsteps):
                continue
            v = check_hist(rec, impl, hist + (ev,), state, decoded_last=(len(hist) % 2 == 1))
            if v is None:
                continue
            dst = table_step(state, ev, ntc)[0]
            ck = canon_key(dst)
            if ck is None:
                continue
            k = dump_key(v)
            if k != ck and (dst, k) not in seen_ext:
                if len(seen_ext) >= EXT_CAP_H:
                    rec.count("ext_cap_hit")
                    continue
                seen_ext.add((dst, k))
                work.append((dst, hist + (ev,), True))
    rec.states += mine + len(seen_ext)
    rec.count("impl_bfs_states", mine)
    rec.count("impl_hist_cases", rec.traces)
    rec.count("extended_states", len(seen_ext))
    rec.outcome(f"bfs/ntc={ntc}/part={part}/states={mine}")


# ------------------------------------------------------------------ engine H (b): stateless, all histories up to depth D
def stateless_menu(ntc, subs, stepids, unknown):
    events = []
    for t in range(1, ntc + 1):
        events.append(("add_tc", t))
        events.append(("remove", t))
    events.append(("remove_completed",))
    for t in range(1, ntc + 1):
        for s in subs:
            for sid in (stepids if s in (5, 6) else (1,)):
                events.append(("tm", t, s, sid))
    if unknown:
        events.append(("tm", 0, 1, 1))
    return events


def stateless(rec, ntc, events, depth, part, parts, all_decoded=False):
    """all_decoded: every telecommand, report and request ID of the history is an object obtained by unpack()"""
    impl = Impl(ntc)
    init = tuple([None] * ntc)
    n = len(events)

    def rec_down(hist, state, idxsum):
        # hist has been checked by the caller; extend by every event
        if len(hist) >= depth:
            return
        for i, ev in enumerate(events):
            h = hist + (ev,)
            check_hist(rec, impl, h, state, all_decoded or bool((idxsum + i + len(h)) & 1), all_decoded)
            rec_down(h, table_step(state, ev, ntc)[0], idxsum + i)

    # shards are the first-two-event prefixes; the histories of length 1 belong to part 0
    if part == 0:
        for i, ev in enumerate(events):
            check_hist(rec, impl, (ev,), init, all_decoded or bool((i + 1) & 1), all_decoded)
    for p in range(n * n):
        if p % parts != part:
            continue
        i, j = divmod(p, n)
        s1 = table_step(init, events[i], ntc)[0]
        h = (events[i], events[j])
        check_hist(rec, impl, h, s1, all_decoded or bool((i + j + 2) & 1), all_decoded)
        rec_down(h, table_step(s1, events[j], ntc)[0], i + j)
    rec.count("stateless_histories", rec.traces)
    rec.count("impl_hist_cases", rec.traces)
    rec.outcome(f"stateless/ntc={ntc}/depth={depth}/events={n}/all_decoded={all_decoded}")


# ------------------------------------------------------------------ engine T: every edge of the TLC graph
def run_edges(rec, item, data):
    impl = Impl(data["ntc"])
    states, paths, edges = data["states"], data["paths"], data["edges"]
    order = {sid: i for i, sid in enumerate(states)}
    part, parts = item["part"], item["parts"]
    # a shard owns the edges INTO its states: the canonical attribute graph of a state is computed once
    mine = [(gi, e) for gi, e in enumerate(edges) if order[e[1]] % parts == part]
    canon = {}

    def canon_key(sid):
        if sid not in canon:
            canon[sid] = None
            try:
                v = impl.fresh()
                for a, g in paths[sid]:
                    impl.apply(v, t2h(a, g), False, False)
                canon[sid] = dump_key(v)
            except Exception:  # noqa: BLE001 - reported where that path is a case
                pass
        return canon[sid]

    seen_ext = set()
    work = collections.deque()

    def one(path, src, dst, a, args, decoded_last):
        v = check_edge(rec, impl, path, a, args, states[src], states[dst], decoded_last)
        rec.outcome(a)
        rec.ops += len(path) + 1
        if v is None:
            return
        ck = canon_key(dst)
        if ck is None:
            return
        k = dump_key(v)
        if k != ck and (dst, k) not in seen_ext:
            if len(seen_ext) >= EXT_CAP_T:
                rec.count("ext_cap_hit")
                return
            seen_ext.add((dst, k))
            work.append((dst, path + ((a, args),)))

    for gi, (src, dst, a, args) in mine:
        one(paths[src], src, dst, a, args, gi % 2 == 1)
    rec.evaluations += len(mine)
    rec.nontrivial += len(mine)
    if work:
        out = collections.defaultdict(list)
        for src, dst, a, args in edges:
            out[src].append((dst, a, args))
        while work:
            sid, path = work.popleft()
            for i, (dst, a, args) in enumerate(out[sid]):
                one(path, sid, dst, a, args, (len(path) + i) % 2 == 1)
                rec.evaluations += 1
                rec.nontrivial += 1
    rec.states += item["model_states"] + len(seen_ext)
    rec.transitions += item["model_edges"]
    rec.count("extended_states", len(seen_ext))
    return mine


# ------------------------------------------------------------------ shards
def shards(tier):
    q = tier == "quick"
    scratch = os.path.join(VERIF, ".scratch", "c16-%d" % os.getpid())
    shutil.rmtree(scratch, ignore_errors=True)
    ntc, stepids, maxsteps = 2, [1], 2
    info = T.run_tlc(SPEC, cfg_text(ntc, stepids, maxsteps), scratch, workers=4)
    init, states, edges = T.parse_dot(info["dot"])
    if len(states) != info["distinct"]:
        raise T.TlcError(f"dump has {len(states)} states, TLC reported {info['distinct']}")
    if len(edges) != info["generated"] - 1:
        raise T.TlcError(f"dump has {len(edges)} edges, TLC generated {info['generated']} states (1 initial)")
    paths = T.spanning_paths(init, edges)
    if len(paths) != len(states):
        raise T.TlcError("some dumped states are unreachable from the initial state")
    os.remove(info["dot"])
    shutil.rmtree(os.path.join(scratch, "meta"), ignore_errors=True)
    nparts = 32
    items = []
    fn = os.path.join(scratch, "graph.pkl")
    with open(fn, "wb") as f:
        pickle.dump({"ntc": ntc, "states": {sid: model_state_norm(st, ntc) for sid, st in states.items()}, "paths": paths, "edges": edges}, f, protocol=pickle.HIGHEST_PROTOCOL)
    for i in range(nparts):
        items.append({"kind": "edges", "file": fn, "part": i, "parts": nparts, "tlc": info if i == 0 else None, "model_states": len(states) if i == 0 else 0, "model_edges": len(edges) if i == 0 else 0})
    subs = [1, 2, 3, 4, 5, 6, 7, 8]

    def bfs(n, ntc, stepids, maxsteps, subs_, probes):
        for part in range(n):
            items.append({"kind": "bfs", "ntc": ntc, "stepids": stepids, "maxsteps": maxsteps, "subs": subs_, "part": part, "parts": n, "probes": probes})

    def sl(n, ntc, subs_, stepids, unknown, depth, all_decoded=False):
        for part in range(n):
            items.append({"kind": "stateless", "ntc": ntc, "subs": subs_, "stepids": stepids, "unknown": unknown, "depth": depth, "part": part, "parts": n,
                          "all_decoded": all_decoded})

    items.append({"kind": "many", "ntc": 70, "finish": [1, 33]})
    items.append({"kind": "many", "ntc": 130, "finish": [2, 64, 65, 129]})
    if not q:
        items.append({"kind": "many", "ntc": 300, "finish": [1, 100, 255, 256, 257]})
    if q:
        bfs(16, 1, [1, 2], 3, subs, "full")
        sl(32, 1, subs, [1], True, 6)
        sl(16, 2, [1, 2, 4, 6], [1], False, 5)
        sl(16, 2, [1, 2, 4, 6], [1], False, 5, True)
    else:
        bfs(32, 2, [1, 2], 2, subs, "none")
        bfs(16, 1, [1, 2, 3], 4, subs, "full")
        bfs(16, 3, [1], 1, [1, 2, 3, 5, 6, 7], "none")
        bfs(32, 2, [1], 1, subs, "reduced")
        sl(64, 1, subs, [1], True, 7)
        sl(32, 1, subs, [1, 2], True, 6)
        sl(32, 2, [1, 2, 4, 6], [1], False, 6)
        sl(16, 2, [1, 2, 4, 6], [1], False, 5, True)
        sl(16, 1, subs, [1, 2], True, 5, True)
    return items


def model_state_norm(st, ntc):
    out = {k: list(st[k]) for k in ("tracked", "acc", "sta", "stp", "cmp", "allr")}
    out["steps"] = [list(x) for x in st["steps"]]
    out["foreign_keys"] = 0
    return out


def many_history(ntc, finish):
    """one long scripted history with MANY tracked telecommands (the other modes have <= 3): telecommand t is registered, those in
    `finish` are verified to the end at once, a completed purge comes at the very end - after every event the whole tracker state
    is compared with the table (what is said about one telecommand never depends on how many others are tracked)"""
    hist = []
    for t in range(1, ntc + 1):
        hist.append(("add_tc", t))
        if t in finish:
            hist += [("tm", t, 1, 0), ("tm", t, 3, 0), ("tm", t, 7, 0)]
    hist += [("tm", 1, 5, 1), ("add_tc", 2), ("remove_completed",), ("tm", ntc, 1, 0)]
    return tuple(hist)


def run_many(rec, ntc, finish):
    impl = Impl(ntc)
    hist = many_history(ntc, set(finish))
    st = tuple([None] * ntc)
    for i in range(1, len(hist) + 1):
        check_hist(rec, impl, hist[:i], st, False)
        st, _ = table_step(st, hist[i - 1], ntc)
    rec.evaluations += len(hist)
    rec.nontrivial += len(hist)
    rec.count("many_telecommand_history_events", len(hist))
    rec.outcome("many/ntc=%d" % ntc)


def run_shard(item):
    rec = Rec(PROPERTY, {k: v for k, v in item.items() if k != "tlc"})
    if item["kind"] == "many":
        run_many(rec, item["ntc"], item["finish"])
        return rec.result()
    if item["kind"] == "edges":
        with open(item["file"], "rb") as f:
            data = pickle.load(f)
        mine = run_edges(rec, item, data)
        if item["tlc"]:
            rec.extra = {"tlc": item["tlc"]}
            _gi, (src, dst, a, args) = mine[-1]
            p, exp = data["paths"][src], data["states"][dst]
            rec.sample({"edge_replayed": [[x, list(y)] for x, y in p] + [[a, list(args)]], "expected_answer": EXPECT[a], "expected_state": exp})
    elif item["kind"] == "bfs":
        bfs_impl(rec, item["ntc"], item["stepids"], item["maxsteps"], item["subs"], item["part"], item["parts"], item["probes"])
        rec.evaluations += rec.transitions
        rec.nontrivial += rec.transitions
    else:
        events = stateless_menu(item["ntc"], item["subs"], item["stepids"], item["unknown"])
        stateless(rec, item["ntc"], events, item["depth"], item["part"], item["parts"], item.get("all_decoded", False))
        rec.evaluations += rec.transitions
        rec.nontrivial += rec.transitions
    return rec.result()


def replay(case):
    rec = Rec(PROPERTY, "replay")
    impl = Impl(case["ntc"])
    if case["kind"] == "edge":
        path = tuple((a, tuple(g)) for a, g in case["path"])
        check_edge(rec, impl, path[:-1], path[-1][0], path[-1][1], case.get("source_state"), case["expected_state"], case["decoded_last"])
    else:
        hist = tuple(tuple(e) for e in case["history"])
        check_hist(rec, impl, hist, table_run(hist[:-1], case["ntc"]), case.get("decoded_last", False), case.get("decoded_prefix", False))
    return rec.result()


def finalize(tier, agg):
    shutil.rmtree(os.path.join(VERIF, ".scratch", "c16-%d" % os.getpid()), ignore_errors=True)
    try:
        os.rmdir(os.path.join(VERIF, ".scratch"))
    except OSError:
        pass
    tlc = next((e["tlc"] for e in agg["extra"] if e.get("tlc")), {})
    c = agg["counters"]
    return {"tlc_distinct_states": tlc.get("distinct"), "tlc_states_generated": tlc.get("generated"), "tlc_graph_depth": tlc.get("depth"),
            "tlc_cmd": tlc.get("cmd"), "model_properties_checked_by_tlc": ["TypeOK", "StepFailSticky", "AllMonotone", "StepsGrow", "AllOnlyByRule", "FrameCond", "RemoveExact"],
            "edges_replayed_on_implementation": agg["traces"] - c.get("impl_hist_cases", 0), "implementation_bfs_states": c.get("impl_bfs_states", 0),
            "stateless_histories": c.get("stateless_histories", 0), "extended_states": c.get("extended_states", 0)}
