"""C15 - request IDs and service-1 verification reports identify the telecommand exactly (engine V).
DESIGN.md section 4, C15."""

from __future__ import annotations

import itertools

from mc import domains as D
from mc.rec import Rec, unhex
from ref import pus as RP

PROPERTY = "C15"
LEVEL = "model_checking"  # bounded-exhaustive enumeration of executions against a reference model (DESIGN.md 1, 2.1)
EXHAUSTIVE = True
RULE = (
    "request ID = two 16-bit words (version 3 | type 1 | sec-hdr 1 | APID 11 ; seq flags 2 | seq count 14): each word swept over "
    "all 65 536 values in K^2 backgrounds (K for the other word x K for the space packet length that from_sp_header must ignore), "
    "plus the product of the 16-bit walk/edge alphabets; per value five construction routes (constructor, unpack, from_sp_header of a "
    "built and of a decoded header, from_pus_tc for type=TC) are compared with the first four octets of the reference header "
    "(pack, as_u32, decoded fields), with each other (== both ways, equal hashes) and with a different value (must be !=); "
    "neighbour clause: for every base value all 32 single-bit neighbours (built by rotating routes) must be unequal in both "
    "directions. Service-1 reports: subservice 1..8 x step-ID width {1,2,4,8} x value x error-code width {1,2,4,8} x value x failure "
    "data length x timestamp length {0,7} x telecommand header (APID, sequence count, version bits 0/5; built by PusTc(), "
    "PusTc.unpack, PusTc.from_sp_header) x {create_*_tm helper, Service1Tm constructor with VerificationParams and all TM header "
    "fields on a diagonal}; oracle = ref/pus.py TM encoder over req-id || [step] || [code || data]; decoded with "
    "UnpackParams(matching widths; the width of an absent field rotates over {1,2,4,8}) through Service1Tm.unpack and "
    "Service1Tm.from_tm: request ID, step ID value and width, error code value and width, failure data, re-pack, == both ways. "
    "Refusal clause: subservice 1..8 x {no step, step of each width} x {no notice, notice of each width x 2 data} x timestamp "
    "{0,7} through VerificationParams.verify_against_subservice and the Service1Tm constructor: exactly the matching sets are "
    "accepted. PacketFieldEnum: pfc 8 and 16 every value, pfc 32/64 every value of each octet (quick) or 16-bit half-word "
    "(thorough) in K backgrounds plus walk values; pfc refusal for every pfc in [-N, N] that is unsupported under every "
    "reading (byte aligned with a size not in {1,2,4,8}, or not aligned with neither neighbouring size supported). A case "
    "counts as distinct non-trivial when no earlier part of the enumeration produced the same coordinates (sweep values that "
    "are background values of an earlier sweep, product members containing a background word, walk values that are edge "
    "values are counted as trivial). The corpora of the unit registry (Service1Tm, FailureNotice, RequestId, PacketFieldEnum - the "
    "packets C04/C09/C10 start from) are run through build/pack/decode against their reference octets as well."
)
BOUNDS = {
    "quick": "K=4 (16 backgrounds per swept word); product edge(16) x edge(16); neighbour bases walk(32) + edge(16)^2 (120 bases x 32 bits); "
             "service-1: edge(8w) values (8 per width), failure data {0,1,3,200}, 16 TC headers (diagonals of edge(11) x edge(14) x "
             "version {0,5}); PacketFieldEnum 32/64 bit per octet x K=4; pfc in [-64, 300]",
    "thorough": "K=8 (64 backgrounds per swept word); product walk(16) x walk(16); neighbour bases walk(32) + walk(16)^2 (1296 bases x 32 bits); "
                "service-1: edge values x all 128 TC headers (edge(11) x edge(14) x {0,5}) x failure data {0,1,3,200}, failure data {2,8,1000} over the "
                "16 diagonal headers, plus walk(8w) step values x edge error codes and edge step values x walk(8w) error codes over 4 headers "
                "x failure data {0,3}; "
                "PacketFieldEnum 32/64 bit per 16-bit half-word x K=8; pfc in [-4096, 4096] and +-2^k, k <= 70",
}
ASSUMPTIONS = [
    "ref/pus.py, ref/ccsds.py, ref/crc16.py transcribe ECSS-E-ST-70-41C / CCSDS 133.0-B-2 (bound to the repository's expected vectors by selftest/st_ref_pus.py)",
    "two arbitrary non-background values in both request-ID words at once are only covered by the walk/edge product",
    "refused parameter sets: InvalidVerifParams or ValueError counts as a refusal (the property names no class); any other exception is reported",
    "PacketFieldEnum with a non-byte-aligned pfc next to a supported size (e.g. 9, 12) is not judged (outside the property text); whether it is accepted is recorded as an outcome",
]

STAMP = bytes([0x40, 1, 2, 3, 4, 5, 6])
WIDTHS = (1, 2, 4, 8)
E4, E11, E14, E16 = D.edge(4), D.edge(11), D.edge(14), D.edge(16)
HELPERS = {1: "create_acceptance_success_tm", 2: "create_acceptance_failure_tm", 3: "create_start_success_tm", 4: "create_start_failure_tm",
           5: "create_step_success_tm", 6: "create_step_failure_tm", 7: "create_completion_success_tm", 8: "create_completion_failure_tm"}
RID_FIELDS = ("version", "type", "sec-hdr-flag", "apid", "seq-flags", "seq-count")
UNIT_NAMES = ("Service1Tm", "FailureNotice", "RequestId", "PacketFieldEnum")


def _k(tier):
    return 4 if tier == "quick" else 8


class _Lib:
    pass


_L = None


def lib():
    """the library names used by this check (imported once per process, inside the worker)"""
    global _L
    if _L is None:
        import spacepackets.ccsds.spacepacket as sp
        import spacepackets.ecss.pus_1_verification as s1
        from spacepackets.ecss.fields import PacketFieldEnum, PacketFieldU8, PacketFieldU16, PacketFieldU32
        from spacepackets.ecss.req_id import RequestId
        from spacepackets.ecss.tc import PusTc, PusTcDataFieldHeader
        from spacepackets.ecss.tm import PusTm

        L = _Lib()
        L.sp, L.s1, L.PFE, L.RequestId, L.PusTc, L.TcSec, L.PusTm = sp, s1, PacketFieldEnum, RequestId, PusTc, PusTcDataFieldHeader, PusTm
        L.PFU = {1: PacketFieldU8, 2: PacketFieldU16, 4: PacketFieldU32}
        _L = L
    return _L


def payload(n: int, salt: int = 0) -> bytes:
    """n octets, position sensitive, never zero"""
    return bytes(((0xA1 + salt + 7 * i) & 0xFF) or 0x5A for i in range(n))


def short(b):
    if not isinstance(b, (bytes, bytearray)):
        return b
    b = bytes(b)
    return b if len(b) <= 72 else b[:40] + b"...." + b[-16:]


# ================================================================================ RequestId
def rid_fields(w0, w1):
    return (w0 >> 13, (w0 >> 12) & 1, (w0 >> 11) & 1, w0 & 0x7FF, w1 >> 14, w1 & 0x3FFF)


def bit_field(k):
    """name of the request-ID field that holds bit k (0 = least significant of the 32)"""
    if k < 14:
        return "seq-count"
    if k < 16:
        return "seq-flags"
    if k < 27:
        return "apid"
    return {27: "sec-hdr-flag", 28: "type"}.get(k, "version")


RID_ROUTES = ("constructor", "unpack", "from_sp_header", "from_sp_header(SpacePacketHeader.unpack)", "from_pus_tc")


def build_rid(route, w0, w1, dl=0):
    L = lib()
    sp = L.sp
    ver, typ, shf, apid, fl, cnt = rid_fields(w0, w1)
    if route == "constructor":
        return L.RequestId(sp.PacketId(sp.PacketType(typ), bool(shf), apid), sp.PacketSeqCtrl(sp.SequenceFlags(fl), cnt), ver)
    ref4 = RP.request_id(ver, typ, shf, apid, fl, cnt)
    if route == "unpack":
        return L.RequestId.unpack(ref4 + dl.to_bytes(2, "big"))  # octets after the fourth must not matter
    if route == "from_sp_header":
        return L.RequestId.from_sp_header(sp.SpacePacketHeader(sp.PacketType(typ), apid, cnt, dl, bool(shf), sp.SequenceFlags(fl), ver))
    if route == "from_sp_header(SpacePacketHeader.unpack)":
        return L.RequestId.from_sp_header(sp.SpacePacketHeader.unpack(ref4 + dl.to_bytes(2, "big")))
    if route == "from_pus_tc":  # only for type = TC
        hdr = sp.SpacePacketHeader(sp.PacketType(typ), apid, cnt, dl, bool(shf), sp.SequenceFlags(fl), ver)
        return L.RequestId.from_pus_tc(L.PusTc.from_composite_fields(hdr, L.TcSec(service=17, subservice=1)))
    raise AssertionError(route)


def rid_repro(w0, w1):
    ver, typ, shf, apid, fl, cnt = rid_fields(w0, w1)
    return ("from spacepackets.ccsds.spacepacket import *; from spacepackets.ecss.req_id import RequestId; "
            "r = RequestId(PacketId(PacketType(%d), %s, %d), PacketSeqCtrl(SequenceFlags(%d), %d), %d); "
            "print(bytes(r.pack()).hex(), hex(r.as_u32()), 'expected %s'); u = RequestId.unpack(bytes.fromhex('%s')); print(u == r, hash(u) == hash(r))"
            % (typ, bool(shf), apid, fl, cnt, ver, RP.request_id(ver, typ, shf, apid, fl, cnt).hex(), RP.request_id(ver, typ, shf, apid, fl, cnt).hex()))


def observe_rid(r):
    p, s = r.tc_packet_id, r.tc_psc
    return (bytes(r.pack()), r.as_u32(), int(r.ccsds_version), int(p.ptype), int(bool(p.sec_header_flag)), int(p.apid), int(s.seq_flags), int(s.seq_count),
            p.raw(), s.raw())


RID_OBS = ("pack", "as_u32", "ccsds_version", "packet-type", "sec-hdr-flag", "apid", "seq-flags", "seq-count", "tc_packet_id.raw", "tc_psc.raw")


def _rid_pure(r):
    p, q = r.tc_packet_id, r.tc_psc
    return (int(r.ccsds_version), int(p.ptype), int(bool(p.sec_header_flag)), int(p.apid), int(q.seq_flags), int(q.seq_count))


def _rid_keeper(rec):
    k = getattr(rec, "_rid_keeper", None)
    if k is None:
        from mc.alias import Keeper
        k = rec._rid_keeper = Keeper(rec, "C15", depth=8, live=True)
    return k


def check_rid(rec: Rec, w0, w1, dl, other, nontrivial=True):
    """all routes to one 32-bit value (w0 << 16 | w1) against the reference octets and each other; `other` is a
    different 32-bit value that must compare unequal"""
    ver, typ, shf, apid, fl, cnt = rid_fields(w0, w1)
    ref4 = RP.request_id(ver, typ, shf, apid, fl, cnt)
    u32 = w0 << 16 | w1
    case = {"kind": "rid", "w": [w0, w1], "dl": dl, "other": other}
    routes = RID_ROUTES if typ == 1 else RID_ROUTES[:4]
    rec.case(nontrivial, ops=6 * len(routes) + 4)
    feat = "/ver!=0" if ver else ""
    if u32 % 8191 == 5 and ver:
        rec.sample({"request_id_fields": dict(zip(RID_FIELDS, (ver, typ, shf, apid, fl, cnt))), "expected_octets": ref4.hex(), "expected_u32": u32,
                    "routes": list(routes), "must_differ_from": "%08x" % other}, limit=1)

    def bad(kind, observed=None, expected=None, feature=""):
        rec.violation("C15." + kind + feature, case, observed, expected, repro=rid_repro(w0, w1))

    exp = (ref4, u32, ver, typ, shf, apid, fl, cnt, w0 & 0x1FFF, w1)
    objs, fails = [], []
    for route in routes:
        try:
            r = build_rid(route, w0, w1, dl)
            obs = observe_rid(r)
        except Exception as e:
            fails.append((route, "exception/" + type(e).__name__, repr(e)))
            continue
        if obs != exp:
            fails.append((route, next(n for n, a, b in zip(RID_OBS, obs, exp) if a != b), obs))
            continue
        objs.append((route, r))
    # independence oracle (mc/alias.py): request IDs and the very objects pack() returned for EARLIER values must not
    # have changed (shared output buffers, cached templates); pure attribute reads only
    keep = _rid_keeper(rec)
    keep.recheck(case)
    for route, r in objs[:2]:
        try:
            keep.hold("RequestId.pack", r.pack(), bytes, case)
            keep.hold("RequestId." + route.split("(")[0], r, _rid_pure, case)
        except Exception:
            pass
    if len(fails) == len(routes) and len(set(f[1] for f in fails)) == 1:  # every route fails the same way: one defect site, one signature
        bad("reqid/RequestId/" + fails[0][1], {"routes": "all", "observed": fails[0][2]}, exp, feat)
    else:
        for route, what, obs in fails:
            bad("reqid/RequestId.%s/%s" % (route, what), obs, exp, feat)
    if not objs:
        return
    r0name, r0 = objs[0]
    for route, r in objs[1:]:
        try:
            if not (r0 == r and r == r0) or (r0 != r) or (r != r0):
                bad("equal/RequestId/same-bits-compare-unequal", [r0name, route], "equal")
            if hash(r0) != hash(r):
                bad("hash/RequestId/equal-ids-hash-differently", [r0name, route, hash(r0), hash(r)], "equal hashes")
        except Exception as e:
            bad("equal/RequestId/exception/" + type(e).__name__, repr(e))
    try:
        if hash(r0) != hash(r0) or not r0 == r0:
            bad("hash/RequestId/not-stable")
        o = build_rid("unpack", other >> 16, other & 0xFFFF)
        last = objs[-1][1]
        if (r0 == o) or (o == last) or not (r0 != o) or not (o != last):
            bad("equal/RequestId/different-bits-compare-equal", ["%08x" % u32, "%08x" % other], "unequal")
    except Exception as e:
        bad("equal/RequestId/exception/" + type(e).__name__, repr(e))
    rec.outcome("rid-ok/routes=%d/ver%s0" % (len(objs), "!=" if ver else "="))


_HASHDEP = {}  # bit -> [pairs (base, base ^ bit) with equal hashes, pairs]: the weak form "the hash does not ignore a field"


def check_hash_uses_every_bit(rec: Rec):
    """equal IDs hash equally (judged per pair); the other direction cannot be demanded pair by pair (collisions are legal), but a hash
    under which EVERY pair that differs in one particular bit collides does not depend on that bit - then 'equal iff the same 32
    bits, with equal hashes' holds in one direction only"""
    for k, (same, total) in sorted(_HASHDEP.items()):
        if total >= 8 and same == total:
            rec.violation("C15.hash/RequestId.__hash__/ignores-field=" + bit_field(k), {"kind": "hashdep", "bit": k, "pairs": total},
                          f"all {total} pairs differing only in bit {k} have equal hashes", "the hash depends on every bit of the request ID")
    _HASHDEP.clear()


def check_neigh(rec: Rec, base, nontrivial=True):
    """all 32 single-bit neighbours of `base` must be unequal to it (hash inequality is NOT demanded)"""
    case = {"kind": "neigh", "base": base}
    rec.case(nontrivial, ops=32 * 4 + 2)
    w0, w1 = base >> 16, base & 0xFFFF
    try:
        b = build_rid("constructor", w0, w1)
        b2 = build_rid("unpack", w0, w1)
        if not (b == b2 and b2 == b) or hash(b) != hash(b2):
            rec.violation("C15.equal/RequestId/same-bits-compare-unequal-or-hash-differently", case, ["constructor", "unpack"], "equal, equal hashes",
                          repro=rid_repro(w0, w1))
    except Exception as e:
        rec.violation("C15.equal/RequestId/neighbours/exception/" + type(e).__name__, case, repr(e))
        return
    for k in range(32):
        n32 = base ^ (1 << k)
        route = RID_ROUTES[k % 3]
        try:
            n = build_rid(route, n32 >> 16, n32 & 0xFFFF)
            same = (b == n) or (n == b) or (b2 == n) or not (b != n) or not (n != b)
        except Exception as e:
            rec.violation("C15.equal/RequestId/neighbours/exception/" + type(e).__name__, case, repr(e))
            continue
        try:
            st = _HASHDEP.setdefault(k, [0, 0])
            st[1] += 1
            st[0] += hash(b) == hash(n)
        except Exception:  # noqa: BLE001 - hashability is judged elsewhere
            pass
        if same:
            rec.violation("C15.equal/RequestId/single-bit-neighbour-compares-equal/field=" + bit_field(k), case,
                          {"base": "%08x" % base, "neighbour": "%08x" % n32, "bit": k, "neighbour_route": route}, "unequal",
                          repro="from spacepackets.ecss.req_id import RequestId; print(RequestId.unpack(bytes.fromhex('%08x')) == RequestId.unpack(bytes.fromhex('%08x')), 'expected False')"
                                % (base, n32))
        else:
            rec.outcome("neighbour-unequal/" + bit_field(k))
    rec.count("neighbour_pairs", 32)


def check_empty(rec: Rec):
    L = lib()
    case = {"kind": "empty"}
    rec.case(True, ops=4)
    try:
        e = L.RequestId.empty()
        obs = (bytes(e.pack()), e.as_u32())
        if obs != (bytes(4), 0):
            rec.violation("C15.reqid/RequestId.empty/value", case, obs, (bytes(4), 0))
        z = L.RequestId.unpack(bytes(4))
        if not (e == z and z == e) or hash(e) != hash(z):
            rec.violation("C15.equal/RequestId.empty/not-equal-to-decoded-zero", case)
        rec.outcome("empty-ok")
    except Exception as ex:
        rec.violation("C15.reqid/RequestId.empty/exception/" + type(ex).__name__, case, repr(ex))


# ================================================================================ Service1Tm
def report_kind(sub):
    return ("step-" if RP.srv1_has_step(sub) else "") + ("failure" if RP.srv1_has_failure(sub) else "success")


def tc_headers(tier):
    """(apid, seq count, version, route to the PusTc object)"""
    if tier == "quick":
        hs = [(E11[i], E14[(3 * i + j) % 8], (0, 5)[(i + j) % 2]) for j in (0, 1) for i in range(8)]
    else:
        diag = [(E11[i], E14[(3 * i + j) % 8], (0, 5)[(i + j) % 2]) for j in (0, 1) for i in range(8)]
        hs = diag + [h for h in itertools.product(E11, E14, (0, 5)) if h not in diag]  # the 16 diagonal headers first
    out = []
    for i, (apid, seq, ver) in enumerate(hs):
        route = ("ctor", "unpack", "from_sp_header")[i % 3] if ver == 0 else ("unpack", "from_sp_header")[i % 2]
        out.append([apid, seq, ver, route])
    return out


BASE_DATA_LENS = [0, 1, 3, 200]
EXTRA_DATA_LENS = [2, 8, 1000]  # thorough only, over the 16 diagonal headers


def data_lens(tier):
    return BASE_DATA_LENS if tier == "quick" else BASE_DATA_LENS + EXTRA_DATA_LENS


def tm_diag(i):
    """TM header fields of the constructor route: [apid, seq count, packet version, time ref, destination id]"""
    return [E11[i % 8], E14[(3 * i + 1) % 8], (5 * i) % 8, E4[(5 * i + 2) % 8], E16[(7 * i + 3) % 8]]


def build_tc(tc):
    L = lib()
    sp = L.sp
    apid, seq, ver, route = tc
    if route == "ctor":
        assert ver == 0
        return L.PusTc(17, 1, apid=apid, seq_count=seq)
    if route == "unpack":
        return L.PusTc.unpack(RP.tc(17, 1, apid, seq, version=ver))
    if route == "from_sp_header":
        return L.PusTc.from_sp_header(sp.SpacePacketHeader(sp.PacketType.TC, apid, seq, 0, True, sp.SequenceFlags.UNSEGMENTED, ver), 17, 1)
    raise AssertionError(route)


DECODERS = ("Service1Tm.unpack", "Service1Tm.from_tm")
S1_OBS = ("service", "subservice", "tc_req_id.pack", "tc_req_id.as_u32", "step_id", "error_code", "failure_notice", "source_data", "timestamp",
          "has_failure_notice", "is_step_reply", "apid", "seq_count", "packet_version", "time_ref", "dest_id")


def observe_s1(t):
    h = t.pus_tm.pus_tm_sec_header
    step = None if t.step_id is None else [int(t.step_id.val), int(t.step_id.pfc), t.step_id.len()]
    fn = t.failure_notice
    code = t.error_code
    return (t.service, int(t.subservice), bytes(t.tc_req_id.pack()), t.tc_req_id.as_u32(), step,
            None if code is None else [int(code.val), int(code.pfc), code.len()],
            None if fn is None else [int(fn.code.val), int(fn.code.pfc), short(bytes(fn.data))],
            short(bytes(t.source_data)), bytes(t.timestamp), bool(t.has_failure_notice), bool(t.is_step_reply),
            t.pus_tm.apid, t.pus_tm.seq_count, t.ccsds_version, int(h.spacecraft_time_ref), h.dest_id)


def s1_region(raw, ref, T, sw, ew):
    if len(raw) != len(ref):
        return "length"
    i = next(i for i in range(len(ref)) if raw[i] != ref[i])
    if i >= len(ref) - 2:
        return "crc"
    for name, end in (("primary-header", 6), ("secondary-header", 13), ("timestamp", 13 + T), ("request-id", 17 + T), ("step-id", 17 + T + sw),
                      ("error-code", 17 + T + sw + ew)):
        if i < end:
            return name
    return "failure-data"


def s1_repro(c):
    apid_tc, seq_tc, ver_tc, _ = c["tc"]
    step, fail = c["step"], c["fail"]
    tmf = c["tm"]
    lines = [
        "from spacepackets.ecss import PusTc, PacketFieldEnum, RequestId",
        "from spacepackets.ecss.pus_1_verification import *",
        "tc = PusTc.unpack(bytes.fromhex(%r))" % RP.tc(17, 1, apid_tc, seq_tc, version=ver_tc).hex(),
        "step = %s" % ("PacketFieldEnum.with_byte_size(%d, %d)" % (step[1], step[0]) if step else "None"),
        "fn = %s" % ("FailureNotice(PacketFieldEnum.with_byte_size(%d, %d), bytes.fromhex(%r))" % (fail[0][1], fail[0][0], payload(*fail[1]).hex()[:400])
                     if fail else "None"),
        "tm = Service1Tm(apid=%d, subservice=Subservice(%d), timestamp=bytes.fromhex(%r), verif_params=VerificationParams(RequestId.from_pus_tc(tc), step, fn), "
        "seq_count=%d, packet_version=%d, space_time_ref=%d, destination_id=%d)" % (tmf[0], c["sub"], STAMP[:c["tslen"]].hex(), tmf[1], tmf[2], tmf[3], tmf[4]),
        "u = Service1Tm.unpack(tm.pack(), UnpackParams(%d, %d, %d))" % (c["tslen"], c["usw"], c["uew"]),
        "print(bytes(tm.pack()).hex()); print(u == tm, u.tc_req_id, u.step_id, u.error_code, u.failure_notice)",
    ]
    return "\n".join(lines)


def check_s1(rec: Rec, c, nontrivial=True):
    """the fixed script for one service-1 report"""
    L = lib()
    s1 = L.s1
    sub, route = c["sub"], c["route"]
    step, fail = c["step"], c["fail"]
    T = c["tslen"]
    ts = STAMP[:T]
    apid_tc, seq_tc, ver_tc, tcroute = c["tc"]
    tmf = c["tm"]
    assert (step is not None) == RP.srv1_has_step(sub) and (fail is not None) == RP.srv1_has_failure(sub)
    assert route == "ctor" or tmf[1:] == [0, 0, 0, 0]
    rid4 = RP.request_id_of_tc(RP.tc(17, 1, apid_tc, seq_tc, version=ver_tc))
    data = payload(*fail[1]) if fail else b""
    ref_step = tuple(step) if step else None
    ref_fail = (tuple(fail[0]), data) if fail else None
    src = RP.srv1_source_data(rid4, ref_step, ref_fail)
    ref = RP.srv1_tm(sub, rid4, ref_step, ref_fail, ts, tmf[0], tmf[1], tmf[3], tmf[4], tmf[2])
    sw, ew = (step[1] if step else 0), (fail[0][1] if fail else 0)
    kind = report_kind(sub)
    entry = HELPERS[sub] if route == "helper" else "Service1Tm()"
    case = dict(c, kind="s1")
    rec.case(nontrivial, ops=24 + (6 if fail else 0))
    rec.count("s1_reports_sub%d_%s" % (sub, route))
    if len(ref) <= 48 and ver_tc and (step or fail):
        rec.sample({"service1_report": {"subservice": sub, "via": entry, "tc_header": {"apid": apid_tc, "seq_count": seq_tc, "version": ver_tc, "built_by": tcroute},
                                        "step_id[value,octets]": step, "failure[[code,octets],data]": [fail[0], data.hex()] if fail else None, "timestamp": ts.hex(),
                                        "tm[apid,seq,version,time_ref,dest]": tmf},
                    "expected_source_data": src.hex(), "expected_octets": ref.hex(), "decoded_with_UnpackParams": [T, c["usw"], c["uew"]]}, limit=1)

    def bad(kindsig, observed=None, expected=None):
        rec.violation("C15.srv1/" + kindsig, case, observed, expected, repro=s1_repro(c))

    # ---- build
    try:
        tc = build_tc(c["tc"])
        if route == "helper":
            step_obj = L.PFE.with_byte_size(step[1], step[0]) if step else None
            fn = s1.FailureNotice(L.PFE.with_byte_size(fail[0][1], fail[0][0]), data) if fail else None
            args = [tmf[0], tc] + ([step_obj] if step else []) + ([fn] if fail else []) + [ts]
            tm = getattr(s1, HELPERS[sub])(*args)
            rid = L.RequestId.from_sp_header(tc.sp_header)
        else:
            step_obj = L.PFE(8 * step[1], step[0]) if step else None
            fn = s1.FailureNotice(L.PFE(8 * fail[0][1], fail[0][0]), data) if fail else None
            rid = L.RequestId.from_pus_tc(tc)
            vp = s1.VerificationParams(rid, step_obj, fn)
            tm = s1.Service1Tm(apid=tmf[0], subservice=s1.Subservice(sub), timestamp=ts, verif_params=vp, seq_count=tmf[1], packet_version=tmf[2],
                               space_time_ref=tmf[3], destination_id=tmf[4])
            if bytes(vp.pack()) != src or vp.len() != len(src):
                bad("VerificationParams.pack/source-data/" + kind, [short(bytes(vp.pack())), vp.len()], [short(src), len(src)])
        if bytes(rid.pack()) != rid4:
            bad("request-id-of-tc/tc-route=" + tcroute, bytes(rid.pack()), rid4)
        raw = bytes(tm.pack())
    except Exception as e:
        return bad("%s/exception/%s" % (entry if route == "ctor" else "create_*_tm", type(e).__name__), repr(e), short(ref))
    if bytes(tm.source_data) != src:
        pad = bytes(13 + T)  # reuse the region names of the whole packet
        return bad("source-data/" + kind + "/" + s1_region(pad + bytes(tm.source_data) + b"\0\0\0", pad + src + b"\0\0\0", T, sw, ew),
                   short(bytes(tm.source_data)), short(src))
    if raw != ref:
        return bad("pack/octets/" + s1_region(raw, ref, T, sw, ew), short(raw), short(ref))
    exp = (1, sub, rid4, int.from_bytes(rid4, "big"), [step[0], 8 * sw, sw] if step else None, [fail[0][0], 8 * ew, ew] if fail else None,
           [fail[0][0], 8 * ew, short(data)] if fail else None, short(src), ts, bool(fail), bool(step), tmf[0], tmf[1], tmf[2], tmf[3], tmf[4])
    try:
        obs = observe_s1(tm)
        if obs != exp:
            name = next(n for n, a, b in zip(S1_OBS, obs, exp) if a != b)
            bad("constructed/accessor=" + name, obs, exp)
    except Exception as e:
        bad("constructed/accessors/exception/" + type(e).__name__, repr(e))
    if fail:  # the notice on its own: code || data with the declared width
        try:
            if bytes(fn.pack()) != src[4 + sw:] or fn.len() != ew + len(data):
                bad("FailureNotice.pack/octets", [short(bytes(fn.pack())), fn.len()], [short(src[4 + sw:]), ew + len(data)])
            for how, g in (("to-end", s1.FailureNotice.unpack(src[4 + sw:], ew)), ("bounded", s1.FailureNotice.unpack(src[4 + sw:] + b"\xee\xee", ew, len(data)))):
                got = (int(g.code.val), int(g.code.pfc), bytes(g.data))
                if got != (fail[0][0], 8 * ew, data):
                    bad("FailureNotice.unpack/fields/" + how, [got[0], got[1], short(got[2])], [fail[0][0], 8 * ew, short(data)])
        except Exception as e:
            bad("FailureNotice/exception/" + type(e).__name__, repr(e))
    # ---- decode with matching widths, two entry points
    params = s1.UnpackParams(T, c["usw"], c["uew"])
    params_before = dict(vars(params))
    assert (not step or c["usw"] == sw) and (not fail or c["uew"] == ew)
    found = []  # (decoder, signature tail, observed, expected)
    # the caller's UnpackParams is ONE object used for every decode of a stream: both entry points, twice each, get the same
    # object, and it must come back unchanged
    for dname in DECODERS + DECODERS:
        try:
            if dname == "Service1Tm.unpack":
                u = s1.Service1Tm.unpack(ref, params)
            else:
                u = s1.Service1Tm.from_tm(L.PusTm.unpack(ref, T), params)
            obs = observe_s1(u)
        except Exception as e:
            found.append((dname, "decode/exception/" + type(e).__name__, repr(e), None))
            continue
        if obs != exp:
            found.append((dname, "decode/field=" + next(n for n, a, b in zip(S1_OBS, obs, exp) if a != b), obs, exp))
            continue
        try:
            if not (u.tc_req_id == rid and rid == u.tc_req_id) or hash(u.tc_req_id) != hash(rid):
                found.append((dname, "decoded/request-id-not-equal-or-hashes-unlike-the-original",
                              {"==": u.tc_req_id == rid, "hashes": [hash(u.tc_req_id), hash(rid)]}, "equal, equal hashes"))
            re = bytes(u.pack())
            if re != ref:
                found.append((dname, "inverse/unpack-then-pack/octets/" + s1_region(re, ref, T, sw, ew), short(re), short(ref)))
            if not (u == tm and tm == u):
                differs = []
                if not (u.pus_tm == tm.pus_tm):
                    differs.append("pus_tm")
                if not (u._verif_params.req_id == tm._verif_params.req_id):
                    differs.append("req_id")
                if not (u._verif_params.step_id == tm._verif_params.step_id):
                    differs.append("step_id")
                if not (u._verif_params.failure_notice == tm._verif_params.failure_notice):
                    differs.append("failure_notice")
                found.append((dname, "inverse/decoded-not-equal-original/differs=" + ("+".join(differs) or "unknown"),
                              {"decoded == original": u == tm, "original == decoded": tm == u, "all decoded fields equal by value": True},
                              "decoded report == original (both directions)"))
            rec.outcome("s1-roundtrip/%s/sub%d/equal=%s" % (dname, sub, u == tm))
        except Exception as e:
            found.append((dname, "inverse/exception/" + type(e).__name__, repr(e), None))
    if dict(vars(params)) != params_before:
        bad("decode/caller-UnpackParams-modified", dict(vars(params)), params_before)
    # a report is a value: what the caller does to ITS objects after the report was built does not change the report
    if route != "helper":
        try:
            if step_obj is not None:
                step_obj.val = (step_obj.val + 1) % (1 << (8 * sw))
            if fn is not None:
                fn.code.val = (fn.code.val + 1) % (1 << (8 * ew))
            vp.req_id = L.RequestId.unpack(bytes([rid4[0] ^ 0x01, rid4[1], rid4[2], rid4[3] ^ 0x01]))
            later = bytes(tm.pack())
            if later != ref:
                bad("built-report-follows-the-callers-objects/" + s1_region(later, ref, T, sw, ew), short(later), short(ref))
        except Exception as e:
            bad("built-report-follows-the-callers-objects/exception/" + type(e).__name__, repr(e))
    # both entry points share the parsing code: the same failure through both is one defect site -> one signature
    found = [f for i, f in enumerate(found) if f not in found[:i]]
    tails = D.dedupe([f[1] for f in found])
    for tail in tails:
        who = [f for f in found if f[1] == tail]
        if len({f[0] for f in who}) == len(DECODERS):
            bad(tail, {"decoders": list(DECODERS), "observed": who[0][2]}, who[0][3])
        else:
            bad(tail + "/only-through=" + who[0][0], who[0][2], who[0][3])


# ---------------------------------------------------------------------------------- refusal
# the last two: the subservice handed over as a plain int (what a decoded report's .subservice or a loop over 1..8 gives) instead of the enum member
REFUSE_ENTRIES = ("VerificationParams.verify_against_subservice", "Service1Tm()", "VerificationParams.verify_against_subservice(int)", "Service1Tm(int)")


def check_refuse(rec: Rec, sub, step, fail, T, entry):
    """step: [val, w] | None; fail: [[code, w], datalen] | None.  Matching sets are accepted, all others refused."""
    L = lib()
    s1 = L.s1
    valid = (step is not None) == RP.srv1_has_step(sub) and (fail is not None) == RP.srv1_has_failure(sub)
    case = {"kind": "refuse", "sub": sub, "step": step, "fail": fail, "tslen": T, "entry": entry}
    rec.case(True, ops=1)
    given = ("step" if step else "no-step") + "+" + ("notice" if fail else "no-notice")
    sig_tail = "%s/report=%s/given=%s" % (entry, report_kind(sub), given)
    repro = ("from spacepackets.ecss import PacketFieldEnum, RequestId; from spacepackets.ecss.pus_1_verification import *; "
             "Service1Tm(apid=1, subservice=Subservice(%d), timestamp=bytes(%d), verif_params=VerificationParams(RequestId.empty(), %s, %s))"
             % (sub, T, "PacketFieldEnum.with_byte_size(%d, %d)" % (step[1], step[0]) if step else "None",
                "FailureNotice(PacketFieldEnum.with_byte_size(%d, %d), bytes(%d))" % (fail[0][1], fail[0][0], fail[1]) if fail else "None"))
    rid = build_rid("constructor", 0x1801, 0xC016)
    vp = s1.VerificationParams(rid, L.PFE.with_byte_size(step[1], step[0]) if step else None,
                               s1.FailureNotice(L.PFE.with_byte_size(fail[0][1], fail[0][0]), payload(fail[1])) if fail else None)
    try:
        subv = int(sub) if entry.endswith("(int)") else s1.Subservice(sub)
        if entry.startswith(REFUSE_ENTRIES[0]):
            vp.verify_against_subservice(subv)
        else:
            s1.Service1Tm(apid=1, subservice=subv, timestamp=STAMP[:T], verif_params=vp).pack()
    except (s1.InvalidVerifParams, ValueError) as e:
        rec.outcome("refuse:%s/%s" % (type(e).__name__, "valid" if valid else "mismatch"))
        if valid:
            rec.violation("C15.refuse/matching-parameters-refused/" + sig_tail, case, repr(e), "accepted", repro=repro)
        return
    except Exception as e:
        rec.violation("C15.refuse/undocumented-exception/%s/%s" % (type(e).__name__, sig_tail), case, repr(e), "InvalidVerifParams" if not valid else "accepted", repro=repro)
        return
    rec.outcome("accept/" + ("valid" if valid else "MISMATCH"))
    if not valid:
        rec.violation("C15.refuse/mismatching-parameters-accepted/" + sig_tail, case, "accepted", "InvalidVerifParams", repro=repro)


def refuse_space():
    steps = [None] + [[D.edge(8 * w)[1 + i], w] for i, w in enumerate(WIDTHS)]
    fails = [None] + [[[D.edge(8 * w)[5 - i], w], n] for i, w in enumerate(WIDTHS) for n in (0, 2)]
    return [(sub, st, fl, T, e) for sub in range(1, 9) for st in steps for fl in fails for T in (0, 7) for e in REFUSE_ENTRIES]


# ========================================================================= PacketFieldEnum
def check_pfe(rec: Rec, w, val, nontrivial=True, subclasses=False):
    L = lib()
    P = L.PFE
    pfc = 8 * w
    ref = RP.uint(val, w)
    case = {"kind": "pfe", "w": w, "val": str(val)}
    rec.case(nontrivial, ops=9 + (2 if subclasses else 0))

    def bad(kind, observed=None, expected=None):
        rec.violation("C15.field/PacketFieldEnum/" + kind, case, observed, expected,
                      repro="from spacepackets.ecss import PacketFieldEnum; f = PacketFieldEnum(%d, %d); print(bytes(f.pack()).hex(), 'expected %s'); "
                            "print(PacketFieldEnum.unpack(bytes.fromhex('%s'), %d))" % (pfc, val, ref.hex(), ref.hex(), pfc))

    try:
        f = P(pfc, val)
        raw = bytes(f.pack())
        if raw != ref:
            return bad("pack/octets/w=%d" % w, raw, ref)
        if f.len() != w or P.check_pfc(pfc) != w or int(f.pfc) != pfc or int(f.ptc) != 2:
            bad("len-or-check_pfc", [f.len(), P.check_pfc(pfc), int(f.pfc), int(f.ptc)], [w, w, pfc, 2])
        u = P.unpack(ref + b"\xee", pfc)
        if (int(u.val), int(u.pfc), u.len()) != (val, pfc, w):
            return bad("unpack/fields/w=%d" % w, [int(u.val), int(u.pfc), u.len()], [val, pfc, w])
        if bytes(u.pack()) != ref:
            bad("unpack-then-pack/octets", bytes(u.pack()), ref)
        g = P.with_byte_size(w, val)
        if not (u == f and f == u and g == f) or bytes(g.pack()) != ref:
            bad("decoded-or-with_byte_size-not-equal-original")
        if subclasses and w in L.PFU:
            s = L.PFU[w](val)
            if bytes(s.pack()) != ref or not (s == f) or int(s.pfc) != pfc:
                bad("PacketFieldU%d/octets" % pfc, bytes(s.pack()), ref)
    except Exception as e:
        return bad("exception/" + type(e).__name__, repr(e), ref)
    try:  # one octet short: documented BytesTooShortError
        P.unpack(ref[:-1], pfc)
        bad("unpack/short-input-accepted/w=%d" % w, None, "BytesTooShortError")
    except ValueError:
        pass
    except Exception as e:
        bad("unpack/short-input/undocumented-exception/" + type(e).__name__, repr(e), "BytesTooShortError")


def check_pfe_fit(rec: Rec, w, val):
    """a value that does not fit the declared width must not be encoded"""
    P = lib().PFE
    case = {"kind": "pfe-fit", "w": w, "val": str(val)}
    rec.case(True, ops=1)
    try:
        raw = bytes(P(8 * w, val).pack())
    except Exception as e:
        rec.outcome("fit-refused:" + type(e).__name__)
        return
    rec.violation("C15.field/PacketFieldEnum/value-wider-than-declared-width-encoded/w=%d" % w, case, raw, "an exception",
                  repro="from spacepackets.ecss import PacketFieldEnum; print(PacketFieldEnum(%d, %d).pack())" % (8 * w, val))


SUPPORTED = (1, 2, 4, 8)
PFC_ENTRIES = ("check_pfc", "PacketFieldEnum()", "unpack", "len-after-pfc-assignment", "pack-after-pfc-assignment")


def pfc_class(pfc):
    if pfc % 8 == 0:
        return "supported" if pfc // 8 in SUPPORTED else "refuse"
    lo, hi = pfc // 8, -(-pfc // 8)
    return "unjudged" if (lo in SUPPORTED or hi in SUPPORTED) else "refuse"


def check_pfc(rec: Rec, pfc, entry):
    P = lib().PFE
    cls = pfc_class(pfc)
    case = {"kind": "pfc", "pfc": str(pfc), "entry": entry}
    rec.case(cls != "unjudged", ops=1)

    def call():
        if entry == "check_pfc":
            return P.check_pfc(pfc)
        if entry == "PacketFieldEnum()":
            return P(pfc, 0).pfc
        if entry == "unpack":
            return P.unpack(bytes(600), pfc).pfc
        f = P(8, 1)
        f.pfc = pfc
        return f.len() if entry == "len-after-pfc-assignment" else bytes(f.pack())

    try:
        r = call()
    except ValueError as e:
        rec.outcome("pfc-%s:refused" % cls)
        if cls == "supported":
            rec.violation("C15.pfc/PacketFieldEnum.%s/supported-pfc-refused" % entry, case, repr(e), "accepted")
        return
    except Exception as e:
        rec.outcome("pfc-%s:%s" % (cls, type(e).__name__))
        if cls != "unjudged":
            rec.violation("C15.pfc/PacketFieldEnum.%s/undocumented-exception/%s" % (entry, type(e).__name__), case, repr(e), "ValueError")
        return
    rec.outcome("pfc-%s:accepted" % cls)
    if cls == "unjudged":
        rec.count("pfc_not_byte_aligned_but_accepted(not judged)")
    if cls == "refuse":
        rec.violation("C15.pfc/PacketFieldEnum.%s/unsupported-pfc-accepted" % entry, case, r, "ValueError",
                      repro="from spacepackets.ecss import PacketFieldEnum; print(PacketFieldEnum.check_pfc(%d))" % pfc)


def pfc_values(tier):
    if tier == "quick":
        return list(range(0, 301)) + list(range(-1, -65, -1))
    out = list(range(0, 4097)) + list(range(-1, -4097, -1))
    for k in range(12, 71):
        out += [1 << k, (1 << k) + 1, -(1 << k), (1 << k) - 1]
    return D.dedupe(out)


def lane_values(w, lane_bits, k):
    """every value of each lane (octet or 16-bit half-word) of a w-octet field in k backgrounds of the other lanes"""
    n = 8 * w // lane_bits
    bgs = D.backgrounds(8 * w, k)
    m = (1 << lane_bits) - 1
    for lane in range(n):
        sh = lane * lane_bits
        for bg in bgs:
            base = bg & ~(m << sh)
            for v in range(1 << lane_bits):
                yield base | (v << sh)


# ================================================================================== units
def check_unit(rec: Rec, uname, idx, tier):
    """the shared corpus of the unit registry (the packets C04/C09/C10 start from) is encoded and decoded correctly"""
    from units.pus import UNITS

    unit = UNITS[uname]
    r = unit.corpus(tier)[idx]
    case = {"kind": "unit", "unit": uname, "idx": idx, "tier": tier}
    rec.case(True, ops=2 + len(unit.decoders()))
    try:
        ref = unit.ref(r)
        raw = bytes(unit.build(r).pack())
        if raw != ref:
            rec.violation("C15.units/%s/encode/octets" % uname, case, short(raw), short(ref))
            return
        for dname, dec in unit.decoders():
            obs, exp = unit.observe(dec(ref, r)), unit.expected(r)
            if obs != exp:
                rec.violation("C15.units/%s/decode/%s/fields" % (uname, dname), case, [short(x) for x in obs], [short(x) for x in exp])
        rec.outcome("unit-ok/" + uname)
    except Exception as e:
        rec.violation("C15.units/%s/exception/%s" % (uname, type(e).__name__), case, repr(e), {"recipe": r})


# ================================================================================= shards
def neigh_bases(tier):
    al = D.edge(16) if tier == "quick" else D.walk(16)
    return D.dedupe(D.walk(32) + [hi << 16 | lo for hi in al for lo in al])


def s1_parts(tier, sw, ew):
    """the parts of the service-1 enumeration for one width combination:
    (step values, error code values, number of TC headers (None = all), failure data lengths)"""
    es = D.edge(8 * sw) if sw else [None]
    ee = D.edge(8 * ew) if ew else [None]
    parts = [(es, ee, None, BASE_DATA_LENS)]
    if tier == "thorough":
        if ew:
            parts.append((es, ee, 16, EXTRA_DATA_LENS))
        if sw:  # every bit of the step ID in both polarities; walk values that are edge values were produced by the first part
            parts.append(([v for v in D.walk(8 * sw) if v not in es], ee, 4, [0, 3]))
        if ew:
            parts.append((es, [v for v in D.walk(8 * ew) if v not in ee], 4, [0, 3]))
    return parts


# -- RequestId histories: its fields are public and assignable; observers may fill caches (read-then-set-then-read) ---------
RIDH_BASES = [(0x1822, 0xC011), (0xF7FF, 0x3FFE)]
RIDH_OBSERVERS = ["as_u32", "pack", "hash", "eq", "repr"]
RIDH_MUTATORS = ["ver=0", "ver=5", "psc.count=1", "psc.count=16383", "psc.flags=0", "psc.flags=2", "pid.apid=0", "pid.apid=2047",
                 "pid.type^", "pid.shf^", "psc=new", "pid=new"]


def ridh_events():
    return RIDH_OBSERVERS + RIDH_MUTATORS


def check_rid_history(rec: Rec, base, route, seq):
    """after any sequence of field assignments and reads, the packed form, the 32-bit form, equality and hash of a
    RequestId are those of its CURRENT field values (model: a plain list of the six fields)"""
    L = lib()
    sp = L.sp
    w0, w1 = base
    case = {"kind": "ridhist", "base": [w0, w1], "route": route, "seq": list(seq)}
    rec.case(True, ops=len(seq) + 6)
    try:
        r = build_rid(route, w0, w1)
    except Exception:
        return  # judged by check_rid
    m = list(rid_fields(w0, w1))  # ver, typ, shf, apid, flags, count
    last = "start"

    def fresh(f):
        return L.RequestId(sp.PacketId(sp.PacketType(f[1]), bool(f[2]), f[3]), sp.PacketSeqCtrl(sp.SequenceFlags(f[4]), f[5]), f[0])

    def observe(what):
        ref4 = RP.request_id(*m)
        try:
            if what == "as_u32":
                got, exp = r.as_u32(), int.from_bytes(ref4, "big")
            elif what == "pack":
                got, exp = bytes(r.pack()), ref4
            elif what == "hash":
                got, exp = hash(r) == hash(fresh(m)), True
            elif what == "eq":
                other = list(m)
                other[5] ^= 1
                got = (bool(r == fresh(m)), bool(fresh(m) == r), bool(r == fresh(other)), bool(fresh(other) == r))
                exp = (True, True, False, False)
            else:
                try:  # only called because it may fill caches; the textual form is not part of the property
                    repr(r)
                    str(r)
                except Exception:
                    pass
                return True
        except Exception as e:
            rec.violation(f"C15.history/RequestId.{what}/exception/after-{last}", case, type(e).__name__ + ": " + str(e)[:100], None)
            return False
        if got != exp:
            rec.violation(f"C15.history/RequestId.{what}/not-of-the-current-field-values/after-{last}", case, got, exp,
                          repro=f"# RequestId for words {w0:#06x} {w1:#06x} built by {route}; events {list(seq)}; see checks/c15.py check_rid_history")
            return False
        return True

    for ev in seq:
        if ev in RIDH_OBSERVERS:
            if not observe(ev):
                return
            continue
        try:
            if ev.startswith("ver="):
                m[0] = int(ev[4:])
                r.ccsds_version = m[0]
            elif ev.startswith("psc.count="):
                m[5] = int(ev[10:])
                r.tc_psc.seq_count = m[5]
            elif ev.startswith("psc.flags="):
                m[4] = int(ev[10:])
                r.tc_psc.seq_flags = sp.SequenceFlags(m[4])
            elif ev.startswith("pid.apid="):
                m[3] = int(ev[9:])
                r.tc_packet_id.apid = m[3]
            elif ev == "pid.type^":
                m[1] ^= 1
                r.tc_packet_id.ptype = sp.PacketType(m[1])
            elif ev == "pid.shf^":
                m[2] ^= 1
                r.tc_packet_id.sec_header_flag = bool(m[2])
            elif ev == "psc=new":
                m[4], m[5] = 1, 0x2AAA
                r.tc_psc = sp.PacketSeqCtrl(sp.SequenceFlags(1), 0x2AAA)
            elif ev == "pid=new":
                m[1], m[2], m[3] = 0, 1, 0x555
                r.tc_packet_id = sp.PacketId(sp.PacketType(0), True, 0x555)
        except Exception as e:
            rec.violation(f"C15.history/RequestId.{ev.split('=')[0]}=/exception", case, type(e).__name__ + ": " + str(e)[:100], "assignable public field")
            return
        last = "assignment"
    for what in ("as_u32", "pack", "eq", "hash"):
        if not observe(what):
            return
    rec.outcome(f"ridhist/{route}/ok")


def run_ridhist(rec: Rec, item):
    evs = ridh_events()
    n = 0
    for base in RIDH_BASES:
        for d in range(1, item["depth"] + 1):
            for seq in itertools.product(evs, repeat=d):
                if seq[0] != evs[item["first"]]:
                    continue
                if not any(e in RIDH_MUTATORS for e in seq):
                    continue
                check_rid_history(rec, tuple(base), item["route"], seq)
                n += 1
    rec.count("request_id_field_assignment_histories", n)


def shards(tier):
    k = _k(tier)
    items = []
    parts = 16 if tier == "quick" else 32
    for word in range(2):
        for p in range(parts):
            items.append({"kind": "sweep", "word": word, "lo": 65536 * p // parts, "hi": 65536 * (p + 1) // parts, "k": k})
    hp = 1 if tier == "quick" else 4
    for sw in WIDTHS:  # sub 6: step-failure, the heaviest
        for ew in WIDTHS:
            for h in range(hp):
                items.append({"kind": "s1", "sub": 6, "sw": sw, "ew": ew, "tier": tier, "hpart": h, "hparts": hp})
    for sub in (2, 4, 8):
        for ew in WIDTHS:
            items.append({"kind": "s1", "sub": sub, "sw": 0, "ew": ew, "tier": tier, "hpart": 0, "hparts": 1})
    for sw in WIDTHS:
        items.append({"kind": "s1", "sub": 5, "sw": sw, "ew": 0, "tier": tier, "hpart": 0, "hparts": 1})
    for sub in (1, 3, 7):
        items.append({"kind": "s1", "sub": sub, "sw": 0, "ew": 0, "tier": tier, "hpart": 0, "hparts": 1})
    items.append({"kind": "product", "tier": tier, "k": k})
    bases = neigh_bases(tier)
    for chunk in D.chunks(list(range(len(bases))), 2 if tier == "quick" else 8):
        items.append({"kind": "neigh", "tier": tier, "lo": chunk[0], "hi": chunk[-1] + 1})
    items.append({"kind": "refuse"})
    items.append({"kind": "pfe-full", "w": 1, "lo": 0, "hi": 256})
    for p in range(4):
        items.append({"kind": "pfe-full", "w": 2, "lo": 16384 * p, "hi": 16384 * (p + 1)})
    for w in (4, 8):
        if tier == "quick":
            items.append({"kind": "pfe-lanes", "w": w, "lane_bits": 8, "k": k, "part": 0, "parts": 1})
        else:
            for p in range(w):
                items.append({"kind": "pfe-lanes", "w": w, "lane_bits": 16, "k": k, "part": p, "parts": w})
    items.append({"kind": "pfe-walk", "tier": tier})
    items.append({"kind": "pfc", "tier": tier})
    items.append({"kind": "units", "tier": tier})
    items.append({"kind": "s1big", "tier": tier})
    for route in ("constructor", "unpack", "from_sp_header"):
        for first in range(len(ridh_events())):
            items.append({"kind": "ridhist", "route": route, "first": first, "depth": 3 if tier == "quick" else 4})
    first, rest, seen = [], [], set()
    for it in items:  # one shard of every kind first (the first six samples then show different kinds of case)
        (rest if it["kind"] in seen else first).append(it)
        seen.add(it["kind"])
    return first + rest


def s1_cases(item):
    """generator of the service-1 cases of one shard, simplest first"""
    tier, sub, sw, ew = item["tier"], item["sub"], item["sw"], item["ew"]
    hdrs = tc_headers(tier)
    n = 0
    for svals, evals, nh, dls in s1_parts(tier, sw, ew):
        for hi, tc in enumerate(hdrs[:nh] if nh else hdrs):
            if hi % item["hparts"] != item["hpart"]:
                continue
            for T in (0, 7):
                for dl in (dls if ew else [None]):
                    for sv in svals:
                        for ev in evals:
                            for route in ("helper", "ctor"):
                                n += 1
                                i = n + hi
                                yield {"sub": sub, "route": route, "tc": tc, "step": [sv, sw] if sw else None,
                                       "fail": [[ev, ew], [dl, i % 251]] if ew else None, "tslen": T,
                                       "usw": sw or WIDTHS[i % 4], "uew": ew or WIDTHS[(i // 4) % 4],
                                       "tm": tm_diag(i) if route == "ctor" else [E11[i % 8], 0, 0, 0, 0]}


def s1_big_cases():
    """the largest failure reports a space packet can carry (65542 octets in all) and the ones one octet smaller"""
    n = 0
    for sub, sw in ((2, 0), (6, 2), (8, 0), (4, 0)):
        for T in (0, 7):
            for ew in (1, 8):
                top = 65542 - 6 - 7 - T - 4 - sw - ew - 2
                for dl in (top - 1, top):
                    for route in ("helper", "ctor"):
                        n += 1
                        yield {"sub": sub, "route": route, "tc": [0x123, 0x234, 0, "ctor"], "step": [0x0102, sw] if sw else None,
                               "fail": [[(1 << (8 * ew)) - 2, ew], [dl, n % 251]], "tslen": T, "usw": sw or 1, "uew": ew,
                               "tm": tm_diag(n) if route == "ctor" else [E11[n % 8], 0, 0, 0, 0]}


def run_shard(item):
    if item.get("kind") == "s1big":
        rec = Rec(PROPERTY, item)
        for c in s1_big_cases():
            check_s1(rec, c)
            rec.count("largest_failure_reports")
        return rec.result()
    if item.get("kind") == "ridhist":
        rec = Rec(PROPERTY, item)
        run_ridhist(rec, item)
        return rec.result()
    rec = Rec(PROPERTY, item)
    kind = item["kind"]
    if kind == "sweep":
        word, k = item["word"], item["k"]
        bg = D.backgrounds(16, k)
        bgset = set(bg)
        for v in range(item["lo"], item["hi"]):
            v2 = (v + 1) & 0xFFFF
            for a in bg:
                for dl in bg:
                    w0, w1 = (v, a) if word == 0 else (a, v)
                    other = (v2 << 16 | a) if word == 0 else (a << 16 | v2)
                    check_rid(rec, w0, w1, dl, other, nontrivial=not (word == 1 and v in bgset))
        rec.count("rid_word%d_values_swept" % word, item["hi"] - item["lo"])
        sw0, sw1 = (item["lo"] | 0x2000, bg[2]) if word == 0 else (bg[2] | 0xA000, item["lo"])
        rec.sample({"request_id_sweep": {"word": word, "values": [item["lo"], item["hi"] - 1], "backgrounds_other_word_and_length_field": bg},
                    "example": {"fields": dict(zip(RID_FIELDS, rid_fields(sw0, sw1))), "expected_octets": RP.request_id(*rid_fields(sw0, sw1)).hex(),
                                "expected_u32": sw0 << 16 | sw1, "routes": list(RID_ROUTES)}}, limit=1)
    elif kind == "product":
        al = D.edge(16) if item["tier"] == "quick" else D.walk(16)
        bgset = set(D.backgrounds(16, item["k"]))
        check_empty(rec)
        for i, w0 in enumerate(al):
            for j, w1 in enumerate(al):
                other = (w0 << 16 | w1) ^ (1 << ((5 * i + 3 * j) % 32))
                check_rid(rec, w0, w1, al[(i + j) % len(al)], other, nontrivial=not (w0 in bgset or w1 in bgset))
                rec.count("rid_product_values")
    elif kind == "neigh":
        bases = neigh_bases(item["tier"])
        for b in bases[item["lo"]:item["hi"]]:
            check_neigh(rec, b)
        check_hash_uses_every_bit(rec)
        rec.count("neighbour_bases", item["hi"] - item["lo"])
        rec.sample({"neighbour_clause": "base %08x: each of the 32 values base ^ (1 << k) must compare unequal (==, != in both directions)" % bases[item["lo"] + 2]}, limit=1)
    elif kind == "s1":
        for c in s1_cases(item):
            check_s1(rec, c)
        rec.count("s1_shards_completed")
    elif kind == "refuse":
        for sub, st, fl, T, e in refuse_space():
            check_refuse(rec, sub, st, fl, T, e)
            rec.count("refusal_parameter_sets")
        rec.sample({"refusal_clause": "subservice 2 with a step ID and a failure notice", "expected": "InvalidVerifParams"}, limit=1)
    elif kind == "pfe-full":
        w = item["w"]
        wk = set(D.walk(8 * w))
        for v in range(item["lo"], item["hi"]):
            check_pfe(rec, w, v, subclasses=v in wk)
        rec.count("pfe_values_w%d" % w, item["hi"] - item["lo"])
    elif kind == "pfe-lanes":
        w, lb = item["w"], item["lane_bits"]
        seen = set()
        for i, v in enumerate(lane_values(w, lb, item["k"])):
            if i % item["parts"] != item["part"]:
                continue
            check_pfe(rec, w, v, nontrivial=v not in seen)
            seen.add(v)
        rec.count("pfe_values_w%d" % w, len(seen))
        rec.sample({"PacketFieldEnum": {"pfc": 8 * w, "val": 0xA5 << (8 * (w - 1))}, "expected_octets": RP.uint(0xA5 << (8 * (w - 1)), w).hex()}, limit=1)
    elif kind == "pfe-walk":
        for w in WIDTHS:
            m = (1 << (8 * w)) - 1
            for v in D.dedupe(D.walk(8 * w) + D.edge(8 * w)):
                check_pfe(rec, w, v, nontrivial=w > 2, subclasses=True)  # widths 1, 2 are swept completely elsewhere
            for v in D.dedupe([m + 1, m + 2, 2 * m + 1, 1 << (8 * w + 8), 1 << 70, (m + 1) | 1]):
                check_pfe_fit(rec, w, v)
    elif kind == "pfc":
        for pfc in pfc_values(item["tier"]):
            for e in PFC_ENTRIES:
                check_pfc(rec, pfc, e)
        rec.count("pfc_values", len(pfc_values(item["tier"])))
    elif kind == "units":
        from units.pus import UNITS

        for uname in UNIT_NAMES:
            for idx in range(len(UNITS[uname].corpus(item["tier"]))):
                check_unit(rec, uname, idx, item["tier"])
                rec.count("unit_corpus_" + uname)
    return rec.result()


def replay(case):
    if case.get("kind") == "ridhist":
        rec = Rec(PROPERTY, "replay")
        check_rid_history(rec, tuple(case["base"]), case["route"], case["seq"])
        return rec.result()
    rec = Rec(PROPERTY, "replay")
    case = unhex(case)
    kind = case["kind"]
    if kind == "rid":
        check_rid(rec, case["w"][0], case["w"][1], case["dl"], case["other"])
    elif kind == "neigh":
        check_neigh(rec, case["base"])
    elif kind == "hashdep":
        _HASHDEP.clear()
        for b in neigh_bases("quick")[:40]:
            check_neigh(rec, b)
        check_hash_uses_every_bit(rec)
    elif kind == "empty":
        check_empty(rec)
    elif kind == "s1":
        check_s1(rec, {k: v for k, v in case.items() if k != "kind"})
    elif kind == "refuse":
        check_refuse(rec, case["sub"], case["step"], case["fail"], case["tslen"], case["entry"])
    elif kind == "pfe":
        check_pfe(rec, case["w"], int(case["val"]), subclasses=True)
    elif kind == "pfe-fit":
        check_pfe_fit(rec, case["w"], int(case["val"]))
    elif kind == "pfc":
        check_pfc(rec, int(case["pfc"]), case["entry"])
    elif kind == "unit":
        check_unit(rec, case["unit"], case["idx"], case["tier"])
    return rec.result()


def finalize(tier, agg):
    c = agg["counters"]
    return {
        "request_id_words_swept": {"word%d" % i: "%d/65536" % c.get("rid_word%d_values_swept" % i, 0) for i in range(2)},
        "request_id_backgrounds_per_swept_value": _k(tier) ** 2,
        "request_id_routes": list(RID_ROUTES),
        "neighbour_bases": c.get("neighbour_bases", 0),
        "neighbour_pairs": c.get("neighbour_pairs", 0),
        "service1_reports_per_subservice_and_route": {k[len("s1_reports_"):]: v for k, v in sorted(c.items()) if k.startswith("s1_reports_")},
        "service1_tc_headers": len(tc_headers(tier)),
        "service1_failure_data_lengths": data_lens(tier),
        "refusal_parameter_sets": c.get("refusal_parameter_sets", 0),
        "packet_field_enum_values": {"w%d" % w: c.get("pfe_values_w%d" % w, 0) for w in WIDTHS},
        "pfc_values_probed": c.get("pfc_values", 0),
        "pfc_not_byte_aligned_but_accepted_not_judged": c.get("pfc_not_byte_aligned_but_accepted(not judged)", 0),
        "deviation_bound": "d=1 full alphabets in K^2 backgrounds (request ID, enum fields); service-1: full product of the stated alphabets",
        "observed_outcomes": sorted(agg["outcomes"])[:80],
    }
