"""C14 - CDS short timestamps (engine V).  DESIGN.md section 4, C14.

Three oracles: (1) per-case differential against ref/cds.py (stamps, from_datetime, additions,
refusals); (2) explicit-state exploration of short mutator histories (+ timedelta, read_from_raw)
on one object from five start states, observers read after every step or only at the end, the
model being an integer pair (DESIGN.md 2.3); (3) independence (mc.alias.Keeper): every stamp and
every pack() result handed out is re-observed after the following cases of the shard.

Never reads the clock: CdsShortTimestamp.now()/from_now() are not called, ms_of_today() only with an explicit argument."""

from __future__ import annotations

import datetime
from fractions import Fraction

from mc import domains as D
from mc.alias import Keeper
from mc.rec import Rec, unhex
from ref import cds as R

PROPERTY = "C14"
LEVEL = "model_checking"  # bounded-exhaustive enumeration of executions against a reference model (DESIGN.md 1, 2.1)
EXHAUSTIVE = True
RULE = (
    "a case is one of: a (day, ms) stamp [construct, pack, unpack, read_from_raw, Unix-seconds and datetime views of all "
    "three objects, strict monotonicity against the previous stamp of the ascending sweep]; a UTC datetime given to "
    "from_datetime (fields, octets, and for whole-millisecond datetimes both views); a (stamp, timedelta) addition; a "
    "refused input (P-field value or short length) through one decoder entry point; a HISTORY = (start state, sequence of "
    "mutators, observation mode): start state in {constructor, unpack, empty+read_from_raw, from_datetime, from_datetime "
    "of a datetime with 999 us beyond the millisecond}, mutators in {+ one of 11 timedeltas, + the timedelta that lands "
    "one ms before / exactly on / one ms after the next midnight of the CURRENT model value, read_from_raw of one of 2 "
    "other stamps} (16 symbols), every sequence up to the depth bound (an OverflowError ends a history), observation "
    "mode in {all observers after every step including before the first one, observers only after the last step - for "
    "every prefix length}; after each observed step fields, octets and both views are compared with the reference "
    "value of the model (an integer pair advanced by ref.cds.add). "
    "Independence (mc.alias.Keeper): every stamp object the library handed out (constructed, decoded, read_from_raw, "
    "from_datetime, result of +) and the very object every pack() returned is held and re-observed after the following "
    "cases of the shard (octets first, then the stamps, whose observation packs them again); nothing that is not an "
    "operand of a later operation may change. "
    "Stamps: every day 0..65535 x 9 boundary ms; 8 edge days x {every ms of the first and last two seconds, every "
    "second boundary -1/0/+1 ms}; thorough: every ms of the day for days 0, 4382, 4383, 65535. A stamp is counted "
    "distinct non-trivial when no earlier sweep of the enumeration contains the same (day, ms) (sweeps are nested "
    "sets, membership is decided by the sweep definitions); the other kinds are disjoint by construction (a history is "
    "identified by start kind, start stamp, symbol sequence and observation mode; every one is enumerated once)."
)
BOUNDS = {
    "quick": "days full(16) x 9 ms; 8 days x 263k ms; from_datetime 10 dates x 9 times x (1000 ms + 5 us values) + every day 0..65535 x 3 times of day; "
             "additions: edge product x 11 deltas + midnight landings, 4 days x last 500 ms x deltas 0..1000 ms, every day 0..65535 x 3 (stamp, delta) pairs; "
             "histories: 5 start kinds x (72 edge stamps to depth 2, 12 of them to depth 3) x 16 symbols x 2 observation modes; "
             "256 P-fields x 3 bodies x 3 entries; lengths 0..6; independence window: the results of the previous case (ring of 6-12 objects)",
    "thorough": "quick + every ms of days 0, 4382, 4383, 65535 (345.6e6 stamps, each packed form / decoded stamp re-observed after the next stamp); "
                "from_datetime 10 dates x every second of the day x 4 ms values; "
                "additions 4 days x last 2000 ms x deltas 0..4000 ms; histories to depth 3 (72 stamps) and depth 4 (12 stamps)",
}
ASSUMPTIONS = [
    "reference ref/cds.py transcribes CCSDS 301.0-B-4 3.3 (CDS, 16-bit day, no sub-ms) with exact integer calendar arithmetic of datetime/timedelta; bound to the repository's vectors in selftest/st_ref_misc.py",
    "as_unix_seconds is a binary float: accepted within 2^-20 s of the exact rational (any sign or direction error is >= 1 ms)",
    "wrong P-fields = time-code id != 100 or 24-bit day segment; other CDS P-field variants are not judged (DESIGN.md section 5)",
    "monotonicity is checked between consecutive stamps of each ascending shard, not across shard borders (it follows from the per-stamp tolerance there)",
    "a stamp built by from_datetime from a datetime that is not a whole millisecond may keep the sub-millisecond remainder in its views (0 <= view - (epoch + days + ms) < 1 ms), "
    "also after additions; after read_from_raw the views are exact again",
    "whether `a + d` is a new object or `a` itself is not judged: after an addition only the returned object is used; an object is held for the independence oracle only once it is no longer an operand",
    "the state of a stamp after an addition that raised OverflowError is not judged (the history ends there)",
]

MS = R.MS_PER_DAY
BOUNDARY_MS = [0, 1, 999, 1000, 43_199_999, 43_200_000, 86_399_000, 86_399_998, 86_399_999]
EDGE_DAYS = [0, 1, 4382, 4383, 4384, 20000, 65534, 65535]
FULL_DAYS = [0, 4382, 4383, 65535]
DATES = [(1958, 1, 1), (1958, 1, 2), (1969, 12, 31), (1970, 1, 1), (1970, 1, 2), (2000, 2, 29), (2038, 1, 19), (2106, 2, 7), (2137, 6, 5), (2137, 6, 6)]
# 03:14:07/08 on 2038-01-19 and 06:28:15/16 on 2106-02-07 are the 2^31 s and 2^32 s Unix-time boundaries
TIMES = [(0, 0, 0), (0, 0, 1), (3, 14, 7), (3, 14, 8), (6, 28, 15), (6, 28, 16), (12, 0, 0), (23, 59, 58), (23, 59, 59)]
# from_datetime on every day 0..65535: (ms of day) whole-millisecond values
EVERY_DAY_MS = [0, 43_200_500, 86_399_999]
# additions on every day 0..65535: (ms, timedelta): carry exactly at midnight, carry + one day, a day without carry
EVERY_DAY_ADDS = [(86_399_999, (0, 0, 1000)), (86_399_999, (1, 0, 1000)), (43_200_000, (1, 0, 0))]
ODD_US = [1, 499, 500, 999, 999_999]
# timedeltas as (days, seconds, microseconds): 0, 1 us, 999 us, 1 ms, 999 ms, 1 s, 86399.999 s, 1 d, 1 d + 1 ms, 2 d 12 min 15 ms, 65535 d
DELTAS = [(0, 0, 0), (0, 0, 1), (0, 0, 999), (0, 0, 1000), (0, 0, 999_000), (0, 1, 0), (0, 86399, 999_000), (1, 0, 0), (1, 0, 1000),
          (2, 720, 15_000), (65535, 0, 0)]
ENTRIES = ["unpack", "unpack_from_raw", "read_from_raw"]
ADD_SWEEP_DAYS = [0, 4382, 65534, 65535]
UTC = datetime.timezone.utc
ZERO = datetime.timedelta(0)
ONE_MS = datetime.timedelta(milliseconds=1)

# ---- histories (explicit-state exploration of mutator sequences, DESIGN.md 2.3)
START_KINDS = ["construct", "unpack", "read_from_raw", "from_datetime", "from_datetime_subms"]
HIST_MODES = ["each", "end"]
HIST_DEEP_DAYS = [0, 4382, 65534]
HIST_DEEP_MS = [0, 999, 86_399_000, 86_399_999]
READ_TARGETS = [(4382, 86_399_999), (20000, 1000)]
#: the mutator alphabet: JSON-able symbols, resolved against the model's current value
STEPS = [["add"] + list(td) for td in DELTAS] + [["mid", k] for k in (-1, 0, 1)] + [["read"] + list(t) for t in READ_TARGETS]


def hist_depth(tier, d, ms):
    deep = d in HIST_DEEP_DAYS and ms in HIST_DEEP_MS
    if tier == "quick":
        return 3 if deep else 2
    return 4 if deep else 3


def step_delta(cur, sym):
    """timedelta of an 'add' / 'mid' symbol for the model value cur = (d, ms)"""
    if sym[0] == "add":
        return datetime.timedelta(days=sym[1], seconds=sym[2], microseconds=sym[3])
    return datetime.timedelta(milliseconds=MS - cur[1] + sym[1])


def model_step(cur, sym):
    """next model value, or None when the addition must overflow"""
    if sym[0] == "read":
        return (sym[1], sym[2])
    return R.add(cur[0], cur[1], step_delta(cur, sym))


def histories(start, depth, every_length):
    """All symbol sequences from `start`: a sequence ends at `depth` or at the first overflow;
    every_length: also every proper prefix (mode 'end' observes only after the last step, so a
    prefix is a different history there; in mode 'each' a prefix is contained in its extensions)."""
    out = []

    def walk(cur, prefix):
        for sym in STEPS:
            nxt = model_step(cur, sym)
            seq = prefix + [sym]
            if nxt is None or len(seq) == depth:
                out.append(seq)
            else:
                if every_length:
                    out.append(seq)
                walk(nxt, seq)

    walk(start, [])
    return out


def in_sweep(ms):
    return ms < 2000 or ms >= MS - 2000 or (ms % 1000) in (0, 1, 999)


def sweep_ms():
    s = set(range(0, 2000)) | set(range(MS - 2000, MS))
    for k in range(0, MS, 1000):
        s.update((k, k + 1, k + 999))
    return sorted(s)


def _C():
    from spacepackets.ccsds.time import CdsShortTimestamp

    return CdsShortTimestamp


# ------------------------------------------------------------------------- shards
def shards(tier):
    items = []
    for p in range(16):
        items.append({"kind": "days", "lo": 4096 * p, "hi": 4096 * (p + 1)})
    for d in EDGE_DAYS:
        for p in range(4):
            items.append({"kind": "mssweep", "day": d, "part": p, "parts": 4})
    for i in range(len(DATES)):
        items.append({"kind": "fromdt", "date": i})
    items.append({"kind": "addprod"})
    w = 500 if tier == "quick" else 2000
    parts = 4 if tier == "quick" else 16
    for d in ADD_SWEEP_DAYS:
        for p in range(parts):
            items.append({"kind": "addsweep", "day": d, "w": w, "part": p, "parts": parts})
    items.append({"kind": "refuse", "tier": tier})
    # the same stamps under other process time zones (POSIX TZ strings, no tz database needed): the UTC views of a stamp do
    # not depend on where the process runs.  A shard runs in its own process, so setting TZ there affects nothing else.
    for tz in OTHER_TZ:
        for d in EDGE_DAYS:
            items.append({"kind": "mssweep", "day": d, "part": 0, "parts": 64, "tz": tz})
        items.append({"kind": "fromdt", "date": 3, "tz": tz})
        items.append({"kind": "addprod", "tz": tz})
    for k in START_KINDS:
        for d in EDGE_DAYS:
            for m in HIST_MODES:
                items.append({"kind": "hist", "start": k, "day": d, "mode": m, "tier": tier})
    if tier == "thorough":
        for i in range(len(DATES)):
            for p in range(4):
                items.append({"kind": "fromdt_seconds", "date": i, "part": p, "parts": 4})
        for d in FULL_DAYS:
            for p in range(96):
                items.append({"kind": "fullday", "day": d, "part": p, "parts": 96})
    return items


# ------------------------------------------------------------------------- oracles
def observe_stamp(o):
    """plain-value observation of a held stamp (packs it again: held octets are re-observed first)"""
    return (o.ccsds_days, o.ms_of_day, bytes(o.pack()), o.as_unix_seconds(), o.as_datetime())


class Keep:
    """The independence oracle of one shard: two mc.alias.Keeper rings, one for the very objects
    pack() returned (re-observed first, by copying), one for stamp objects (whose observation
    calls pack() again and so would overwrite a shared output buffer before it is looked at)."""

    def __init__(self, rec, octet_depth=12, stamp_depth=8):
        self.ko = Keeper(rec, PROPERTY, depth=octet_depth)
        self.ks = Keeper(rec, PROPERTY, depth=stamp_depth)

    def octets(self, obj, case, subject="CdsShortTimestamp.pack"):
        self.ko.hold(subject, obj, bytes, case)

    def stamp(self, subject, obj, case):
        self.ks.hold("CdsShortTimestamp" + subject, obj, observe_stamp, case)

    def recheck(self, case):
        self.ko.recheck(case)
        self.ks.recheck(case)

    def flush(self):
        self.ko.flush()
        self.ks.flush()


def check_stamp(rec: Rec, d: int, ms: int, nontrivial=True, light=False, keep=None):
    """One (day, ms) stamp.  Returns (unix_seconds, datetime) when the views are right (used for
    the monotonicity clause), None otherwise."""
    C = _C()
    case = {"kind": "stamp", "d": d, "ms": ms}
    rec.case(nontrivial, ops=4 if light else 11)
    ref = R.cds_short(d, ms)
    repro = f"CdsShortTimestamp({d}, {ms})  # pack(), unpack(), as_unix_seconds(), as_datetime(); see checks/c14.py check_stamp"
    try:
        s = C(d, ms)
        packed = s.pack()
        got = bytes(packed)
    except Exception as e:
        rec.violation("C14.encode/CdsShortTimestamp.pack/exception/" + type(e).__name__, case, repr(e), ref, repro=repro)
        return None
    if keep is not None:
        keep.octets(packed, case)
    e = None
    if got != ref:
        rec.violation("C14.encode/CdsShortTimestamp.pack/octets", case, got, ref, repro=repro)
    if (s.ccsds_days, s.ms_of_day, bytes(s.pfield), s.len_packed) != (d, ms, b"\x40", 7):
        rec.violation("C14.encode/CdsShortTimestamp/accessors", case, (s.ccsds_days, s.ms_of_day, bytes(s.pfield), s.len_packed), (d, ms, b"\x40", 7), repro=repro)
    try:
        u = C.unpack(ref)
        if (u.ccsds_days, u.ms_of_day) != (d, ms) or not (u == s):
            rec.violation("C14.decode/CdsShortTimestamp.unpack/fields", case, (u.ccsds_days, u.ms_of_day), (d, ms), repro=repro)
        if not light:
            if tuple(C.unpack_from_raw(ref)) != (d, ms):
                rec.violation("C14.decode/CdsShortTimestamp.unpack_from_raw/fields", case, tuple(C.unpack_from_raw(ref)), (d, ms), repro=repro)
            e = C.empty()
            e.read_from_raw(ref)
            e_packed = e.pack()
            if (e.ccsds_days, e.ms_of_day) != (d, ms) or bytes(e_packed) != ref:
                rec.violation("C14.decode/CdsShortTimestamp.read_from_raw/fields", case, (e.ccsds_days, e.ms_of_day), (d, ms), repro=repro)
            u_packed = u.pack()
            if bytes(u_packed) != ref:
                rec.violation("C14.decode/unpack-then-pack", case, bytes(u_packed), ref, repro=repro)
            if keep is not None:
                keep.octets(e_packed, case)
                keep.octets(u_packed, case)
    except Exception as exc:
        rec.violation("C14.decode/CdsShortTimestamp.unpack/exception/" + type(exc).__name__, case, repr(exc), (d, ms), repro=repro)
        return None
    if keep is not None:
        keep.stamp("", s, case)
        keep.stamp(".unpack", u, case)
        if e is not None:
            keep.stamp(".read_from_raw", e, case)
    # views: of the constructed stamp, of the decoded one and of the one filled by read_from_raw
    exp_dt = R.as_datetime(d, ms)
    ok = True
    for which, obj in (("constructed", s), ("decoded", u), ("read_from_raw", e)):
        if obj is None:
            continue
        us = obj.as_unix_seconds()
        dt = obj.as_datetime()
        wrong = []
        if not (isinstance(us, (int, float)) and R.unix_seconds_close(float(us), d, ms)):
            wrong.append("unix_seconds")
        if not (isinstance(dt, datetime.datetime) and dt.tzinfo is not None and dt == exp_dt):
            wrong.append("datetime")
        if wrong:
            ok = False
            sig = "C14.views/CdsShortTimestamp/wrong-instant/" + "+".join(wrong) + ("/pre-1970" if d < R.UNIX_EPOCH_CCSDS_DAY else "")
            rec.violation(sig, case, {"from": which, "as_unix_seconds": repr(us), "as_datetime": repr(dt)},
                          {"unix_seconds": str(R.unix_seconds(d, ms)), "datetime": repr(exp_dt)}, repro=repro)
            break
        if dt.utcoffset() != ZERO:
            ok = False
            rec.violation("C14.views/CdsShortTimestamp.as_datetime/not-utc", case, repr(dt), repr(exp_dt), repro=repro)
            break
    if keep is not None:
        keep.recheck(case)
    if not ok:
        return None
    return us, dt


def check_alias(rec: Rec, d, ms):
    """as_date_time() (the pre-0.24 name) must be the same view as as_datetime()"""
    s = _C()(d, ms)
    rec.ops += 1
    a, b = s.as_date_time(), s.as_datetime()
    if a != b or a.utcoffset() != b.utcoffset():
        rec.violation("C14.views/CdsShortTimestamp.as_date_time/differs-from-as_datetime", {"kind": "alias", "d": d, "ms": ms}, repr(a), repr(b))


def check_mono(rec: Rec, prev, cur, prev_key, cur_key):
    """later stamps map to later instants (both views)"""
    if prev is None or cur is None:
        return
    rec.ops += 2
    if not (cur[0] > prev[0] and cur[1] > prev[1]):
        rec.violation("C14.monotonic/CdsShortTimestamp/later-stamp-not-later-instant", {"kind": "mono", "a": list(prev_key), "b": list(cur_key)},
                      [repr(prev[0]), repr(prev[1]), repr(cur[0]), repr(cur[1])], "strictly increasing")


def sweep(rec: Rec, day, ms_values, nontrivial_fn, light=False, keep=None):
    prev, prev_key = None, None
    for ms in ms_values:
        cur = check_stamp(rec, day, ms, nontrivial_fn(ms), light, keep)
        check_mono(rec, prev, cur, prev_key, (day, ms))
        prev, prev_key = cur, (day, ms)


def sweep_light(rec: Rec, day, lo, hi):
    """The thorough full-day sweep: the same demands as check_stamp(light=True) plus monotonicity,
    written as one tight loop.  The first stamp of every anomaly class is handed to check_stamp,
    which produces the violation record; further stamps of a class already recorded in this shard
    are only counted."""
    C = _C()
    unpack = C.unpack
    prefix = b"\x40" + day.to_bytes(2, "big")
    base_ms = (day - R.UNIX_EPOCH_CCSDS_DAY) * MS
    day_dt = R.as_datetime(day, 0)
    td = datetime.timedelta
    close = R.unix_seconds_close
    seen = set()
    prev_us = prev_dt = None
    held = None  # (packed object, its octets, decoded stamp, constructed stamp) of the previous stamp
    bad = 0
    for ms in range(lo, hi):
        ref = prefix + ms.to_bytes(4, "big")
        anomaly = None
        try:
            s = C(day, ms)
            pk = s.pack()
            if pk != ref:
                anomaly = "pack"
            u = unpack(ref)
            if u.ccsds_days != day or u.ms_of_day != ms or not (u == s):
                anomaly = "unpack"
            us = u.as_unix_seconds()
            dt = u.as_datetime()
            if us != (base_ms + ms) / 1000 and not close(us, day, ms):
                anomaly = "unix"
            elif dt != day_dt + td(microseconds=ms * 1000) or dt.utcoffset() != ZERO:
                anomaly = "datetime"
            elif s.as_unix_seconds() != us or s.as_datetime() != dt:
                anomaly = "views-differ"
            elif prev_us is not None and not (us > prev_us and dt > prev_dt):
                anomaly = "mono"
            elif held is not None and (held[0] != held[1] or held[2].ms_of_day != ms - 1 or held[2].as_datetime() != prev_dt
                                       or held[3].ms_of_day != ms - 1 or held[3].as_datetime() != prev_dt):
                anomaly = "independence"  # what the previous stamp handed out changed while this one was processed
        except Exception as e:
            anomaly = "exception:" + type(e).__name__
        if anomaly is None:
            prev_us, prev_dt = us, dt
            held = (pk, ref, u, s)
            continue
        held = None
        bad += 1
        if anomaly not in seen:
            seen.add(anomaly)
            before = rec.viol_count
            ev, nt, ops = rec.evaluations, rec.nontrivial, rec.ops
            if anomaly == "mono":
                check_mono(rec, check_stamp(rec, day, ms - 1, light=True), check_stamp(rec, day, ms, light=True), (day, ms - 1), (day, ms))
            elif anomaly == "independence":
                k = Keep(rec)
                check_stamp(rec, day, ms - 1, light=True, keep=k)
                check_stamp(rec, day, ms, light=True, keep=k)
            else:
                check_stamp(rec, day, ms, light=True)
            rec.evaluations, rec.nontrivial, rec.ops = ev, nt, ops
            if rec.viol_count == before:
                raise RuntimeError(f"fast path saw anomaly {anomaly} at ({day}, {ms}) that check_stamp does not confirm")
            rec.viol_count = before
        prev_us = prev_dt = None
    n = hi - lo
    rec.evaluations += n
    rec.nontrivial += sum(1 for ms in range(lo, hi) if not in_sweep(ms))
    rec.ops += 7 * n
    rec.viol_count += bad


def check_fromdt(rec: Rec, t, nontrivial=True, keep=None):
    """t = [y, m, d, H, M, S, us] (UTC)"""
    C = _C()
    case = {"kind": "fromdt", "dt": list(t)}
    rec.case(nontrivial, ops=5)
    dt = datetime.datetime(*t, tzinfo=UTC)
    ed, ems, sub = R.from_datetime(dt)
    repro = f"CdsShortTimestamp.from_datetime(datetime.datetime{tuple(t)!r}.replace(tzinfo=datetime.timezone.utc))  # expected days={ed}, ms={ems}"
    try:
        s = C.from_datetime(dt)
        gd, gms = s.ccsds_days, s.ms_of_day
    except Exception as e:
        rec.violation("C14.from_datetime/CdsShortTimestamp.from_datetime/exception/" + type(e).__name__, case, repr(e), (ed, ems), repro=repro)
        return
    total_us = R.total_us_since_epoch(dt)
    if sub == 0:
        good = (gd, gms) == (ed, ems)
    else:  # not a whole millisecond: within one millisecond of the exact value, normalised
        good = isinstance(gd, int) and isinstance(gms, int) and 0 <= gms < MS and abs((gd * MS + gms) * 1000 - total_us) <= 1000
    if not good:
        if gd != ed:
            sig = "C14.from_datetime/CdsShortTimestamp.from_datetime/day-wrong" + ("/pre-1970" if ed < R.UNIX_EPOCH_CCSDS_DAY else "")
        else:
            sig = "C14.from_datetime/CdsShortTimestamp.from_datetime/ms-wrong"
        rec.violation(sig, case, (gd, gms), (ed, ems), repro=repro)
        return
    rec.outcome("fromdt:exact" if sub == 0 else "fromdt:sub-ms")
    try:
        packed = s.pack()
        raw = bytes(packed)
    except Exception as e:
        rec.violation("C14.from_datetime/pack/exception/" + type(e).__name__, case, repr(e), None, repro=repro)
        return
    if raw != R.cds_short(gd, gms):
        rec.violation("C14.from_datetime/pack/octets", case, raw, R.cds_short(gd, gms), repro=repro)
    # the views of the new stamp: exact for a whole-millisecond datetime; otherwise the sub-millisecond
    # remainder of the given datetime may show (ASSUMPTIONS)
    us, view = s.as_unix_seconds(), s.as_datetime()
    exp_dt = R.as_datetime(gd, gms)
    if sub == 0:
        good = isinstance(view, datetime.datetime) and view.tzinfo is not None and view == exp_dt and R.unix_seconds_close(float(us), gd, gms)
    else:
        good = isinstance(view, datetime.datetime) and view.tzinfo is not None and ZERO <= view - exp_dt < ONE_MS and views_lenient_unix(us, gd, gms)
    if not good:
        rec.violation("C14.from_datetime/views/wrong-instant" + ("/pre-1970" if ed < R.UNIX_EPOCH_CCSDS_DAY else ""), case,
                      (repr(us), repr(view)), (str(R.unix_seconds(gd, gms)), repr(exp_dt)), repro=repro)
    if keep is not None:
        keep.octets(packed, case)
        keep.stamp(".from_datetime", s, case)
        keep.recheck(case)


def views_lenient_unix(us, d, ms):
    """exact <= us < exact + 1 ms (exact rational comparison), with the float tolerance on both sides"""
    if not isinstance(us, (int, float)) or us != us or us in (float("inf"), float("-inf")):
        return False
    diff = Fraction(us) - R.unix_seconds(d, ms)
    tol = Fraction(R.TOL_NUM, R.TOL_DEN)
    return -tol <= diff < Fraction(1, 1000) + tol


def check_add(rec: Rec, d, ms, td, nontrivial=True, keep=None):
    """td = (days, seconds, microseconds), non-negative"""
    C = _C()
    case = {"kind": "add", "d": d, "ms": ms, "td": list(td)}
    rec.case(nontrivial, ops=3)
    delta = datetime.timedelta(days=td[0], seconds=td[1], microseconds=td[2])
    exp = R.add(d, ms, delta)
    sub_day_ms = td[1] * 1000 + td[2] // 1000
    feat = "/carry-exactly-at-midnight" if ms + sub_day_ms == MS else ""
    repro = f"CdsShortTimestamp({d}, {ms}) + datetime.timedelta(days={td[0]}, seconds={td[1]}, microseconds={td[2]})  # expected {exp if exp else 'OverflowError'}"
    s = C(d, ms)
    try:
        r = s + delta
    except OverflowError:
        if exp is not None:
            rec.violation("C14.add/CdsShortTimestamp.__add__/wrong-result" + feat, case, "OverflowError", exp, repro=repro)
        else:
            rec.outcome("add:overflow")
        return
    except Exception as e:
        rec.violation("C14.add/CdsShortTimestamp.__add__/exception/" + type(e).__name__, case, repr(e), exp or "OverflowError", repro=repro)
        return
    got = (getattr(r, "ccsds_days", None), getattr(r, "ms_of_day", None))
    if exp is None or got != exp:
        rec.violation("C14.add/CdsShortTimestamp.__add__/wrong-result" + feat, case, got, exp or "OverflowError", repro=repro)
        return
    rec.outcome("add:carry" if exp[0] > d + td[0] else "add:no-carry")
    try:
        packed = r.pack()
        raw = bytes(packed)
    except Exception as e:
        rec.violation("C14.add/pack-after-add/exception/" + type(e).__name__, case, repr(e), None, repro=repro)
        return
    if raw != R.cds_short(*exp):
        rec.violation("C14.add/pack-after-add/octets", case, raw, R.cds_short(*exp), repro=repro)
    # the views must follow the addition: same as those of a freshly constructed stamp with the result
    f = C(*exp)
    if r.as_datetime() != f.as_datetime() or r.as_unix_seconds() != f.as_unix_seconds():
        rec.violation("C14.add/views-after-add/stale", case, (repr(r.as_unix_seconds()), repr(r.as_datetime())), (repr(f.as_unix_seconds()), repr(f.as_datetime())), repro=repro)
    if keep is not None:
        keep.octets(packed, case)
        keep.stamp(".__add__", r, case)  # the returned object; the left operand is not looked at again
        keep.stamp("", f, case)
        keep.recheck(case)


# ------------------------------------------------------------------------ histories
def hist_observe(rec, keep, case, obj, cur, lenient, after, mode, final):
    """All observers on obj against the reference value of the model cur = (d, ms).
    Returns False after the first violation of this history."""
    d, ms = cur
    tail = "/after-" + after  # coarse: the start kind and the observation mode are in the case
    rec.ops += 7
    try:
        fields = (obj.ccsds_days, obj.ms_of_day)
        packed = obj.pack()
        raw = bytes(packed)
        us = obj.as_unix_seconds()
        dt = obj.as_datetime()
        same = (obj == _C()(d, ms)) if final else True
        misc = (bytes(obj.pfield), obj.len_packed)
        alias = obj.as_date_time() if final else dt
    except Exception as e:
        rec.violation("C14.history/observer-exception/" + type(e).__name__ + tail, case, repr(e), cur)
        return False
    if keep is not None:
        keep.octets(packed, case)
    if fields != cur or not same or misc != (b"\x40", 7):
        rec.violation("C14.history/fields" + tail, case, {"fields": fields, "eq_fresh": same, "pfield_len": misc}, cur)
        return False
    if raw != R.cds_short(d, ms):
        rec.violation("C14.history/octets" + tail, case, raw, R.cds_short(d, ms))
        return False
    exp_dt = R.as_datetime(d, ms)
    ok_dt = isinstance(dt, datetime.datetime) and dt.tzinfo is not None and dt.utcoffset() == ZERO
    if lenient:
        ok = ok_dt and ZERO <= dt - exp_dt < ONE_MS and views_lenient_unix(us, d, ms)
    else:
        ok = ok_dt and dt == exp_dt and isinstance(us, (int, float)) and R.unix_seconds_close(float(us), d, ms)
    if not ok or alias != dt:
        rec.violation("C14.history/views" + tail, case, {"as_unix_seconds": repr(us), "as_datetime": repr(dt), "as_date_time": repr(alias)},
                      {"unix_seconds": str(R.unix_seconds(d, ms)), "datetime": repr(exp_dt), "sub_ms_remainder_allowed": lenient})
        return False
    return True


def run_history(rec: Rec, kind, d, ms, steps, mode, nontrivial=True, keep=None, seen_states=None):
    """One history on one object: start state `kind` with value (d, ms), then the mutator symbols
    `steps`; mode 'each': observe before the first and after every step, 'end': only after the last."""
    C = _C()
    case = {"kind": "hist", "start": kind, "d": d, "ms": ms, "steps": [list(x) for x in steps], "mode": mode}
    rec.case(nontrivial)
    rec.traces += 1
    cur = (d, ms)
    lenient = False
    ref0 = R.cds_short(d, ms)
    try:
        if kind == "construct":
            obj = C(d, ms)
        elif kind == "unpack":
            obj = C.unpack(ref0)
        elif kind == "read_from_raw":
            obj = C.empty()
            obj.read_from_raw(ref0)
        elif kind == "from_datetime":
            obj = C.from_datetime(R.as_datetime(d, ms))
        elif kind == "from_datetime_subms":
            obj = C.from_datetime(R.as_datetime(d, ms) + datetime.timedelta(microseconds=999))
            lenient = True
        else:
            raise KeyError(kind)
    except KeyError:
        raise
    except Exception as e:
        rec.violation("C14.history/start/exception/" + type(e).__name__, case, repr(e), cur)
        return
    rec.ops += 1
    if seen_states is not None:
        seen_states.add(cur)
    after = "start"
    if (mode == "each" or not steps) and not hist_observe(rec, keep, case, obj, cur, lenient, after, mode, not steps):
        return
    for i, sym in enumerate(steps):
        last = i == len(steps) - 1
        rec.transitions += 1
        rec.ops += 1
        if sym[0] == "read":
            after = "read_from_raw"
            nxt = (sym[1], sym[2])
            try:
                obj.read_from_raw(R.cds_short(*nxt))
            except Exception as e:
                rec.violation("C14.history/read_from_raw/exception/" + type(e).__name__, case, repr(e), nxt)
                return
            lenient = False
        else:
            after = "__add__"
            delta = step_delta(cur, sym)
            nxt = R.add(cur[0], cur[1], delta)
            try:
                obj = obj + delta  # only the returned object is used from here on
            except OverflowError:
                if nxt is not None:
                    rec.violation("C14.history/__add__/overflow-error-on-representable-result", case, "OverflowError at step %d" % i, nxt)
                else:
                    rec.outcome("hist:overflow")
                    if seen_states is not None:
                        seen_states.add("overflow")
                return
            except Exception as e:
                rec.violation("C14.history/__add__/exception/" + type(e).__name__, case, repr(e), nxt or "OverflowError")
                return
            if nxt is None:
                rec.violation("C14.history/__add__/no-overflow-error", case, (getattr(obj, "ccsds_days", None), getattr(obj, "ms_of_day", None)), "OverflowError at step %d" % i)
                return
        cur = nxt
        if seen_states is not None:
            seen_states.add(cur)
        if (mode == "each" or last) and not hist_observe(rec, keep, case, obj, cur, lenient, after, mode, last):
            return
    rec.outcome("hist:%s:%s:len%d" % (kind, mode, len(steps)))
    if keep is not None:
        keep.stamp(".history-end", obj, case)
        keep.recheck(case)


def hist_cases(tier, kind, day, mode):
    """(d, ms, steps) of one history shard, shortest histories first"""
    out = []
    for ms in BOUNDARY_MS:
        for seq in histories((day, ms), hist_depth(tier, day, ms), every_length=(mode == "end")):
            out.append((day, ms, seq))
    out.sort(key=lambda c: len(c[2]))  # stable: simplest first
    return out


_LAST_DECODED = [None]


def _decode(entry, raw):
    C = _C()
    _LAST_DECODED[0] = None
    if entry == "unpack":
        s = C.unpack(raw)
        _LAST_DECODED[0] = s
        return (s.ccsds_days, s.ms_of_day)
    if entry == "unpack_from_raw":
        return tuple(C.unpack_from_raw(raw))
    s = C.empty()
    s.read_from_raw(raw)
    _LAST_DECODED[0] = s
    return (s.ccsds_days, s.ms_of_day)


def _repacks_canonically(rec, case, entry, got):
    """whatever preamble a decoder accepted, the stamp it hands out is a CDS short stamp: it packs to P-field 0x40 and its fields"""
    s = _LAST_DECODED[0]
    if s is None:
        return
    want = bytes([R.P_FIELD]) + int(got[0]).to_bytes(2, "big") + int(got[1]).to_bytes(4, "big")
    try:
        seen = (bytes(s.pack()), bytes(s.pfield))
    except Exception as e:
        rec.violation(f"C14.encode/CdsShortTimestamp.{entry}-then-pack/exception/{type(e).__name__}", case, repr(e), want)
        return
    if seen != (want, bytes([R.P_FIELD])):
        rec.violation(f"C14.encode/CdsShortTimestamp.{entry}-then-pack/octets-or-pfield", case, seen, (want, bytes([R.P_FIELD])))


def check_from_unix_days(rec: Rec):
    """CdsShortTimestamp.from_unix_days(unix days, ms): the same stamp as the constructor gives for (unix days + 4383, ms) - fields,
    octets and both views"""
    C = _C()
    for d in (0, 1, 4382, 4383, 4384, 20000, 65535):
        for ms in (0, 1, 999, 1000, 43200123, 86399999):
            case = {"kind": "from_unix_days", "d": d, "ms": ms}
            rec.case(True, ops=2)
            try:
                a, b = C.from_unix_days(d - 4383, ms), C(d, ms)
                got = (a.ccsds_days, a.ms_of_day, bytes(a.pack()), a.as_unix_seconds(), a.as_datetime())
                exp = (d, ms, bytes(b.pack()), b.as_unix_seconds(), b.as_datetime())
            except Exception as e:
                rec.violation(f"C14.encode/CdsShortTimestamp.from_unix_days/exception/{type(e).__name__}", case, repr(e), None)
                continue
            if got != exp:
                rec.violation("C14.encode/CdsShortTimestamp.from_unix_days/differs-from-the-constructed-stamp", case, [str(x) for x in got], [str(x) for x in exp])
    rec.outcome("from_unix_days-ok")


def check_ms_of_today(rec: Rec):
    """CdsShortTimestamp.ms_of_today(unix seconds) = millisecond of that day, for instants before and after 1970; arguments that
    are exact in binary floating point (whole seconds and quarters), so that the expected value is not a matter of rounding"""
    C = _C()
    ks = [-4383 * 86400, -4383 * 86400 + 1, -86401, -86400, -86399, -43200, -1, 0, 1, 43200, 86399, 86400, 86401, 10 ** 9, 1234567890,
          (65535 - 4383) * 86400 + 86399, -378691200 + 21600]
    for k in ks:
        for q in (0.0, 0.25, 0.5, 0.75):
            x = k + q
            exp = (k % 86400) * 1000 + int(q * 1000)
            case = {"kind": "ms_of_today", "seconds": x}
            rec.case(True, ops=1)
            try:
                got = C.ms_of_today(x)
            except Exception as e:
                rec.violation(f"C14.helper/CdsShortTimestamp.ms_of_today/exception/{type(e).__name__}", case, repr(e), exp)
                continue
            if got != exp:
                rec.violation("C14.helper/CdsShortTimestamp.ms_of_today/wrong-millisecond" + ("/pre-1970" if x < 0 else ""), case, got, exp,
                              repro=f"CdsShortTimestamp.ms_of_today({x!r})  # expected {exp}")
    rec.outcome("ms_of_today-ok")


def check_refuse(rec: Rec, entry, raw: bytes):
    """raw shorter than 7 octets, or 7+ octets whose P-field must be refused -> ValueError;
    P-field 0x40 -> decoded; any other P-field: not judged."""
    case = {"kind": "refuse", "entry": entry, "raw": raw}
    rec.case(True, ops=1)
    short = len(raw) < 7
    must = short or R.pfield_must_be_refused(raw[0])
    what = "short-input" if short else "p-field"
    repro = f"CdsShortTimestamp.{entry}(bytes.fromhex('{raw.hex()}'))  # expected ValueError" if must else None
    try:
        got = _decode(entry, raw)
    except ValueError as e:
        rec.outcome(f"refused:{what}:{type(e).__name__}")
        if not must and raw[0] == R.P_FIELD:
            rec.violation(f"C14.decode/CdsShortTimestamp.{entry}/refused-valid", case, repr(e), R.cds_short_fields(raw)[1:])
        return
    except Exception as e:
        if must:
            rec.violation(f"C14.refuse/CdsShortTimestamp.{entry}/wrong-exception/{type(e).__name__}/{what}", case, repr(e), "ValueError", repro=repro)
        return
    if must:
        rec.violation(f"C14.refuse/CdsShortTimestamp.{entry}/accepted/{what}", case, got, "ValueError", repro=repro)
    elif raw[0] == R.P_FIELD:
        rec.outcome("accepted:0x40")
        if got != R.cds_short_fields(raw)[1:]:
            rec.violation(f"C14.decode/CdsShortTimestamp.{entry}/fields", case, got, R.cds_short_fields(raw)[1:])
        else:
            _repacks_canonically(rec, case, entry, got)
    else:
        rec.outcome("not-judged:accepted-other-cds-pfield")
        _repacks_canonically(rec, case, entry, got)


# ---------------------------------------------------------------------- run_shard
def add_product_cases():
    out = []
    for d in EDGE_DAYS:
        for ms in BOUNDARY_MS:
            for td in DELTAS:
                out.append((d, ms, td))
            rest = MS - ms  # lands exactly on midnight; one before; one after; the same one and two days later; sub-ms parts
            for k in (rest - 1, rest, rest + 1):
                if k < 0:
                    continue
                for days in (0, 1, 2):
                    for us in (0, 1, 999):
                        out.append((d, ms, (days + k // MS, (k % MS) // 1000, (k % 1000) * 1000 + us)))
    seen, uniq = set(), []
    for c in out:
        if c not in seen:
            seen.add(c)
            uniq.append(c)
    return uniq


OTHER_TZ = ("CET-1CEST,M3.5.0,M10.5.0/3", "EST5EDT,M3.2.0,M11.1.0", "NZST-12NZDT,M9.5.0,M4.1.0/3")


def run_shard(item):
    rec = Rec(PROPERTY, item)
    kind = item["kind"]
    if item.get("tz"):
        import os
        import time
        os.environ["TZ"] = item["tz"]
        time.tzset()
        rec.count("shards_run_under_a_non_UTC_process_time_zone")
    keep = Keep(rec)
    if kind == "days":
        prod = set(add_product_cases())
        listed = {(tuple(dt), tm) for dt in DATES for tm in TIMES}
        n_dt = n_add = 0
        for d in range(item["lo"], item["hi"]):
            sweep(rec, d, BOUNDARY_MS, lambda ms: True, keep=keep)
            check_alias(rec, d, 43_200_000)
            # every day of the range through from_datetime and through + (carry at midnight, day step)
            for ms in EVERY_DAY_MS:
                dt = R.as_datetime(d, ms)
                t = [dt.year, dt.month, dt.day, dt.hour, dt.minute, dt.second, dt.microsecond]
                check_fromdt(rec, t, nontrivial=((dt.year, dt.month, dt.day), (dt.hour, dt.minute, dt.second)) not in listed, keep=keep)
                n_dt += 1
            for ms, td in EVERY_DAY_ADDS:
                check_add(rec, d, ms, td, nontrivial=(d, ms, td) not in prod, keep=keep)
                n_add += 1
        rec.count("days_swept", item["hi"] - item["lo"])
        rec.count("from_datetime_cases", n_dt)
        rec.count("from_datetime_days_covered", item["hi"] - item["lo"])
        rec.count("addition_cases", n_add)
        if item["lo"] == 4096:  # days 4096.. contain the Unix epoch (day 4383)
            rec.sample({"stamp": [4382, 999], "octets": R.cds_short(4382, 999), "datetime": repr(R.as_datetime(4382, 999)),
                        "unix_seconds": str(R.unix_seconds(4382, 999))}, limit=1)
    elif kind == "mssweep":
        part = D.chunks(sweep_ms(), item["parts"])[item["part"]]
        boundary = set(BOUNDARY_MS)
        sweep(rec, item["day"], part, lambda ms: ms not in boundary, keep=keep)
        rec.count("ms_sweep_stamps", len(part))
        if item["day"] == 0 and item["part"] == 0:
            rec.sample({"ms_sweep_day": item["day"], "first_ms": part[0], "last_ms": part[-1], "count": len(part)}, limit=1)
    elif kind == "fullday":
        lo = MS * item["part"] // item["parts"]
        hi = MS * (item["part"] + 1) // item["parts"]
        sweep_light(rec, item["day"], lo, hi)
        rec.count(f"full_day_{item['day']}_ms_swept", hi - lo)
    elif kind == "fromdt":
        date = DATES[item["date"]]
        n = 0
        for tm in TIMES:
            for ms in range(1000):
                check_fromdt(rec, list(date) + list(tm) + [ms * 1000], keep=keep)
                n += 1
            for us in ODD_US:
                check_fromdt(rec, list(date) + list(tm) + [us], keep=keep)
                n += 1
        rec.count("from_datetime_cases", n)
        t = list(date) + [23, 59, 59, 1000]
        if date == (1969, 12, 31):
            rec.sample({"from_datetime": t, "expected_days_ms": list(R.from_datetime(datetime.datetime(*t, tzinfo=UTC)))[:2]}, limit=1)
    elif kind == "fromdt_seconds":
        date = DATES[item["date"]]
        lo = 86400 * item["part"] // item["parts"]
        hi = 86400 * (item["part"] + 1) // item["parts"]
        n = 0
        for sec in range(lo, hi):
            tm = [sec // 3600, (sec // 60) % 60, sec % 60]
            special = tuple(tm) in TIMES
            for ms in (0, 1, 500, 999):
                rec_before = rec.nontrivial
                check_fromdt(rec, list(date) + tm + [ms * 1000], keep=keep)
                if special:  # produced by the per-date shard already
                    rec.nontrivial = rec_before
                n += 1
        rec.count("from_datetime_cases", n)
    elif kind == "addprod":
        cases = add_product_cases()
        for d, ms, td in cases:
            check_add(rec, d, ms, td, keep=keep)
        rec.count("addition_cases", len(cases))
        rec.sample({"add": [65535, 86_399_999], "timedelta_d_s_us": [0, 0, 1000], "expected": "OverflowError"}, limit=1)
        rec.sample({"add": [0, 86_399_000], "timedelta_d_s_us": [0, 1, 0], "expected": [1, 0]}, limit=2)
    elif kind == "addsweep":
        w, d = item["w"], item["day"]
        lo = w * item["part"] // item["parts"]
        hi = w * (item["part"] + 1) // item["parts"]
        prod = set(add_product_cases())
        n = 0
        for back in range(lo, hi):  # ms = last `back+1` ms before midnight
            ms = MS - 1 - back
            for delta in range(0, 2 * w + 1):
                td = (0, delta // 1000, (delta % 1000) * 1000)
                check_add(rec, d, ms, td, nontrivial=(d, ms, td) not in prod, keep=keep)
                n += 1
        rec.count("addition_cases", n)
    elif kind == "refuse":
        check_ms_of_today(rec)
        check_from_unix_days(rec)
        # 7-octet inputs and longer ones (a wrong P-field stays wrong whatever follows; 9 octets with a zero second octet look like
        # a 24-bit day segment with a leading zero)
        bodies = [bytes(6), bytes.fromhex("010203040506"), bytes.fromhex("ffff05265bff"), bytes(8), bytes.fromhex("0001020304050607")]
        n = 0
        for entry in ENTRIES:
            for p in range(256):
                for body in bodies:
                    check_refuse(rec, entry, bytes([p]) + body)
                    n += 1
        stamps = [R.cds_short(d, ms) for d in (0, 0x0102, 65535) for ms in (0, 0x03040506, 86_399_999)]
        shorts = D.dedupe([s[:L] for s in stamps for L in range(7)] + [bytes([b]) * L for b in (0x00, 0x40, 0xFF) for L in range(7)])
        if item.get("tier") == "thorough":
            shorts = D.dedupe(shorts + [bytes([p]) + bytes.fromhex("0102030405")[:L] for p in range(256) for L in range(6)])
        for entry in ENTRIES:
            for raw in shorts:
                check_refuse(rec, entry, raw)
                n += 1
        rec.count("refusal_cases", n)
        rec.count("pfields_that_must_be_refused", sum(1 for p in range(256) if R.pfield_must_be_refused(p)))
        rec.sample({"refuse": "P-field 0x44 (24-bit day segment)", "raw": bytes([0x44]) + bodies[1], "expected": "ValueError"}, limit=1)
    elif kind == "hist":
        cases = hist_cases(item["tier"], item["start"], item["day"], item["mode"])
        seen_states = set()
        for d, ms, seq in cases:
            run_history(rec, item["start"], d, ms, seq, item["mode"], keep=keep, seen_states=seen_states)
        rec.states = len(seen_states)
        rec.count("histories", len(cases))
        for n in sorted({len(c[2]) for c in cases}):
            rec.count("histories_of_length_%d" % n, sum(1 for c in cases if len(c[2]) == n))
        if item["start"] == "unpack" and item["day"] == 4382 and item["mode"] == "each":
            steps = [["mid", 0], ["add", 0, 0, 999], ["read", 20000, 1000]]
            vals = [(4382, 86_399_999)]
            for sym in steps:
                vals.append(model_step(vals[-1], sym))
            rec.sample({"history": {"start": "unpack", "stamp": list(vals[0]), "steps": steps, "observed": "before the first and after every step"},
                        "expected_values": [list(v) for v in vals]}, limit=1)
    keep.flush()
    if kind != "hist":
        # engine V: a case is one execution; distinct cases are the states, compared library operations the transitions
        rec.states, rec.transitions, rec.traces = rec.nontrivial, rec.ops, rec.evaluations
    return rec.result()


# ------------------------------------------------------------------------- replay
def replay(case):
    rec = Rec(PROPERTY, "replay")
    case = unhex(case)
    k = case["kind"]
    if k == "stamp":
        check_stamp(rec, case["d"], case["ms"])
    elif k == "mono":
        a, b = case["a"], case["b"]
        check_mono(rec, check_stamp(rec, *a), check_stamp(rec, *b), tuple(a), tuple(b))
    elif k == "alias":
        check_alias(rec, case["d"], case["ms"])
    elif k == "fromdt":
        check_fromdt(rec, case["dt"])
    elif k == "add":
        check_add(rec, case["d"], case["ms"], tuple(case["td"]))
    elif k == "refuse":
        check_refuse(rec, case["entry"], case["raw"])
    elif k == "ms_of_today":
        check_ms_of_today(rec)
    elif k == "from_unix_days":
        check_from_unix_days(rec)
    elif k == "hist":
        run_history(rec, case["start"], case["d"], case["ms"], case["steps"], case["mode"])
    return rec.result()


def finalize(tier, agg):
    c = agg["counters"]
    out = {
        "days_covered": f"{c.get('days_swept', 0)}/65536",
        "from_datetime_days_covered": f"{c.get('from_datetime_days_covered', 0)}/65536",
        "histories": c.get("histories", 0),
        "history_alphabet": {"start_kinds": START_KINDS, "mutator_symbols": len(STEPS), "observation_modes": HIST_MODES},
        "independence": {"results_held": c.get("independence_results_held", 0), "reobservations": c.get("independence_reobservations", 0)},
        "pfields_covered": "256/256",
        "input_lengths_covered": "0..6",
    }
    if tier == "thorough":
        out["full_days"] = {str(d): f"{c.get(f'full_day_{d}_ms_swept', 0)}/{MS}" for d in FULL_DAYS}
    return out
