"""C02 - PUS-C telecommand encode/decode (engines V + F).  DESIGN.md section 4, C02."""

from __future__ import annotations

import itertools

from mc import domains as D
from mc.alias import Keeper
from mc.rec import Rec, unhex
from ref import pus as RP
from ref.crc16 import crc16

PROPERTY = "C02"
LEVEL = "model_checking"  # bounded-exhaustive enumeration of executions against a reference model (DESIGN.md 1, 2.1)
EXHAUSTIVE = True
RULE = (
    "telecommand = (service 8, subservice 8, APID 11, seq count 14, source ID 16, ack 4, application data). "
    "d=1: every value of every field (84 496 values) in each of K diagonal background vectors; full product of the "
    "8-value edge alphabets of the six fields (262 144, also through from_sp_header/from_composite_fields); every "
    "application-data string of length <= 2 (65 793) in Kp backgrounds; shaped data of lengths 0..17, 255..257, 1024, "
    "65528, 65529 (largest that fits) and 65530.. (must not be encoded). Each case runs construct/pack/unpack/re-pack/"
    "compare against ref/pus.py; the generic space-packet view (original and decoded) and check_pus_crc run on every vector "
    "in the thorough tier and on a covering subset in the quick tier (see bounds). Rejection clause: for every declared total length 7..12 and every "
    "APID x sequence-count alphabet x 5 continuations, a CRC-consistent octet string whose only fault is the declared "
    "length; for lengths 7 and 8 (trailer overlaps the version octet) additionally every sequence-control word that makes "
    "the trailer read as PUS-C (solved, not searched). Distinct non-trivial: a vector not produced by an earlier part of "
    "the enumeration (background vector counted once; payloads equal to a background payload counted once); a forged "
    "buffer counts only when its octet 6 carries version nibble 2 (otherwise any decoder refuses it for the version). "
    "Conjunctions: every shaped data length x every edge value of every field (d=1 under each length); every subset of the five "
    "optional constructor arguments omitted (documented defaults), twice in a row; the decoder is also handed a bytearray followed "
    "by neighbouring octets which the caller overwrites afterwards. "
    "Histories (engine H, stateless): ONE telecommand object, started in each of 4 ways (constructor, unpack, from_sp_header, "
    "from_composite_fields) from each of K backgrounds, is driven through EVERY sequence of D events of the menu {pack(), "
    "pack(recalc_crc=False), calc_crc(), to_space_packet(), construct+pack+view+decode of an unrelated telecommand, all setters applied to a "
    "constructed and a decoded twin carrying the same values, apid= (2 values), seq_count= (2), source_id= (2), app_data= (shorter, equal, "
    "longer, 300 octets)} = 16 events; a plain dict holds the values last set; after the "
    "start and after every event: every accessor, data length, packet_len, == (both directions) with a freshly constructed telecommand of "
    "the model's values; every octet string a reading event returns (pack, the space-packet view) = ref/pus.py of the model; crc16 "
    "right after the events that calculate it; pack(recalc_crc=False) judged only while no setter ran since the last CRC calculation "
    "(its documented precondition). A history is distinct by (background, start, event sequence). "
    "Independence (mc.alias.Keeper): every object the library hands out in the vector scripts (constructed / decoded telecommand, decoded "
    "secondary header, from_sp_header / from_composite_fields objects, the very bytearray pack() returned, the space-packet views) is held "
    "and observed again (accessors + pack()) after the rest of its own script and after the complete script of the next vector of the "
    "enumeration (which differs in at least one field value); a change is a violation whose replay is the shard."
)
BOUNDS = {
    "quick": "K=4 backgrounds, Kp=2 payload backgrounds; space-packet view + check_pus_crc on: every value of the 8/11/4-bit "
             "fields, walk(n) and every 17th value of the 14/16-bit fields, a strength-5 covering array of the edge product "
             "(index sum = 0 mod 8: 32 768 vectors), payloads of length <= 1 and the 2-octet payloads with (b0+b1) mod 16 = 0, "
             "all shaped lengths; reject: seq count in walk(14) (34 values), solved trailers ack in edge(4) x service in edge(8); "
             "histories: D=3 (4 096 per start, 16 starts); independence: all vector shards",
    "thorough": "K=8 backgrounds, Kp=4, space-packet view + check_pus_crc on every vector; reject: seq count in walk(14) U every 61st value (302 values), solved trailers ack in full(4) x service in walk(8); "
                "histories: D=4 (65 536 per start, 32 starts); independence: all vector shards",
}
ASSUMPTIONS = [
    "ref/pus.py, ref/ccsds.py, ref/crc16.py transcribe ECSS-E-ST-70-41C / CCSDS 133.0-B-2 (bound to the repository's expected vectors by selftest/st_ref_pus.py)",
    "two arbitrary non-edge values in two different fields at once are only covered in the K backgrounds",
    "application data between 18 and 65527 octets is represented by lengths 255, 256, 257 and 1024 only",
    "histories longer than D events, and setter values other than the two or three per property, are not explored; attributes of the component "
    "objects (sp_header.*, pus_tc_sec_header.*) are not written directly - only the setters the PusTc class itself offers",
    "independence is observed across adjacent vectors of the fixed enumeration order (ring of 2 scripts), not across arbitrary pairs",
]

AXES = ("service", "subservice", "apid", "seq_count", "source_id", "ack_flags")
BITS = (8, 8, 11, 14, 16, 4)
BG_DATA = [b"", b"\xff", b"\x55\xaa", b"\xaa\x55", b"\x01", b"\xfe\xff", b"\x80", b"\x7f\x00"]
EDGE_DATA = b"\x01\x02\x03"  # not a background payload, so the edge product is disjoint from the sweeps
LENGTHS = list(range(18)) + [255, 256, 257, 1024, 65528, 65529]
OVERSIZE = [65530, 65531, 65536, 70000]


def sweep_lengths(tier):
    """payload lengths that make the 16-bit length field take every low-octet value under high octets 0..4 and every
    carry pattern (window -40..+8) around further multiples of 256 - a decoder that slices with the length field sees all of them"""
    vals = set(range(18, 1101))
    highs = list(range(5, 17)) + [31, 32, 63, 64, 127, 128, 254, 255] + ([] if tier == "quick" else list(range(17, 31)))
    for h in highs:
        vals.update(range(h * 256 - 40, h * 256 + 9))
    return sorted(vals)

FILL = bytes([0x2F, 17, 1, 0, 0])
PING = RP.tc(17, 1, apid=1, seq_count=22)
TAILS = [b"", PING, bytes([17, 1, 0, 0, 0xAB, 0x62]), bytes(16), b"\xff" * 16]


def _k(tier):
    return 4 if tier == "quick" else 8


def _kp(tier):
    return 2 if tier == "quick" else 4


def background(k):
    return tuple(D.backgrounds(n, 8)[k] for n in BITS)


def reject_seqs(tier):
    s = D.walk(14)
    if tier == "thorough":
        s = D.dedupe(s + list(range(0, 16384, 61)))
    return s


def shards(tier):
    items = []
    k = _k(tier)
    for axis, n in enumerate(BITS):
        parts = {16: 16, 14: 4}.get(n, 1) * (4 if tier == "thorough" else 1)
        for p in range(parts):
            items.append({"kind": "sweep", "axis": axis, "lo": (1 << n) * p // parts, "hi": (1 << n) * (p + 1) // parts, "k": k, "all_deep": tier == "thorough"})
    for i in range(8):
        for j in range(0, 8, 2):
            items.append({"kind": "edge", "i": i, "j": [j, j + 1], "all_deep": tier == "thorough"})
    for bg in range(_kp(tier)):
        parts = 4 if tier == "quick" else 16
        for part in range(parts):
            items.append({"kind": "payload", "bg": bg, "part": part, "parts": parts, "all_deep": tier == "thorough"})
    for bg in range(_kp(tier)):
        items.append({"kind": "lengths", "bg": bg})
        for part in range(2):
            items.append({"kind": "len-sweep", "bg": bg, "part": part, "parts": 2, "tier": tier})
    items.append({"kind": "oversize"})
    items.append({"kind": "defaults", "k": 8})
    for axis in range(6):
        items.append({"kind": "len-x-edge", "axis": axis})
    for kk in range(_k(tier)):
        for mode in H_MODES:
            if tier == "quick":
                items.append({"kind": "history", "k": kk, "mode": mode, "depth": h_depth(tier)})
            else:
                for first in range(len(H_EVENTS)):
                    items.append({"kind": "history", "k": kk, "mode": mode, "depth": h_depth(tier), "first": first})
    for total in range(12, 6, -1):  # simplest witness first: 12 octets, nothing overlapping
        for part in range(4):
            items.append({"kind": "reject", "total": total, "apid_lo": 512 * part, "apid_hi": 512 * (part + 1), "tier": tier})
    for total in (7, 8):
        for part in range(4):
            items.append({"kind": "reject-solved", "total": total, "apid_lo": 512 * part, "apid_hi": 512 * (part + 1), "tier": tier})
    # one shard of every kind first, so that the evidence samples (first six) show every kind of case
    first, rest, seen = [], [], set()
    for it in items:
        (rest if it["kind"] in seen else first).append(it)
        seen.add(it["kind"])
    return first + rest


# ------------------------------------------------------------------------ data specs
def data_of(spec):
    if spec[0] == "hex":
        return bytes.fromhex(spec[1])
    if spec[0] == "shaped":
        return D.shaped(spec[1])[spec[2]]
    raise AssertionError(spec)


def _tc():
    import spacepackets.ecss.tc as m

    return m


def _region(raw, ref):
    if len(raw) != len(ref):
        return "length"
    i = next(i for i in range(len(ref)) if raw[i] != ref[i])
    if i < 6:
        return "primary-header"
    if i < 11:
        return "secondary-header"
    return "crc" if i >= len(ref) - 2 else "app-data"


OBS = ("service", "subservice", "apid", "seq_count", "source_id", "ack_flags", "app_data", "crc16", "data_len", "packet_len",
       "packet_type", "sec_header_flag", "seq_flags", "ccsds_version")


def observe(u):
    return (u.service, u.subservice, u.apid, u.seq_count, u.source_id, int(u.pus_tc_sec_header.ack_flags), bytes(u.app_data),
            None if u.crc16 is None else bytes(u.crc16), u.sp_header.data_len, u.packet_len, int(u.packet_type),
            int(bool(u.sec_header_flag)), int(u.seq_flags), u.ccsds_version)


def keep_obs(o):
    """copying observation of a telecommand object held by the Keeper: plain attribute reads only (an observation that
    called pack() would itself write whatever hidden state the library shares, and could repair what it is looking for);
    the octets are held separately - the very bytearray pack() returned"""
    return observe(o)


def keep_view(sp):
    h = sp.sp_header
    return (h.apid, h.seq_count, h.data_len, int(h.packet_type), int(h.seq_flags), None if sp.sec_header is None else bytes(sp.sec_header),
            None if sp.user_data is None else bytes(sp.user_data))


def keep_depth(routes: bool, deep: bool) -> int:
    """ring size of the Keeper = twice the number of results one vector hands out, so that every result is
    observed again after the rest of its own script and after the complete script of the next vector"""
    return 2 * (3 + (2 if deep else 0) + (3 if routes else 0))


def keep_hdr(h):
    return (h.service, h.subservice, h.source_id, int(h.ack_flags), int(h.pus_version))


def check_tc(rec: Rec, f, spec, nontrivial=True, routes=False, deep=True, keeper=None):
    """one telecommand vector: the fixed script, then (independence clause) everything the library handed out
    for the previous vectors of the shard is observed again"""
    case = {"kind": "tc", "f": list(f), "data": list(spec), "routes": bool(routes), "deep": bool(deep)}
    try:
        _tc_script(rec, case, f, spec, nontrivial, routes, deep, keeper)
    finally:
        if keeper is not None:
            keeper.recheck(case)


def _tc_script(rec: Rec, case, f, spec, nontrivial, routes, deep, keeper):
    """the fixed script of operations for one telecommand vector.  deep: also the generic
    space-packet view (of the original and of the decoded packet) and check_pus_crc - these
    three library calls build a crcmod table each (0.3 ms apiece, 85 % of a case), so the
    quick tier runs them on a stated covering subset of the vectors, the thorough tier on all."""
    m = _tc()
    from spacepackets.ccsds.spacepacket import PacketType, SpacePacketHeader
    from spacepackets.ecss import check_pus_crc

    svc, sub, apid, cnt, src, ack = f
    data = data_of(spec)
    ref = RP.tc(svc, sub, apid, cnt, src, ack, data)

    def hold(subject, obj, obs):
        if keeper is not None:
            keeper.hold(subject, obj, obs, case)

    rec.case(nontrivial, ops=10 + (3 if deep else 0) + (9 if routes else 0))
    if deep:
        rec.count("vectors_with_space_packet_view_and_check_pus_crc")
    if len(ref) <= 24 and any(f):
        rec.sample({"telecommand": dict(zip(AXES, f)), "app_data": data.hex(), "expected_octets": ref.hex()}, limit=1)

    def bad(kind, observed=None, expected=None):
        rec.violation("C02." + kind, case, observed, expected,
                      repro="PusTc(service=%d, subservice=%d, apid=%d, seq_count=%d, source_id=%d, ack_flags=%d, app_data=bytes.fromhex(%r))"
                            % (svc, sub, apid, cnt, src, ack, data.hex()[:80]))

    def short(b):
        b = bytes(b)
        return b if len(b) <= 64 else b[:32] + b"...." + b[-16:]

    try:
        tc = m.PusTc(svc, sub, apid=apid, app_data=data, seq_count=cnt, source_id=src, ack_flags=ack)
        raw_obj = tc.pack()
        raw = bytes(raw_obj)
    except Exception as e:
        return bad("encode/PusTc.pack/exception/" + type(e).__name__, repr(e), short(ref))
    hold("PusTc.pack", raw_obj, bytes)
    hold("PusTc()", tc, keep_obs)
    if raw != ref:
        return bad("encode/PusTc.pack/octets/" + _region(raw, ref), short(raw), short(ref))
    if tc.packet_len != len(ref):
        bad("length/PusTc.packet_len", tc.packet_len, len(ref))
    if tc.crc16 is None or bytes(tc.crc16) != ref[-2:]:
        bad("encode/PusTc.crc16", tc.crc16, ref[-2:])
    again = bytes(tc.pack(recalc_crc=False))
    if again != ref:
        bad("encode/PusTc.pack(recalc_crc=False)-after-pack/octets/" + _region(again, ref), short(again), short(ref))
    if deep:
        try:
            sp = tc.to_space_packet()
            view = bytes(sp.pack())
            if view != ref:
                bad("view/PusTc.to_space_packet/octets/" + _region(view, ref), short(view), short(ref))
            hold("PusTc.to_space_packet", sp, keep_view)
        except Exception as e:
            bad("view/PusTc.to_space_packet/exception/" + type(e).__name__, repr(e), None)
        if check_pus_crc(ref) is not True:
            bad("crc/check_pus_crc/valid-packet-rejected", False, True)
    try:
        u = m.PusTc.unpack(ref)
    except Exception as e:
        return bad("decode/PusTc.unpack/exception/" + type(e).__name__, repr(e), None)
    exp = (svc, sub, apid, cnt, src, ack, data, ref[-2:], len(ref) - 7, len(ref), 1, 1, 3, 0)
    obs = observe(u)
    if obs != exp:
        name = next(n for n, a, b in zip(OBS, obs, exp) if a != b)
        return bad("decode/PusTc.unpack/field=" + name, [short(x) if isinstance(x, bytes) else x for x in obs],
                   [short(x) if isinstance(x, bytes) else x for x in exp])
    hold("PusTc.unpack", u, keep_obs)
    if not (u == tc and tc == u):
        bad("inverse/PusTc.unpack/decoded-not-equal-original")
    re = bytes(u.pack())
    if re != ref:
        bad("inverse/unpack-then-pack/octets/" + _region(re, ref), short(re), short(ref))
    if deep:
        sp = u.to_space_packet()
        view = bytes(sp.pack())
        if view != ref:
            bad("view/decoded.to_space_packet/octets/" + _region(view, ref), short(view), short(ref))
        hold("decoded.to_space_packet", sp, keep_view)
    rec.outcome("roundtrip-ok/len%d" % min(len(data), 18))
    if routes:
        try:
            # the caller's header arrives with whatever length it carried before (a header re-used for the next telecommand, a
            # placeholder): the constructor derives the length field from the application data, whatever was there
            stale = (0, 0x0123, 6, 0xFFFF)[(apid + cnt + len(data)) % 4]
            # ... and whatever packet type (the constructor makes it a telecommand header)
            a = m.PusTc.from_sp_header(SpacePacketHeader(PacketType.TC if (apid + cnt) % 2 else PacketType.TM, apid, cnt, stale), svc, sub, data, src, ack)
            ra = bytes(a.pack())
            if ra != ref:
                bad("encode/PusTc.from_sp_header/octets/" + _region(ra, ref), short(ra), short(ref))
            elif not (a == tc and a.packet_len == len(ref)):
                bad("encode/PusTc.from_sp_header/not-equal-constructor")
            b = m.PusTc.from_composite_fields(SpacePacketHeader(PacketType.TC, apid, cnt, len(ref) - 7, True),
                                              m.PusTcDataFieldHeader(service=svc, subservice=sub, source_id=src, ack_flags=ack), data)
            rb = bytes(b.pack())
            if rb != ref:
                bad("encode/PusTc.from_composite_fields/octets/" + _region(rb, ref), short(rb), short(ref))
            sh = m.PusTcDataFieldHeader.unpack(ref[6:])
            if (sh.service, sh.subservice, sh.source_id, int(sh.ack_flags)) != (svc, sub, src, ack) or bytes(sh.pack()) != ref[6:11]:
                bad("decode/PusTcDataFieldHeader.unpack/fields", (sh.service, sh.subservice, sh.source_id, int(sh.ack_flags)), (svc, sub, src, ack))
            # the other input form: the decoder is handed the bytearray pack() returns (followed by neighbouring octets), and the
            # caller's buffer is reused afterwards - what was decoded from it is a value, not a view of that buffer
            buf = bytearray(ref) + bytearray(b"\xa5" * 3)
            v = m.PusTc.unpack(buf)
            for i in range(len(buf)):
                buf[i] ^= 0xFF
            if observe(v) != exp or bytes(v.pack()) != ref or not v == tc:
                bad("decode/PusTc.unpack(bytearray)/fields-after-the-buffer-was-reused", [short(x) if isinstance(x, (bytes, bytearray)) else x for x in observe(v)],
                    [short(x) if isinstance(x, bytes) else x for x in exp])
            hold("PusTcDataFieldHeader.unpack", sh, keep_hdr)
            hold("PusTc.from_sp_header", a, keep_obs)
            hold("PusTc.from_composite_fields", b, keep_obs)
        except Exception as e:
            bad("encode/alternative-constructors/exception/" + type(e).__name__, repr(e), None)


def check_oversize(rec: Rec, length, idx):
    """application data that does not fit a space packet must not come out as octets"""
    m = _tc()
    data = D.shaped(length)[idx]
    case = {"kind": "oversize", "len": length, "idx": idx}
    rec.case(True, ops=1)
    try:
        raw = m.PusTc(17, 1, apid=1, app_data=data).pack()
    except Exception as e:
        rec.outcome("oversize-refused:" + type(e).__name__)
        return
    rec.violation("C02.fit/PusTc/oversize-application-data-encoded", case, {"octets": len(raw), "length_field": bytes(raw[4:6])}, "an exception")


def check_reject(rec: Rec, buf: bytes, total: int, nontrivial: bool):
    """buf[:total] is a CRC-consistent space packet declaring total < 13 octets; the decoder must raise"""
    m = _tc()
    assert 7 <= total < RP.TC_MIN_LEN and len(buf) >= total and crc16(buf[:total]) == 0 and int.from_bytes(buf[4:6], "big") == total - 7
    case = {"kind": "reject", "total": total, "buf": buf}
    rec.case(nontrivial, ops=1)
    try:
        u = m.PusTc.unpack(buf)
    except (ValueError, m.InvalidTcCrc16) as e:
        rec.outcome("reject:" + type(e).__name__)
        return
    except Exception as e:
        rec.violation("C02.reject/PusTc.unpack/undocumented-exception/" + type(e).__name__, case, repr(e), "ValueError (or a documented decode error)")
        return
    rec.outcome("reject:ACCEPTED")
    rec.violation("C02.reject/PusTc.unpack/accepted-declared-length-too-small", case,
                  {"declared_total": total, "decoded": {"service": u.service, "subservice": u.subservice, "source_id": u.source_id,
                                                        "app_data": bytes(u.app_data), "crc16": bytes(u.crc16)}},
                  "an exception: %d octets cannot hold a 5-octet secondary header and a CRC" % total,
                  repro="PusTc.unpack(bytes.fromhex(%r))" % buf.hex())


def looks_pus_c(buf):
    return len(buf) > 6 and buf[6] >> 4 == RP.PUS_C



# ---------------------------------------------------- entry-point forms: omitted keyword arguments
OPTIONAL = ("apid", "app_data", "seq_count", "source_id", "ack_flags")  # documented defaults: 0, b"", 0, 0, 0b1111
DEFAULTS = {"apid": 0, "app_data": b"", "seq_count": 0, "source_id": 0, "ack_flags": 0b1111}


def check_defaults(rec: Rec, k, mask, rnd, keeper=None):
    """PusTc(service, subservice, <the optional arguments selected by mask>): the omitted ones take the documented default"""
    m = _tc()
    given = dict(zip(AXES + ("app_data",), background(k) + (BG_DATA[k] or b"\x0d",)))
    if given["ack_flags"] == 0b1111:
        given["ack_flags"] = 0b1001
    case = {"kind": "defaults", "k": k, "mask": mask, "round": rnd}
    kw = {n: given[n] for i, n in enumerate(OPTIONAL) if mask >> i & 1}
    full = dict(DEFAULTS, **kw)
    ref = RP.tc(given["service"], given["subservice"], full["apid"], full["seq_count"], full["source_id"], full["ack_flags"], full["app_data"])
    rec.case(rnd == 0 and not (mask == 31 and k < 8), ops=4)  # all five given = a vector of the sweeps; second round = same vectors again
    try:
        tc = m.PusTc(given["service"], given["subservice"], **kw)
        raw_obj = tc.pack()
        if bytes(raw_obj) != ref:
            rec.violation("C02.encode/PusTc(omitted-arguments)/octets/" + _region(bytes(raw_obj), ref), case, bytes(raw_obj), ref,
                          repro="PusTc(%d, %d, **%r).pack()" % (given["service"], given["subservice"], kw))
        else:
            u = m.PusTc.unpack(ref)
            exp = (given["service"], given["subservice"], full["apid"], full["seq_count"], full["source_id"], full["ack_flags"], full["app_data"])
            if observe(u)[:7] != exp or observe(tc)[:7] != exp or not (u == tc and tc == u) or bytes(tc.to_space_packet().pack()) != ref:
                rec.violation("C02.encode/PusTc(omitted-arguments)/fields", case, [observe(tc)[:7], observe(u)[:7]], exp)
            if keeper is not None:
                keeper.hold("PusTc.pack", raw_obj, bytes, case)
                keeper.hold("PusTc()", tc, keep_obs, case)
                keeper.hold("PusTc.unpack", u, keep_obs, case)
        rec.outcome("defaults-ok/%d-omitted" % (5 - bin(mask).count("1")))
    except Exception as e:
        rec.violation("C02.encode/PusTc(omitted-arguments)/exception/" + type(e).__name__, case, repr(e), ref)
    finally:
        if keeper is not None:
            keeper.recheck(case)


# ------------------------------------------------------------------- histories (engine H)
# One telecommand OBJECT is driven through every sequence of public operations; a plain dict (the model) holds
# the values last set.  The property speaks about "the packed telecommand" and "the generic space-packet view of
# the telecommand" for every value of the fields: it holds for the values the object has NOW, however they got
# there (constructor, decoder, property setter) and whatever was read from the object before.
H_SET = {
    "apid": [0x7FF, 0x2AA],
    "seq_count": [0x3FFF, 0x1555],
    "source_id": [0xFFFF, 0x00A5],
    "app_data": [b"", b"\x5a", b"\x01\x02\x03\x04", b"\xc3" * 300],  # shorter / as long as / longer than the start values' data / length > 255
}
H_READ = ["pack", "pack(recalc_crc=False)", "calc_crc", "to_space_packet", "decode-another", "setters-on-a-twin"]
H_EVENTS = H_READ + ["%s=%d" % (k, i) for k in ("apid", "seq_count", "source_id", "app_data") for i in range(len(H_SET[k]))]
H_MODES = ["constructed", "decoded", "from_sp_header", "from_composite_fields", "constructed(bytearray)", "decoded(bytearray)"]  # the last two: application data / receive buffer handed over as bytearray (mutable: in-place aliasing shows only here)
H_OTHER = dict(service=0xC3, subservice=0x3C, apid=0x123, seq_count=0x0ABC, source_id=0x1357, ack_flags=0b0110, app_data=b"\xde\xad\xbe\xef\x99")
H_KEYS = ("service", "subservice", "apid", "seq_count", "source_id", "ack_flags", "app_data")
_REF_MEMO = {}


def h_depth(tier):
    return 3 if tier == "quick" else 4


def h_ref(model) -> bytes:
    key = tuple(model[k] for k in H_KEYS)
    r = _REF_MEMO.get(key)
    if r is None:
        r = _REF_MEMO[key] = RP.tc(**model)
    return r


def h_start(k):
    return dict(zip(H_KEYS, background(k) + (BG_DATA[k],)))


def h_make(m, mode, model):
    from spacepackets.ccsds.spacepacket import PacketType, SpacePacketHeader

    v = model
    if mode == "constructed":
        return m.PusTc(v["service"], v["subservice"], apid=v["apid"], app_data=v["app_data"], seq_count=v["seq_count"],
                       source_id=v["source_id"], ack_flags=v["ack_flags"])
    if mode == "decoded":
        return m.PusTc.unpack(h_ref(model))
    if mode == "constructed(bytearray)":
        return m.PusTc(v["service"], v["subservice"], apid=v["apid"], app_data=bytearray(v["app_data"]), seq_count=v["seq_count"],
                       source_id=v["source_id"], ack_flags=v["ack_flags"])
    if mode == "decoded(bytearray)":
        return m.PusTc.unpack(bytearray(h_ref(model)))
    if mode == "from_sp_header":
        return m.PusTc.from_sp_header(SpacePacketHeader(PacketType.TC, v["apid"], v["seq_count"], 0x0123), v["service"], v["subservice"],
                                      v["app_data"], v["source_id"], v["ack_flags"])
    if mode == "from_composite_fields":
        return m.PusTc.from_composite_fields(
            SpacePacketHeader(PacketType.TC, v["apid"], v["seq_count"], len(h_ref(model)) - 7, True),
            m.PusTcDataFieldHeader(service=v["service"], subservice=v["subservice"], source_id=v["source_id"], ack_flags=v["ack_flags"]),
            v["app_data"])
    raise AssertionError(mode)


def h_pure(o):
    """observations that are plain attribute reads (no cache is filled by making them)"""
    return observe(o)[:7] + (o.sp_header.data_len, o.packet_len, int(o.packet_type), int(bool(o.sec_header_flag)), int(o.seq_flags), o.ccsds_version)


def run_history(rec: Rec, k, mode, events, nontrivial=True):
    """executes one history on a fresh object; after the start and after every event the pure observations are
    compared with the model, and what a reading event returns is compared with the reference octets of the model.
    crc16 is demanded right after the operations documented to (re)calculate it; pack(recalc_crc=False) is judged
    only while no setter ran since the last calculation (its documented precondition)."""
    m = _tc()
    model = h_start(k)
    rec.case(nontrivial, ops=0)
    state = {"i": -1, "failed": False}

    def bad(kind, observed=None, expected=None):
        i = state["i"]
        state["failed"] = True
        case = {"kind": "history", "k": k, "mode": mode, "events": list(events[: i + 1])}
        lines = ["model = %r" % (h_start(k),), "tc = <%s from model>" % mode] + ["tc: " + e for e in events[: i + 1]]
        rec.violation("C02.history/" + kind, case, observed, expected, repro="; ".join(lines),
                      note="start values: background %d, start state: %s; setter values: %r; the expected octets are ref/pus.py of the values last set"
                           % (k, mode, {n: [x.hex() if isinstance(x, bytes) else x for x in vs] for n, vs in H_SET.items()}))

    def short(b):
        return b if not isinstance(b, (bytes, bytearray)) else bytes(b)[:48]

    def pure(after):
        ref = h_ref(model)
        exp = tuple(model[k_] for k_ in H_KEYS) + (len(ref) - 7, len(ref), 1, 1, 3, 0)
        try:
            obs = h_pure(o)
        except Exception as e:
            return bad("%s/then-accessors/exception/%s" % (after, type(e).__name__), repr(e), None)
        rec.ops += 1
        if obs != exp:
            names = H_KEYS + ("data_len", "packet_len", "packet_type", "sec_header_flag", "seq_flags", "ccsds_version")
            name = next(n for n, a, b in zip(names, obs, exp) if a != b)
            return bad("%s/then/field=%s" % (after, name), [short(x) for x in obs], [short(x) for x in exp])
        twin = m.PusTc(model["service"], model["subservice"], apid=model["apid"], app_data=model["app_data"], seq_count=model["seq_count"],
                       source_id=model["source_id"], ack_flags=model["ack_flags"])
        if not (o == twin and twin == o):
            bad("%s/then/not-equal-to-a-fresh-telecommand-with-the-same-values" % after)

    try:
        o = h_make(m, mode, model)
    except Exception as e:
        return bad("start=%s/exception/%s" % (mode, type(e).__name__), repr(e), None)
    crc = "fresh" if mode.startswith("decoded") else "none"
    pure("start=" + mode)
    if mode.startswith("decoded") and (o.crc16 is None or bytes(o.crc16) != h_ref(model)[-2:]):
        bad("start=decoded/crc16", o.crc16, h_ref(model)[-2:])
    for i, ev in enumerate(events):
        if state["failed"]:
            break  # simplest witness: the history up to the first deviation
        state["i"] = i
        rec.ops += 1
        ref = h_ref(model)
        name = "PusTc." + ev.split("=")[0]
        try:
            if ev == "pack":
                out = bytes(o.pack())
                crc = "fresh"
                if out != ref:
                    bad("PusTc.pack/octets/" + _region(out, ref), short(out), short(ref))
            elif ev == "pack(recalc_crc=False)":
                out = bytes(o.pack(recalc_crc=False))
                if crc == "stale":
                    rec.count("history_pack_without_recalc_on_stale_crc_not_judged")
                else:
                    crc = "fresh"
                    if out != ref:
                        bad("PusTc.pack(recalc_crc=False)/octets/" + _region(out, ref), short(out), short(ref))
                name = None
            elif ev == "calc_crc":
                o.calc_crc()
                crc = "fresh"
            elif ev == "to_space_packet":
                sp = o.to_space_packet()
                crc = "fresh"
                out = bytes(sp.pack())
                if out != ref:
                    bad("PusTc.to_space_packet/octets/" + _region(out, ref), short(out), short(ref))
                elif (sp.apid, sp.seq_count) != (model["apid"], model["seq_count"]):
                    bad("PusTc.to_space_packet/accessors", (sp.apid, sp.seq_count), (model["apid"], model["seq_count"]))
            elif ev == "decode-another":
                # an unrelated telecommand is built, packed, viewed and decoded in between: must not touch this one
                other_ref = h_ref(H_OTHER)
                x = m.PusTc(H_OTHER["service"], H_OTHER["subservice"], apid=H_OTHER["apid"], app_data=H_OTHER["app_data"], seq_count=H_OTHER["seq_count"],
                            source_id=H_OTHER["source_id"], ack_flags=H_OTHER["ack_flags"])
                y = m.PusTc.unpack(other_ref)
                if bytes(x.pack()) != other_ref or bytes(y.pack()) != other_ref or bytes(y.to_space_packet().pack()) != other_ref or h_pure(y)[:7] != tuple(H_OTHER[k_] for k_ in H_KEYS):
                    bad("another-telecommand/octets", short(bytes(y.pack())), short(other_ref))
                name = None
            elif ev == "setters-on-a-twin":
                # two more telecommands with the SAME values (one constructed, one decoded) are modified through every setter: this one must not follow
                tw = dict(model, apid=model["apid"] ^ 0x155, seq_count=model["seq_count"] ^ 0x0AAA, source_id=model["source_id"] ^ 0x5A5A, app_data=model["app_data"] + b"\x77")
                for twin in (h_make(m, "constructed", model), h_make(m, "decoded", model)):
                    for field in ("apid", "seq_count", "source_id", "app_data"):
                        setattr(twin, field, tw[field])
                    out = bytes(twin.pack())
                    if out != h_ref(tw):
                        bad("twin-telecommand/octets/" + _region(out, h_ref(tw)), short(out), short(h_ref(tw)))
                name = None
            else:
                field, idx = ev.split("=")
                val = H_SET[field][int(idx)]
                setattr(o, field, val)
                model[field] = val
                if crc == "fresh":
                    crc = "stale"
                name = None
        except Exception as e:
            bad("PusTc.%s/exception/%s" % (ev.split("=")[0], type(e).__name__), repr(e), None)
            break
        if name is not None and crc == "fresh" and not state["failed"]:
            c = o.crc16
            if c is None or bytes(c) != ref[-2:]:
                bad(name + "/then/crc16", c, ref[-2:])
        if not state["failed"]:
            pure("PusTc." + ev.split("=")[0] + ("=" if "=" in ev else ""))
    rec.outcome("history-end/crc-" + crc)


def run_histories(rec: Rec, item):
    depth, first = item["depth"], item.get("first")
    n = 0
    for tail in itertools.product(range(len(H_EVENTS)), repeat=depth - (0 if first is None else 1)):
        idx = tail if first is None else (first,) + tail
        run_history(rec, item["k"], item["mode"], [H_EVENTS[i] for i in idx])
        n += 1
    rec.count("histories_depth_%d" % depth, n)
    rec.count("history_events_applied", n * depth)
    # distinct (start, prefix) pairs = states of the explicit-state exploration rooted at this shard's start
    if first is None:
        rec.count("history_states", sum(len(H_EVENTS) ** d for d in range(depth + 1)))
    else:
        rec.count("history_states", sum(len(H_EVENTS) ** d for d in range(depth)) + (1 if first == 0 else 0))
    rec.sample({"history": {"start_values": {k_: (v.hex() if isinstance(v, bytes) else v) for k_, v in h_start(item["k"]).items()}, "start_state": item["mode"],
                            "events": [H_EVENTS[i] for i in idx], "event_menu": H_EVENTS},
                "expected": "after every event: accessors, packet_len, == fresh object, and every octet string read = ref/pus.py of the values last set"}, limit=1)


# ------------------------------------------------------------------------------ shards
def run_shard(item):
    rec = Rec(PROPERTY, item)
    kind = item["kind"]
    keeper = None
    if kind in ("sweep", "edge", "payload", "lengths", "len-sweep"):
        keeper = Keeper(rec, PROPERTY, depth=keep_depth(kind in ("edge", "lengths"), bool(item.get("all_deep")) or kind == "lengths"))
    if kind == "sweep" and item["axis"] == 0 and item["lo"] == 0:
        # telecommands that exist in every mission, with application data: the ping TC[17,1], housekeeping TC[3,x], event TC[5,x]
        # with subservices the library's own enumerations do not list (the codec carries numbers, not meanings)
        for svc, sub in ((17, 1), (17, 2), (3, 1), (3, 3), (3, 27), (5, 7), (5, 8), (1, 1), (8, 1), (20, 3)):
            for data in (b"", b"\x01\x02", b"\x00", bytes(16)):
                check_tc(rec, (svc, sub, 0x42, 0x11, 1, 9), ("hex", data.hex()), routes=True, deep=True, keeper=keeper)
    if kind == "sweep":
        axis = item["axis"]
        n = BITS[axis]
        walk = set(D.walk(n))
        for k in range(item["k"]):
            bg = background(k)
            spec = ("hex", BG_DATA[k].hex())
            for v in range(item["lo"], item["hi"]):
                f = bg[:axis] + (v,) + bg[axis + 1:]
                deep = item["all_deep"] or n <= 11 or v % 17 == 0 or v in walk
                check_tc(rec, f, spec, nontrivial=not (v == bg[axis] and axis > 0), deep=deep, keeper=keeper)
        rec.count("sweep_values_" + AXES[axis], item["hi"] - item["lo"])
    elif kind == "edge":
        e = [D.edge(n) for n in BITS]
        n = 0
        for j in item["j"]:
            for a, b, c, d in itertools.product(range(8), repeat=4):
                deep = item["all_deep"] or (item["i"] + j + a + b + c + d) % 8 == 0
                check_tc(rec, (e[0][item["i"]], e[1][j], e[2][a], e[3][b], e[4][c], e[5][d]), ("hex", EDGE_DATA.hex()), routes=True, deep=deep, keeper=keeper)
                n += 1
        rec.count("edge_product_vectors", n)
    elif kind == "payload":
        k = item["bg"]
        bg = background(k)
        allb = D.all_bytes(2)
        lo, hi = len(allb) * item["part"] // item["parts"], len(allb) * (item["part"] + 1) // item["parts"]
        for d in allb[lo:hi]:
            deep = item["all_deep"] or len(d) <= 1 or (d[0] + d[1]) % 16 == 0
            check_tc(rec, bg, ("hex", d.hex()), nontrivial=d != BG_DATA[k], deep=deep, keeper=keeper)
        rec.count("payloads_len<=2", hi - lo)
    elif kind == "lengths":
        k = item["bg"]
        bg = background(k)
        for L in LENGTHS:
            for idx in range(len(D.shaped(L))):
                check_tc(rec, bg, ("shaped", L, idx), nontrivial=L > 2, routes=True, keeper=keeper)
                rec.count("shaped_payloads")
    elif kind == "len-sweep":
        bg = background(item["bg"])
        n = 0
        for i, L in enumerate(sweep_lengths(item["tier"])):
            if i % item["parts"] != item["part"] or L > 65529:
                continue
            check_tc(rec, bg, ("shaped", L, (i + item["bg"]) % len(D.shaped(L))), nontrivial=L not in LENGTHS, deep=(i % 8 == 0), keeper=keeper)
            n += 1
        rec.count("length_sweep_payloads", n)
    elif kind == "history":
        run_histories(rec, item)
    elif kind == "defaults":
        keeper = Keeper(rec, PROPERTY, depth=6)
        for rnd in range(2):  # the second round shows a default value that the first round's use has changed
            for k in range(item["k"]):
                for mask in range(32):
                    check_defaults(rec, k, mask, rnd, keeper)
        rec.count("omitted_argument_forms", 32 * item["k"])
    elif kind == "len-x-edge":
        axis = item["axis"]
        keeper = Keeper(rec, PROPERTY, depth=keep_depth(False, True))
        for L in LENGTHS:
            shapes = range(len(D.shaped(L))) if L <= 1024 else [2]  # the two largest that fit: incrementing content only
            for idx in shapes:
                for v in D.edge(BITS[axis]):
                    bg = background(0)
                    # value 0 of this axis under this length is background 0 itself = a vector of the lengths shard (bg 0)
                    check_tc(rec, bg[:axis] + (v,) + bg[axis + 1:], ("shaped", L, idx), nontrivial=v != bg[axis], keeper=keeper)
                    rec.count("length_x_edge_vectors")
    elif kind == "oversize":
        for L in OVERSIZE:
            for idx in range(len(D.shaped(L))):
                check_oversize(rec, L, idx)
    elif kind == "reject":
        total = item["total"]
        for apid in range(item["apid_lo"], item["apid_hi"]):
            for seq in reject_seqs(item["tier"]):
                pkt = RP.forge_declared_len(total, RP.TC, apid, seq, FILL)
                if pkt is None:
                    rec.count("reject_unbuildable_len7")  # CRC high octet does not match the length octet it overlaps
                    continue
                for t in TAILS:
                    buf = pkt + t
                    check_reject(rec, buf, total, nontrivial=looks_pus_c(buf))
                rec.count("reject_forged_packets")
        rec.sample({"forged_packet_declaring_total_len": total, "octets": (RP.forge_declared_len(total, RP.TC, item["apid_lo"] + 1, 1, FILL) or b"").hex(),
                    "followed_by_each_of": [t.hex() for t in TAILS], "expected": "PusTc.unpack raises"}, limit=1)
    elif kind == "reject-solved":
        total = item["total"]
        walk = set(reject_seqs(item["tier"]))
        solver = RP.SeqWordSolver(total - 6)
        if total == 7:
            targets = [0x0020 | ack for ack in range(16)]  # CRC high octet = length low octet 0, low octet = 2|ack
        elif item["tier"] == "quick":
            targets = [(0x20 | ack) << 8 | svc for ack in D.edge(4) for svc in D.edge(8)]
        else:
            targets = [(0x20 | ack) << 8 | svc for ack in D.full(4) for svc in D.walk(8)]
        length_field = (total - 7).to_bytes(2, "big")
        for apid in range(item["apid_lo"], item["apid_hi"]):
            first2 = (0x1800 | apid).to_bytes(2, "big")
            for want in targets:
                w = solver.solve(first2, length_field[: total - 6], want)
                rec.count("reject_solved_words")
                if w >> 14 != RP.UNSEGMENTED:
                    continue
                pkt = RP.forge_declared_len(total, RP.TC, apid, w & 0x3FFF, b"")
                assert pkt is not None and looks_pus_c(pkt), (total, apid, w)
                for t in TAILS:
                    check_reject(rec, pkt + t, total, nontrivial=(w & 0x3FFF) not in walk)
                rec.count("reject_solved_packets")
                rec.sample({"forged_packet_declaring_total_len": total, "octets": pkt.hex(), "note": "sequence control word solved so that the trailer reads as PUS-C",
                            "followed_by_each_of": [t.hex() for t in TAILS], "expected": "PusTc.unpack raises"}, limit=1)
    if keeper is not None:
        keeper.flush()
    return rec.result()


def replay(case):
    rec = Rec(PROPERTY, "replay")
    case = unhex(case)
    if case["kind"] == "tc":
        check_tc(rec, tuple(case["f"]), tuple(case["data"]), routes=True, deep=True)
    elif case["kind"] == "defaults":
        check_defaults(rec, case["k"], case["mask"], case["round"])
    elif case["kind"] == "history":
        run_history(rec, case["k"], case["mode"], list(case["events"]))
    elif case["kind"] == "oversize":
        check_oversize(rec, case["len"], case["idx"])
    elif case["kind"] == "reject":
        check_reject(rec, bytes(case["buf"]), case["total"], True)
    return rec.result()


def finalize(tier, agg):
    c = agg["counters"]
    return {
        "per_axis_values_swept": {a: "%d/%d" % (c.get("sweep_values_" + a, 0) // 1, 1 << n) for a, n in zip(AXES, BITS)},
        "backgrounds": _k(tier),
        "deviation_bound": "d=1 full alphabets in K backgrounds; d=6 over edge alphabets (full product)",
        "histories": {"depth": h_depth(tier), "event_menu": H_EVENTS, "start_states": H_MODES, "executed": c.get("histories_depth_%d" % h_depth(tier), 0),
                      "states": c.get("history_states", 0), "transitions": c.get("history_events_applied", 0)},
        "independence": {"results_held": c.get("independence_results_held", 0), "reobservations": c.get("independence_reobservations", 0)},
        "observed_outcomes": sorted(agg["outcomes"])[:40],
    }
