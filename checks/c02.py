"""C02 - PUS-C telecommand encode/decode (engines V + F).  DESIGN.md section 4, C02."""

from __future__ import annotations

import itertools

from mc import domains as D
from mc.rec import Rec, unhex
from ref import pus as RP
from ref.crc16 import crc16

PROPERTY = "C02"
LEVEL = "model_checking"  # bounded-exhaustive enumeration of executions against a reference model (DESIGN.md 1, 2.1)
EXHAUSTIVE = True
RULE = (
    "telecommand = (service 8, subservice 8, APID 11, seq count 14, source ID 16, ack 4, application data). "
    "d=1: every value of every field (84 496 values) in each of K diagonal background vectors; full product of the "
    "8-value edge alphabets of the six fields (262 144, also through from_sp_header/from_composite_fields); every "
    "application-data string of length <= 2 (65 793) in Kp backgrounds; shaped data of lengths 0..17, 255..257, 1024, "
    "65528, 65529 (largest that fits) and 65530.. (must not be encoded). Each case runs construct/pack/unpack/re-pack/"
    "compare against ref/pus.py; the generic space-packet view (original and decoded) and check_pus_crc run on every vector "
    "in the thorough tier and on a covering subset in the quick tier (see bounds). Rejection clause: for every declared total length 7..12 and every "
    "APID x sequence-count alphabet x 5 continuations, a CRC-consistent octet string whose only fault is the declared "
    "length; for lengths 7 and 8 (trailer overlaps the version octet) additionally every sequence-control word that makes "
    "the trailer read as PUS-C (solved, not searched). Distinct non-trivial: a vector not produced by an earlier part of "
    "the enumeration (background vector counted once; payloads equal to a background payload counted once); a forged "
    "buffer counts only when its octet 6 carries version nibble 2 (otherwise any decoder refuses it for the version)."
)
BOUNDS = {
    "quick": "K=4 backgrounds, Kp=2 payload backgrounds; space-packet view + check_pus_crc on: every value of the 8/11/4-bit "
             "fields, walk(n) and every 17th value of the 14/16-bit fields, a strength-5 covering array of the edge product "
             "(index sum = 0 mod 8: 32 768 vectors), payloads of length <= 1 and the 2-octet payloads with (b0+b1) mod 16 = 0, "
             "all shaped lengths; reject: seq count in walk(14) (34 values), solved trailers ack in edge(4) x service in edge(8)",
    "thorough": "K=8 backgrounds, Kp=4, space-packet view + check_pus_crc on every vector; reject: seq count in walk(14) U every 61st value (302 values), solved trailers ack in full(4) x service in walk(8)",
}
ASSUMPTIONS = [
    "ref/pus.py, ref/ccsds.py, ref/crc16.py transcribe ECSS-E-ST-70-41C / CCSDS 133.0-B-2 (bound to the repository's expected vectors by selftest/st_ref_pus.py)",
    "two arbitrary non-edge values in two different fields at once are only covered in the K backgrounds",
    "application data between 18 and 65527 octets is represented by lengths 255, 256, 257 and 1024 only",
]

AXES = ("service", "subservice", "apid", "seq_count", "source_id", "ack_flags")
BITS = (8, 8, 11, 14, 16, 4)
BG_DATA = [b"", b"\xff", b"\x55\xaa", b"\xaa\x55", b"\x01", b"\xfe\xff", b"\x80", b"\x7f\x00"]
EDGE_DATA = b"\x01\x02\x03"  # not a background payload, so the edge product is disjoint from the sweeps
LENGTHS = list(range(18)) + [255, 256, 257, 1024, 65528, 65529]
OVERSIZE = [65530, 65531, 65536, 70000]
FILL = bytes([0x2F, 17, 1, 0, 0])
PING = RP.tc(17, 1, apid=1, seq_count=22)
TAILS = [b"", PING, bytes([17, 1, 0, 0, 0xAB, 0x62]), bytes(16), b"\xff" * 16]


def _k(tier):
    return 4 if tier == "quick" else 8


def _kp(tier):
    return 2 if tier == "quick" else 4


def background(k):
    return tuple(D.backgrounds(n, 8)[k] for n in BITS)


def reject_seqs(tier):
    s = D.walk(14)
    if tier == "thorough":
        s = D.dedupe(s + list(range(0, 16384, 61)))
    return s


def shards(tier):
    items = []
    k = _k(tier)
    for axis, n in enumerate(BITS):
        parts = {16: 16, 14: 4}.get(n, 1) * (4 if tier == "thorough" else 1)
        for p in range(parts):
            items.append({"kind": "sweep", "axis": axis, "lo": (1 << n) * p // parts, "hi": (1 << n) * (p + 1) // parts, "k": k, "all_deep": tier == "thorough"})
    for i in range(8):
        for j in range(0, 8, 2):
            items.append({"kind": "edge", "i": i, "j": [j, j + 1], "all_deep": tier == "thorough"})
    for bg in range(_kp(tier)):
        parts = 4 if tier == "quick" else 16
        for part in range(parts):
            items.append({"kind": "payload", "bg": bg, "part": part, "parts": parts, "all_deep": tier == "thorough"})
    for bg in range(_kp(tier)):
        items.append({"kind": "lengths", "bg": bg})
    items.append({"kind": "oversize"})
    for total in range(12, 6, -1):  # simplest witness first: 12 octets, nothing overlapping
        for part in range(4):
            items.append({"kind": "reject", "total": total, "apid_lo": 512 * part, "apid_hi": 512 * (part + 1), "tier": tier})
    for total in (7, 8):
        for part in range(4):
            items.append({"kind": "reject-solved", "total": total, "apid_lo": 512 * part, "apid_hi": 512 * (part + 1), "tier": tier})
    # one shard of every kind first, so that the evidence samples (first six) show every kind of case
    first, rest, seen = [], [], set()
    for it in items:
        (rest if it["kind"] in seen else first).append(it)
        seen.add(it["kind"])
    return first + rest


# ------------------------------------------------------------------------ data specs
def data_of(spec):
    if spec[0] == "hex":
        return bytes.fromhex(spec[1])
    if spec[0] == "shaped":
        return D.shaped(spec[1])[spec[2]]
    raise AssertionError(spec)


def _tc():
    import spacepackets.ecss.tc as m

    return m


def _region(raw, ref):
    if len(raw) != len(ref):
        return "length"
    i = next(i for i in range(len(ref)) if raw[i] != ref[i])
    if i < 6:
        return "primary-header"
    if i < 11:
        return "secondary-header"
    return "crc" if i >= len(ref) - 2 else "app-data"


OBS = ("service", "subservice", "apid", "seq_count", "source_id", "ack_flags", "app_data", "crc16", "data_len", "packet_len",
       "packet_type", "sec_header_flag", "seq_flags", "ccsds_version")


def observe(u):
    return (u.service, u.subservice, u.apid, u.seq_count, u.source_id, int(u.pus_tc_sec_header.ack_flags), bytes(u.app_data),
            None if u.crc16 is None else bytes(u.crc16), u.sp_header.data_len, u.packet_len, int(u.packet_type),
            int(bool(u.sec_header_flag)), int(u.seq_flags), u.ccsds_version)


def check_tc(rec: Rec, f, spec, nontrivial=True, routes=False, deep=True):
    """the fixed script of operations for one telecommand vector.  deep: also the generic
    space-packet view (of the original and of the decoded packet) and check_pus_crc - these
    three library calls build a crcmod table each (0.3 ms apiece, 85 % of a case), so the
    quick tier runs them on a stated covering subset of the vectors, the thorough tier on all."""
    m = _tc()
    from spacepackets.ccsds.spacepacket import PacketType, SpacePacketHeader
    from spacepackets.ecss import check_pus_crc

    svc, sub, apid, cnt, src, ack = f
    data = data_of(spec)
    ref = RP.tc(svc, sub, apid, cnt, src, ack, data)
    case = {"kind": "tc", "f": list(f), "data": list(spec), "routes": bool(routes), "deep": bool(deep)}
    rec.case(nontrivial, ops=10 + (3 if deep else 0) + (6 if routes else 0))
    if deep:
        rec.count("vectors_with_space_packet_view_and_check_pus_crc")
    if len(ref) <= 24 and any(f):
        rec.sample({"telecommand": dict(zip(AXES, f)), "app_data": data.hex(), "expected_octets": ref.hex()}, limit=1)

    def bad(kind, observed=None, expected=None):
        rec.violation("C02." + kind, case, observed, expected,
                      repro="PusTc(service=%d, subservice=%d, apid=%d, seq_count=%d, source_id=%d, ack_flags=%d, app_data=bytes.fromhex(%r))"
                            % (svc, sub, apid, cnt, src, ack, data.hex()[:80]))

    def short(b):
        b = bytes(b)
        return b if len(b) <= 64 else b[:32] + b"...." + b[-16:]

    try:
        tc = m.PusTc(svc, sub, apid=apid, app_data=data, seq_count=cnt, source_id=src, ack_flags=ack)
        raw = bytes(tc.pack())
    except Exception as e:
        return bad("encode/PusTc.pack/exception/" + type(e).__name__, repr(e), short(ref))
    if raw != ref:
        return bad("encode/PusTc.pack/octets/" + _region(raw, ref), short(raw), short(ref))
    if tc.packet_len != len(ref):
        bad("length/PusTc.packet_len", tc.packet_len, len(ref))
    if tc.crc16 is None or bytes(tc.crc16) != ref[-2:]:
        bad("encode/PusTc.crc16", tc.crc16, ref[-2:])
    again = bytes(tc.pack(recalc_crc=False))
    if again != ref:
        bad("encode/PusTc.pack(recalc_crc=False)-after-pack/octets/" + _region(again, ref), short(again), short(ref))
    if deep:
        try:
            view = bytes(tc.to_space_packet().pack())
            if view != ref:
                bad("view/PusTc.to_space_packet/octets/" + _region(view, ref), short(view), short(ref))
        except Exception as e:
            bad("view/PusTc.to_space_packet/exception/" + type(e).__name__, repr(e), None)
        if check_pus_crc(ref) is not True:
            bad("crc/check_pus_crc/valid-packet-rejected", False, True)
    try:
        u = m.PusTc.unpack(ref)
    except Exception as e:
        return bad("decode/PusTc.unpack/exception/" + type(e).__name__, repr(e), None)
    exp = (svc, sub, apid, cnt, src, ack, data, ref[-2:], len(ref) - 7, len(ref), 1, 1, 3, 0)
    obs = observe(u)
    if obs != exp:
        name = next(n for n, a, b in zip(OBS, obs, exp) if a != b)
        return bad("decode/PusTc.unpack/field=" + name, [short(x) if isinstance(x, bytes) else x for x in obs],
                   [short(x) if isinstance(x, bytes) else x for x in exp])
    if not (u == tc and tc == u):
        bad("inverse/PusTc.unpack/decoded-not-equal-original")
    re = bytes(u.pack())
    if re != ref:
        bad("inverse/unpack-then-pack/octets/" + _region(re, ref), short(re), short(ref))
    if deep:
        view = bytes(u.to_space_packet().pack())
        if view != ref:
            bad("view/decoded.to_space_packet/octets/" + _region(view, ref), short(view), short(ref))
    rec.outcome("roundtrip-ok/len%d" % min(len(data), 18))
    if routes:
        try:
            a = m.PusTc.from_sp_header(SpacePacketHeader(PacketType.TC, apid, cnt, 0), svc, sub, data, src, ack)
            ra = bytes(a.pack())
            if ra != ref:
                bad("encode/PusTc.from_sp_header/octets/" + _region(ra, ref), short(ra), short(ref))
            elif not (a == tc and a.packet_len == len(ref)):
                bad("encode/PusTc.from_sp_header/not-equal-constructor")
            b = m.PusTc.from_composite_fields(SpacePacketHeader(PacketType.TC, apid, cnt, len(ref) - 7, True),
                                              m.PusTcDataFieldHeader(service=svc, subservice=sub, source_id=src, ack_flags=ack), data)
            rb = bytes(b.pack())
            if rb != ref:
                bad("encode/PusTc.from_composite_fields/octets/" + _region(rb, ref), short(rb), short(ref))
            sh = m.PusTcDataFieldHeader.unpack(ref[6:])
            if (sh.service, sh.subservice, sh.source_id, int(sh.ack_flags)) != (svc, sub, src, ack) or bytes(sh.pack()) != ref[6:11]:
                bad("decode/PusTcDataFieldHeader.unpack/fields", (sh.service, sh.subservice, sh.source_id, int(sh.ack_flags)), (svc, sub, src, ack))
        except Exception as e:
            bad("encode/alternative-constructors/exception/" + type(e).__name__, repr(e), None)


def check_oversize(rec: Rec, length, idx):
    """application data that does not fit a space packet must not come out as octets"""
    m = _tc()
    data = D.shaped(length)[idx]
    case = {"kind": "oversize", "len": length, "idx": idx}
    rec.case(True, ops=1)
    try:
        raw = m.PusTc(17, 1, apid=1, app_data=data).pack()
    except Exception as e:
        rec.outcome("oversize-refused:" + type(e).__name__)
        return
    rec.violation("C02.fit/PusTc/oversize-application-data-encoded", case, {"octets": len(raw), "length_field": bytes(raw[4:6])}, "an exception")


def check_reject(rec: Rec, buf: bytes, total: int, nontrivial: bool):
    """buf[:total] is a CRC-consistent space packet declaring total < 13 octets; the decoder must raise"""
    m = _tc()
    assert 7 <= total < RP.TC_MIN_LEN and len(buf) >= total and crc16(buf[:total]) == 0 and int.from_bytes(buf[4:6], "big") == total - 7
    case = {"kind": "reject", "total": total, "buf": buf}
    rec.case(nontrivial, ops=1)
    try:
        u = m.PusTc.unpack(buf)
    except (ValueError, m.InvalidTcCrc16) as e:
        rec.outcome("reject:" + type(e).__name__)
        return
    except Exception as e:
        rec.violation("C02.reject/PusTc.unpack/undocumented-exception/" + type(e).__name__, case, repr(e), "ValueError (or a documented decode error)")
        return
    rec.outcome("reject:ACCEPTED")
    rec.violation("C02.reject/PusTc.unpack/accepted-declared-length-too-small", case,
                  {"declared_total": total, "decoded": {"service": u.service, "subservice": u.subservice, "source_id": u.source_id,
                                                        "app_data": bytes(u.app_data), "crc16": bytes(u.crc16)}},
                  "an exception: %d octets cannot hold a 5-octet secondary header and a CRC" % total,
                  repro="PusTc.unpack(bytes.fromhex(%r))" % buf.hex())


def looks_pus_c(buf):
    return len(buf) > 6 and buf[6] >> 4 == RP.PUS_C


# ------------------------------------------------------------------------------ shards
def run_shard(item):
    rec = Rec(PROPERTY, item)
    kind = item["kind"]
    if kind == "sweep":
        axis = item["axis"]
        n = BITS[axis]
        walk = set(D.walk(n))
        for k in range(item["k"]):
            bg = background(k)
            spec = ("hex", BG_DATA[k].hex())
            for v in range(item["lo"], item["hi"]):
                f = bg[:axis] + (v,) + bg[axis + 1:]
                deep = item["all_deep"] or n <= 11 or v % 17 == 0 or v in walk
                check_tc(rec, f, spec, nontrivial=not (v == bg[axis] and axis > 0), deep=deep)
        rec.count("sweep_values_" + AXES[axis], item["hi"] - item["lo"])
    elif kind == "edge":
        e = [D.edge(n) for n in BITS]
        n = 0
        for j in item["j"]:
            for a, b, c, d in itertools.product(range(8), repeat=4):
                deep = item["all_deep"] or (item["i"] + j + a + b + c + d) % 8 == 0
                check_tc(rec, (e[0][item["i"]], e[1][j], e[2][a], e[3][b], e[4][c], e[5][d]), ("hex", EDGE_DATA.hex()), routes=True, deep=deep)
                n += 1
        rec.count("edge_product_vectors", n)
    elif kind == "payload":
        k = item["bg"]
        bg = background(k)
        allb = D.all_bytes(2)
        lo, hi = len(allb) * item["part"] // item["parts"], len(allb) * (item["part"] + 1) // item["parts"]
        for d in allb[lo:hi]:
            deep = item["all_deep"] or len(d) <= 1 or (d[0] + d[1]) % 16 == 0
            check_tc(rec, bg, ("hex", d.hex()), nontrivial=d != BG_DATA[k], deep=deep)
        rec.count("payloads_len<=2", hi - lo)
    elif kind == "lengths":
        k = item["bg"]
        bg = background(k)
        for L in LENGTHS:
            for idx in range(len(D.shaped(L))):
                check_tc(rec, bg, ("shaped", L, idx), nontrivial=L > 2, routes=True)
                rec.count("shaped_payloads")
    elif kind == "oversize":
        for L in OVERSIZE:
            for idx in range(len(D.shaped(L))):
                check_oversize(rec, L, idx)
    elif kind == "reject":
        total = item["total"]
        for apid in range(item["apid_lo"], item["apid_hi"]):
            for seq in reject_seqs(item["tier"]):
                pkt = RP.forge_declared_len(total, RP.TC, apid, seq, FILL)
                if pkt is None:
                    rec.count("reject_unbuildable_len7")  # CRC high octet does not match the length octet it overlaps
                    continue
                for t in TAILS:
                    buf = pkt + t
                    check_reject(rec, buf, total, nontrivial=looks_pus_c(buf))
                rec.count("reject_forged_packets")
        rec.sample({"forged_packet_declaring_total_len": total, "octets": (RP.forge_declared_len(total, RP.TC, item["apid_lo"] + 1, 1, FILL) or b"").hex(),
                    "followed_by_each_of": [t.hex() for t in TAILS], "expected": "PusTc.unpack raises"}, limit=1)
    elif kind == "reject-solved":
        total = item["total"]
        walk = set(reject_seqs(item["tier"]))
        solver = RP.SeqWordSolver(total - 6)
        if total == 7:
            targets = [0x0020 | ack for ack in range(16)]  # CRC high octet = length low octet 0, low octet = 2|ack
        elif item["tier"] == "quick":
            targets = [(0x20 | ack) << 8 | svc for ack in D.edge(4) for svc in D.edge(8)]
        else:
            targets = [(0x20 | ack) << 8 | svc for ack in D.full(4) for svc in D.walk(8)]
        length_field = (total - 7).to_bytes(2, "big")
        for apid in range(item["apid_lo"], item["apid_hi"]):
            first2 = (0x1800 | apid).to_bytes(2, "big")
            for want in targets:
                w = solver.solve(first2, length_field[: total - 6], want)
                rec.count("reject_solved_words")
                if w >> 14 != RP.UNSEGMENTED:
                    continue
                pkt = RP.forge_declared_len(total, RP.TC, apid, w & 0x3FFF, b"")
                assert pkt is not None and looks_pus_c(pkt), (total, apid, w)
                for t in TAILS:
                    check_reject(rec, pkt + t, total, nontrivial=(w & 0x3FFF) not in walk)
                rec.count("reject_solved_packets")
                rec.sample({"forged_packet_declaring_total_len": total, "octets": pkt.hex(), "note": "sequence control word solved so that the trailer reads as PUS-C",
                            "followed_by_each_of": [t.hex() for t in TAILS], "expected": "PusTc.unpack raises"}, limit=1)
    return rec.result()


def replay(case):
    rec = Rec(PROPERTY, "replay")
    case = unhex(case)
    if case["kind"] == "tc":
        check_tc(rec, tuple(case["f"]), tuple(case["data"]), routes=True, deep=True)
    elif case["kind"] == "oversize":
        check_oversize(rec, case["len"], case["idx"])
    elif case["kind"] == "reject":
        check_reject(rec, bytes(case["buf"]), case["total"], True)
    return rec.result()


def finalize(tier, agg):
    c = agg["counters"]
    return {
        "per_axis_values_swept": {a: "%d/%d" % (c.get("sweep_values_" + a, 0) // 1, 1 << n) for a, n in zip(AXES, BITS)},
        "backgrounds": _k(tier),
        "deviation_bound": "d=1 full alphabets in K backgrounds; d=6 over edge alphabets (full product)",
        "observed_outcomes": sorted(agg["outcomes"])[:40],
    }
