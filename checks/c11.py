"""C11 - lengths track mutations, pack is repeatable, caller inputs are not modified (engine H).
DESIGN.md section 2.3 and section 4 "C11".

Explicit-state exploration of setter histories on the REAL objects.  A *machine* is one mutable packet
class with its documented setters; a *state* is identified by the history that reaches it: (header
configuration, initial parameter set, start kind, event sequence).  `run_history` builds fresh real objects and
replays the history through the real constructor / decoder / setters / pack(); next to it a "boring" reference
model (a plain dict of last-set values) is updated.  At the state reached the oracle demands

  len        reported length (packet_len; TransferFrame.len()) == len(pack()), before and after packing
  lenfield   the length field parsed independently out of the packed octets == what the format requires
             (CCSDS: total-7; CFDP PDU data field length: total-header; USLP: the value the model holds, which
             is total-1 after set_frame_len_in_header)
  octets     pack() == reference encoder (ref/) applied to the model's final values
  fresh      pack() == pack() of a freshly constructed object with the model's final values
  repeat     a second pack() gives identical octets
  eq         `obj == twin` (twin: same history on other fresh objects, never touched) is not changed by pack()
  purity     (non-blocking) the constructor and every pack() leave every caller-held object (PduConfig, *Params,
             TLV lists, SegmentMetadata, bytearrays, every setter argument handed in so far) identical under a
             deep dump; the only attribute excluded is the documented lazily filled `tlv` memo of the two
             filestore TLV classes (anchors/state of the property: "caches filled by pack()")

Not judged: the setters themselves (their purpose is to modify, and FinishedPdu / FileDataPdu keep the caller's
params object by design); PusTc.from_sp_header / from_composite_fields (ownership transfer); octets of a PDU that
carries a fault location together with the "no error" condition code (DESIGN.md 5.2: outside the standard's
domain) - the self-consistency clauses len / lenfield / fresh / repeat / eq are still demanded there.
Decoded start states: the reference octets of the initial values are decoded; if the decoder refuses them or
returns other parameter values (C06 / C07's business) that start state is skipped and counted, never reported.

Attribution: every clause is evaluated at every state.  A history is reported under the first clause (order above)
that fails at its final state and did NOT fail at its parent state (the history without its last event), i.e. the
last event is the *culprit*; a failure inherited from the parent state is not reported again, and it does not hide
a different clause that a later event breaks.  So one defect site gives one signature
`C11.<clause>/<Machine>/<kind>/after=<constructor|decode|setter name|pack|set_frame_len_in_header>`.
At the empty history (start state) only the self-consistency clauses exception / len / lenfield / repeat / eq are
reported: whether constructor + pack (or decode + re-pack) produce the right octets is C02 / C03 / C06 / C07 / C17's
subject; the start state's complete verdict is nevertheless the baseline for the first event."""

from __future__ import annotations

import collections
import copy
import enum
import itertools

from mc.rec import Rec, jsonable
from ref import cfdp as R
from ref import pus as RP
from ref import uslp as RU
from ref.bits import unpack_fields
from units import cfdp_pdu as U
from units import pus as UP
from units import uslp as UU

PROPERTY = "C11"
LEVEL = "model_checking"
EXHAUSTIVE = True
RULE = (
    "case = one history (machine, header configuration, initial parameter set, start kind constructed|decoded, event "
    "sequence) executed on fresh real objects. Stateless mode: EVERY event sequence over the machine's menu "
    "(setter x argument alphabet, pack; USLP also set_frame_len_in_header) up to depth D, no de-duplication; "
    "a history is reported under the first oracle clause that fails after its last event and did not fail before it. State-hashing mode: breadth-first search over the (larger) menu, "
    "states merged only when the full recursive __dict__ dump of the implementation object AND the reference "
    "model are equal (sound key), to depth D or to the fixpoint. Argument alphabets grow, keep, shrink the length "
    "and return to the original value. Purity shards: every constructor and pack() of all 8 PDU kinds, PusTc, "
    "PusTm, Service1Tm, Service17Tm and TransferFrame over the unit corpora x caller configuration direction x "
    "bytes/bytearray inputs. Histories are pairwise distinct by construction (shards partition machine x "
    "configuration x initial set x first event); the empty history of a split shard is counted once."
)
BOUNDS = {
    "quick": ("stateless depth<=3 over the DESIGN.md menus (3..12 events per machine), 9 machines, CFDP machines in CRC{0,1} x file size{32,64} x "
              "ID/sequence widths {(1,1),(2,4)}, 1..3 initial parameter sets, start kinds constructed + decoded: 135 071 histories, "
              "4 885 distinct states, 388 158 setter/pack events; purity: 974 constructor+pack cases over 13 packet classes"),
    "thorough": ("state-hashing BFS over the extended menus (3..18 events) to depth 6 or the fixpoint (fixpoint reached by every CFDP and USLP "
                 "search; PusTc/PusTm stop at depth 6 because the cached CRC multiplies the states) + stateless depth<=4 over the DESIGN.md "
                 "menus (BFS: widths {(1,1),(2,4),(4,8),(8,2)}; stateless: the quick tier's two width pairs): 2.2 million histories, "
                 "129 982 distinct states, 6.0 million events; "
                 "purity: 1 736 cases over the thorough corpora"),
}
ASSUMPTIONS = [
    "reference encoders ref/cfdp.py, ref/pus.py, ref/uslp.py transcribe the standards (bound to the repository's vectors by selftest/st_ref_*.py)",
    "the lazily built `tlv` memo of FileStoreRequestTlv / FileStoreResponseTlv is a documented cache; filling it is not a modification of the caller's object (its effect on octets is covered by the octets / fresh clauses)",
    "a fault location next to the 'no error' condition code is outside the standard's domain: its octets are not compared with the reference, lengths and repeatability are",
]

L = U.L
STAMP7 = bytes([0x40, 1, 2, 3, 4, 5, 6])


# ======================================================================================================
# deep dump (state key and purity comparison)
# ======================================================================================================
CACHE_ATTRS = {("FileStoreRequestTlv", "tlv"), ("FileStoreResponseTlv", "tlv")}


def dump(x, skip_caches=False, _stack=()):
    """Hashable, by-value, type-strict image of the complete attribute graph of x."""
    if x is None or isinstance(x, str):
        return x
    if isinstance(x, bool):
        return ("B", x)
    if isinstance(x, float):
        return ("F", x)
    if isinstance(x, enum.Enum):
        return ("E", type(x).__name__, x.value)
    if isinstance(x, int):
        return int(x)
    if isinstance(x, bytes):
        return ("b", x)
    if isinstance(x, bytearray):
        return ("ba", bytes(x))
    if isinstance(x, memoryview):
        return ("mv", bytes(x))
    if id(x) in _stack:
        return ("cycle",)
    st = _stack + (id(x),)
    if isinstance(x, list):
        return ("l",) + tuple(dump(v, skip_caches, st) for v in x)
    if isinstance(x, tuple):
        return ("t",) + tuple(dump(v, skip_caches, st) for v in x)
    if isinstance(x, dict):
        return ("d",) + tuple((repr(k), dump(v, skip_caches, st)) for k, v in sorted(x.items(), key=lambda kv: repr(kv[0])))
    if isinstance(x, (set, frozenset)):
        return ("s",) + tuple(sorted((dump(v, skip_caches, st) for v in x), key=repr))
    tn = type(x).__name__
    attrs = {}
    if hasattr(x, "__dict__"):
        attrs.update(vars(x))
    for klass in type(x).__mro__:
        for s in getattr(klass, "__slots__", ()) or ():
            if isinstance(s, str) and hasattr(x, s) and s not in ("__dict__", "__weakref__"):
                attrs[s] = getattr(x, s)
    if not attrs and not hasattr(x, "__dict__"):
        return ("o", tn)
    out = []
    for k in sorted(attrs):
        if skip_caches and (tn, k) in CACHE_ATTRS:
            continue
        out.append((k, dump(attrs[k], skip_caches, st)))
    return ("O", tn) + tuple(out)


def diff_path(a, b, path=""):
    """first place where two dumps differ, as a dotted attribute path"""
    if a == b:
        return None
    if isinstance(a, tuple) and isinstance(b, tuple) and a[:1] == b[:1] and a[:1] in (("O",), ("l",), ("t",), ("d",)):
        if a[0] == "O":
            if a[1] != b[1]:
                return path + "<type>"
            da, db = dict(a[2:]), dict(b[2:])
            for k in sorted(set(da) | set(db)):
                if da.get(k, "<absent>") != db.get(k, "<absent>"):
                    return diff_path(da.get(k, "<absent>"), db.get(k, "<absent>"), f"{path}.{k}" if path else k) or (f"{path}.{k}" if path else k)
        if a[0] in ("l", "t"):
            if len(a) != len(b):
                return path + "<len>"
            for i, (u, v) in enumerate(zip(a[1:], b[1:])):
                if u != v:
                    return diff_path(u, v, f"{path}[{i}]") or f"{path}[{i}]"
    return path or "<value>"


def held_dump(held):
    return tuple((lab, dump(o, True)) for lab, o in held)


def held_diff(before, after):
    for (lab, a), (_, b) in zip(before, after):
        if a != b:
            p = diff_path(a, b) or ""
            if p in ("", "<value>"):
                return lab
            return lab + (p if p.startswith("[") or p.startswith("<") else "." + p)
    return None


def has_setter(cls, attr):
    for k in cls.__mro__:
        if attr in vars(k):
            p = vars(k)[attr]
            return isinstance(p, property) and p.fset is not None
    return False


def safe_eq(a, b):
    try:
        return bool(a == b)
    except Exception as e:  # an == that raises is an observation like any other
        return "raises:" + type(e).__name__


def _short_src(x):
    """python source of an argument; long octet strings by their generating expression (TcMachine._data / UslpMachine._tfdz)"""
    if isinstance(x, (bytes, bytearray)) and len(x) > 64:
        for first, step in ((0xB1, 5), (0xC1, 3)):
            if bytes(x) == bytes((first + step * i) & 0xFF for i in range(len(x))):
                src = f"bytes(({first:#x} + {step} * i) & 0xFF for i in range({len(x)}))"
                return f"bytearray({src})" if isinstance(x, bytearray) else src
    return repr(x)


class NotAStartState(Exception):
    """the initial values are deliberately not decodable (USLP initial set with a stale frame length)"""


class Fail:
    __slots__ = ("clause", "kind", "observed", "expected")

    def __init__(self, clause, kind, observed=None, expected=None):
        self.clause, self.kind, self.observed, self.expected = clause, kind, observed, expected


PACK = ("pack", "pack", None)
SAME_OBJECT = "~own-object-changed-in-place"


def same_object_src(var, attr, argsrc):
    """python source of a SAME_OBJECT event"""
    return (f"cur = {var}.{attr}\nif not isinstance(cur, (bytearray, list)):\n    cur = bytearray(cur) if isinstance(cur, (bytes, bytearray)) else list(cur or [])\n"
            f"    {var}.{attr} = cur\nnew = {argsrc}\ncur[:] = bytes(new) if isinstance(cur, bytearray) else list(new)\n{var}.{attr} = cur  # the same object again")


# ======================================================================================================
# machines
# ======================================================================================================
class Machine:
    name = "?"
    family = "?"
    listed_setters = ()

    def cls(self):
        raise NotImplementedError

    def cfgs(self, tier):
        return [{}]

    def inits(self, cfg):
        raise NotImplementedError

    def menu(self, level):
        """[(event name, attribute, argument spec)]; level 'q' (DESIGN.md alphabet) or 't' (extended, a superset)"""
        raise NotImplementedError

    def events(self, level):
        out = []
        for ev in self.menu(level):
            if ev[1] in ("pack", "set_frame_len_in_header") or self.setter_present(ev[1]):
                out.append(ev)
        return out

    def setter_target_cls(self):
        return self.cls()

    def setter_present(self, attr):
        return has_setter(self.setter_target_cls(), attr)

    def skipped_setters(self):
        return [a for a in self.listed_setters if not self.setter_present(a)]

    # -- per machine -------------------------------------------------------------------------------
    def construct(self, model):
        """(callable that runs the public constructor, [(label, caller-held object)]); every input object is fresh"""
        raise NotImplementedError

    def ref(self, model):
        raise NotImplementedError

    def decode(self, model, raw):
        raise NotImplementedError

    def decoded_ok(self, obj, model):
        raise NotImplementedError

    def make_arg(self, attr, spec):
        raise NotImplementedError

    def update(self, model, attr, spec):
        raise NotImplementedError

    def target(self, obj, attr):
        return obj

    def reported_len(self, obj):
        return obj.packet_len

    def lenfield(self, raw, model):
        """(value parsed out of the octets, value the format requires)"""
        raise NotImplementedError

    def octets_judged(self, model):
        return True

    def representable(self, model):
        """False when the values last set cannot be carried by the format at all (a payload beyond the 16-bit length field): then
        pack() must refuse - octets would have a length field that lies"""
        return True

    def repro(self, model0, start, names):
        return None

    # -- generic -----------------------------------------------------------------------------------
    def apply(self, obj, ev, model, held):
        name, attr, spec = ev
        if attr == "pack":
            obj.pack()
            return
        if attr == "set_frame_len_in_header":
            obj.set_frame_len_in_header()
            self.update(model, attr, spec)
            return
        if name.endswith(SAME_OBJECT):
            # the caller keeps its own mutable container (bytearray / list) as the attribute's value, changes it IN PLACE to the new
            # value and assigns the very same object again (`pdu.segment_requests += [...]`, a re-used transmit buffer)
            tgt = self.target(obj, attr)
            new = self.make_arg(attr, spec)
            cur = getattr(tgt, attr)
            if not isinstance(cur, (bytearray, list)):
                cur = bytearray(cur) if isinstance(cur, (bytes, bytearray)) else list(cur or [])
                setattr(tgt, attr, cur)
            cur[:] = bytes(new) if isinstance(cur, bytearray) else list(new)
            setattr(tgt, attr, cur)
            self.update(model, attr, spec)
            return
        arg = self.make_arg(attr, spec)
        held.append((f"argument-of-{attr}-setter", arg))
        setattr(self.target(obj, attr), attr, arg)
        self.update(model, attr, spec)


# ------------------------------------------------------------------------------------------ CFDP PDUs
def cfdp_inputs(kind, cfg, p, direction=None, conf=None):
    """fresh caller objects for the constructor of a PDU kind: (callable building the PDU, held list);
    conf: use this (caller-owned) configuration object instead of a fresh one (sibling exploration)"""
    if conf is None:
        conf = U.pdu_config(cfg, direction)
    held = [("pdu_conf", conf)]

    def fl(x):
        return None if x is None else L.EntityIdTlv(bytes(x))

    if kind == "EofPdu":
        checksum = bytearray(p["checksum"]) if p.get("checksum_ba") else bytes(p["checksum"])
        fault = fl(p.get("fault"))
        held += [("file_checksum", checksum), ("fault_location", fault)]
        return (lambda: L.EofPdu(conf, checksum, p["size"], fault, L.ConditionCode(p["cc"]))), held
    if kind == "FinishedPdu":
        # "resps": None is passed through as None (the constructor documents it); an absent key means "no responses" = []
        resps = None if ("resps" in p and p["resps"] is None) else [U.build_response(r) for r in p.get("resps") or []]
        params = L.FinishedParams(L.ConditionCode(p["cc"]), L.DeliveryCode(p["dc"]), L.FileStatus(p["fs"]), resps, fl(p.get("fault")))
        held.append(("params", params))
        return (lambda: L.FinishedPdu(conf, params)), held
    if kind == "AckPdu":
        return (lambda: L.AckPdu(conf, L.DirectiveType(p["acked"]), L.ConditionCode(p["cc"]), L.TransactionStatus(p["ts"]))), held
    if kind == "MetadataPdu":
        params = L.MetadataParams(bool(p["closure"]), L.ChecksumType(p["cs"]), p["size"], p.get("src"), p.get("dst"))
        opts = None if p.get("opts") is None else [U.build_option(o) for o in p["opts"]]
        held += [("params", params), ("options", opts)]
        return (lambda: L.MetadataPdu(conf, params, opts)), held
    if kind == "NakPdu":
        segs = None if p.get("segs") is None else [tuple(s) for s in p["segs"]]
        held.append(("segment_requests", segs))
        return (lambda: L.NakPdu(conf, p["start"], p["end"], segs)), held
    if kind == "PromptPdu":
        return (lambda: L.PromptPdu(conf, L.ResponseRequired(p["rr"]))), held
    if kind == "KeepAlivePdu":
        return (lambda: L.KeepAlivePdu(conf, p["progress"])), held
    if kind == "FileDataPdu":
        data = R.data_octets(p["data"])
        if p.get("data_ba"):
            data = bytearray(data)
        md = p.get("md")
        sm = None if md is None else L.SegmentMetadata(L.RecordContinuationState(md[0]), bytearray(md[1]) if p.get("data_ba") else bytes(md[1]))
        params = L.FileDataParams(data, p["offset"], sm)
        held.append(("params", params))
        return (lambda: L.FileDataPdu(conf, params)), held
    raise AssertionError(kind)


RESP_A = dict(U.RESP_TWO_NAMES_MSG)
RESP_B = dict(U.RESP_ONE_NAME)
RESP_C = dict(U.RESP_REPLACE)  # thorough menus: the third two-name action
OPT_A = {"t": "flow", "v": b"xy"}
OPT_B = {"t": "msg", "v": b"hello"}
OPT_C = {"t": "fsreq", "action": 4, "first": "a", "second": "b"}  # replace: the third two-name action
NAME255 = "n" * 255
# level "b" arguments: long enough to carry the data-field length beyond 0x7FFF
BIG_RESPS = [{"action": 1, "status": 0, "first": "f%03d" % i + "x" * 96, "second": None, "msg": bytes([i & 0xFF]) * 100} for i in range(160)]
BIG_SEGS = [[i, i + 1] for i in range(4093)]
BIG_OPTS = [{"t": "msg", "v": bytes([(i + j) & 0xFF for j in range(200)])} for i in range(170)]

NAME255_UTF8 = "ä" * 127 + "z"  # 128 characters, 255 octets
WIDTHS_Q = [(1, 1), (2, 4)]
WIDTHS_T = [(1, 1), (2, 4), (4, 8), (8, 2)]


def _cfg(cfg):
    return dict(U.CFG_DEFAULT, **cfg)


class CfdpMachine(Machine):
    family = "cfdp"

    def __init__(self, kind, listed):
        self.name = self.kind = kind
        self.listed_setters = listed
        self.unit = U.UNITS[kind]

    def cls(self):
        return getattr(L, self.kind)

    def cfgs(self, tier):
        out = []
        i = 0
        for crc in (0, 1):
            for large in (0, 1):
                for idw, seqw in (WIDTHS_Q if tier == "quick" else WIDTHS_T):
                    out.append({"crc": crc, "large": large, "idw": idw, "seqw": seqw, "mode": i % 2})
                    i += 1
        return out

    def construct(self, model):
        # the caller's configuration carries the direction the PDU kind does NOT use, so that a constructor
        # writing its direction into the caller's object is visible
        ctor, held = cfdp_inputs(self.kind, _cfg(model["cfg"]), model["p"], 1 - R.DIRECTION[self.kind])
        return ctor, held

    @staticmethod
    def _norm(p):
        # an absent optional collection (None) is encoded and observed like an empty one
        return dict(p, resps=[]) if ("resps" in p and p["resps"] is None) else p

    def ref(self, model):
        return R.encode_pdu(self.kind, _cfg(model["cfg"]), self._norm(model["p"]))

    def decode(self, model, raw):
        return self.cls().unpack(raw)

    def decoded_ok(self, obj, model):
        cfg = _cfg(model["cfg"])
        return self.unit.observe(obj) == self.unit._exp(cfg, self._norm(model["p"]))

    def lenfield(self, raw, model):
        return R.data_field_len(raw), len(raw) - R.header_len(raw)

    def octets_judged(self, model):
        p = model["p"]
        return not (self.kind in ("EofPdu", "FinishedPdu") and p.get("fault") is not None and p["cc"] in (R.NO_ERROR, 11))

    # -- alphabets ---------------------------------------------------------------------------------
    def inits(self, cfg):
        k = self.kind
        big = 0x0102030405060708 if cfg["large"] else 0x01020304
        if k == "EofPdu":
            base = {"checksum": b"\x12\x34\x56\x78", "size": big}
            return [dict(base, cc=6, fault=None), dict(base, cc=4, fault=b"\x31\x32"), dict(base, cc=0, fault=None)]
        if k == "FinishedPdu":
            # "resps": None = FinishedParams(file_store_responses=None), the documented default (success_params())
            return [{"cc": 0, "dc": 0, "fs": 2, "resps": [], "fault": None},
                    {"cc": 0, "dc": 0, "fs": 2, "resps": None, "fault": None},
                    {"cc": 6, "dc": 1, "fs": 1, "resps": [], "fault": None},
                    {"cc": 4, "dc": 1, "fs": 3, "resps": [dict(RESP_B)], "fault": b"\x31\x32"},
                    # the second condition code that carries no fault location ("unsupported checksum type"): a fault location assigned
                    # here is not packed, so it must not be counted either (octets not judged, lengths are)
                    {"cc": 11, "dc": 1, "fs": 0, "resps": [], "fault": None}]
        if k == "MetadataPdu":
            return [{"closure": 0, "cs": 0, "size": 0, "src": None, "dst": None, "opts": None},
                    {"closure": 1, "cs": 3, "size": big, "src": "sä.bin", "dst": "d.bin", "opts": [dict(OPT_B)]}]
        if k == "NakPdu":
            return [{"start": 0, "end": 0, "segs": None}, {"start": 0x0102, "end": 0x01020304, "segs": [[1, 2]]}]
        if k == "FileDataPdu":
            return [{"offset": 0, "data": b"hello", "md": None}, {"offset": big, "data": b"\x40\x41\x42", "md": [3, b"\x99\x98"], "data_ba": True}]
        if k == "KeepAlivePdu":
            return [{"progress": 0x01020304}]
        raise AssertionError(k)

    def menu(self, level):
        k, t = self.kind, level == "t"
        ev = []
        if level == "b":  # arguments that carry the 16-bit data-field length past 0x7FFF / close to 0xFFFF, and back
            if k == "FileDataPdu":
                return [("file_data=40000", "file_data", [40000, 0]), ("file_data=65000", "file_data", [65000, 1]), ("file_data=1", "file_data", [1, 1]),
                        ("segment_metadata=5", "segment_metadata", [1, 5]), PACK]
            if k == "NakPdu":
                return [("segment_requests=4093", "segment_requests", BIG_SEGS), ("segment_requests=1", "segment_requests", [[1, 2]]),
                        ("file_flag=NORMAL", "file_flag", 0), ("file_flag=LARGE", "file_flag", 1), PACK]
            if k == "MetadataPdu":
                return [("options=170x200", "options", BIG_OPTS), ("options=None", "options", None), ("source_file_name=255", "source_file_name", NAME255), PACK]
            if k == "FinishedPdu":
                return [("file_store_responses=160", "file_store_responses", BIG_RESPS), ("file_store_responses=[r]", "file_store_responses", [RESP_A]),
                        ("fault_location=E4", "fault_location", b"\x00\x00\x00\x05"), PACK]
            return []
        if k in ("EofPdu", "FinishedPdu"):
            if k == "FinishedPdu":
                ev += [("file_store_responses=None", "file_store_responses", None), ("file_store_responses=[]", "file_store_responses", []),
                       ("file_store_responses=[r]", "file_store_responses", [RESP_A]), ("file_store_responses=[r,r2]", "file_store_responses", [RESP_A, RESP_B])]
                if t:
                    ev += [("file_store_responses=[r3]", "file_store_responses", [RESP_C])]
            # E1 and E4 carry the SAME numeric entity ID in different widths (EntityIdTlv.__eq__ compares the number only:
            # a setter that skips its recomputation when "the value did not change" is stale exactly here)
            ev += [("fault_location=None", "fault_location", None), ("fault_location=E1", "fault_location", b"\x05"),
                   ("fault_location=E4", "fault_location", b"\x00\x00\x00\x05")]
            if t:
                ev += [("fault_location=E2", "fault_location", b"\x31\x32"), ("fault_location=E8", "fault_location", bytes(range(0x41, 0x49))),
                       ("fault_location=E4b", "fault_location", b"\x05\x06\x07\x08"), ("fault_location=E2same", "fault_location", b"\x00\x05")]
        elif k == "MetadataPdu":
            ev += [("options=None", "options", None), ("options=[tlv]", "options", [OPT_A]), ("options=[tlv,tlv2]", "options", [OPT_A, OPT_B])]
            if t:
                ev += [("options=[]", "options", []), ("options=[fsreq]", "options", [OPT_C])]
            for attr in ("source_file_name", "dest_file_name"):
                ev += [(f"{attr}=None", attr, None), (f"{attr}='a'", attr, "a"), (f"{attr}='ä'", attr, "ä"), (f"{attr}=255", attr, NAME255)]
                if t:
                    ev += [(f"{attr}=''", attr, ""), (f"{attr}=255utf8", attr, NAME255_UTF8)]
        elif k == "NakPdu":
            ev += [("segment_requests=None", "segment_requests", None), ("segment_requests=[]", "segment_requests", []),
                   ("segment_requests=1", "segment_requests", [[1, 2]]), ("segment_requests=3", "segment_requests", [[1, 2], [0x0102, 0x01020304], [0, 0]])]
            if t:
                ev += [("segment_requests=2", "segment_requests", [[0xFFFFFFFF, 0], [3, 4]])]
            ev += [("file_flag=NORMAL", "file_flag", 0), ("file_flag=LARGE", "file_flag", 1)]
        elif k == "FileDataPdu":
            ev += [("file_data=0", "file_data", [0, 0]), ("file_data=1", "file_data", [1, 1]), ("file_data=300", "file_data", [300, 0])]
            if t:
                ev += [("file_data=5", "file_data", [5, 0]), ("file_data=2ba", "file_data", [2, 1])]
            ev += [("segment_metadata=None", "segment_metadata", None), ("segment_metadata=0", "segment_metadata", [3, 0]),
                   ("segment_metadata=5", "segment_metadata", [1, 5]), ("segment_metadata=63", "segment_metadata", [0, 63])]
            if t:
                ev += [("segment_metadata=2", "segment_metadata", [2, 2])]
        elif k == "KeepAlivePdu":
            ev += [("file_flag=NORMAL", "file_flag", 0), ("file_flag=LARGE", "file_flag", 1)]
        so = {"FinishedPdu": ("file_store_responses=[r2]", "file_store_responses", [RESP_B]), "MetadataPdu": ("options=[tlv2]", "options", [OPT_B]),
              "NakPdu": ("segment_requests=2", "segment_requests", [[7, 8], [9, 0x0A0B]]), "FileDataPdu": ("file_data=7", "file_data", [7, 0])}.get(k)
        if so:
            ev.append((so[0] + SAME_OBJECT, so[1], so[2]))
        return ev + [PACK]

    @staticmethod
    def _fd(spec):
        n, ba = spec
        return bytes((0x61 + 3 * i) & 0xFF for i in range(n)), bool(ba)

    @staticmethod
    def _md(spec):
        state, n = spec
        return state, bytes((0x91 + i) & 0xFF for i in range(n))

    def make_arg(self, attr, spec):
        if attr == "fault_location":
            return None if spec is None else L.EntityIdTlv(bytes(spec))
        if attr == "file_store_responses":
            return None if spec is None else [U.build_response(r) for r in spec]
        if attr == "options":
            return None if spec is None else [U.build_option(o) for o in spec]
        if attr in ("source_file_name", "dest_file_name"):
            return spec
        if attr == "segment_requests":
            return None if spec is None else [tuple(s) for s in spec]
        if attr == "file_flag":
            return L.LargeFileFlag(spec)
        if attr == "file_data":
            data, ba = self._fd(spec)
            return bytearray(data) if ba else data
        if attr == "segment_metadata":
            if spec is None:
                return None
            state, md = self._md(spec)
            return L.SegmentMetadata(L.RecordContinuationState(state), md)
        raise AssertionError(attr)

    def update(self, model, attr, spec):
        p = model["p"]
        if attr == "fault_location":
            p["fault"] = None if spec is None else bytes(spec)
        elif attr == "file_store_responses":
            p["resps"] = [dict(r) for r in spec or []]
        elif attr == "options":
            p["opts"] = None if spec is None else [dict(o) for o in spec]
        elif attr == "source_file_name":
            p["src"] = spec
        elif attr == "dest_file_name":
            p["dst"] = spec
        elif attr == "segment_requests":
            p["segs"] = None if spec is None else [list(s) for s in spec]
        elif attr == "file_flag":
            model["cfg"]["large"] = spec
        elif attr == "file_data":
            p["data"] = self._fd(spec)[0]
        elif attr == "segment_metadata":
            p["md"] = None if spec is None else list(self._md(spec))
        else:
            raise AssertionError(attr)

    def repro(self, model0, start, names):
        cfg = _cfg(model0["cfg"])
        lines = [U.ctor_source(self.kind, cfg, model0["p"])]
        if start == "decoded":
            lines.append(f"pdu = {self.kind}.unpack(bytes(pdu.pack()))")
        evs = {e[0]: e for e in self.menu("b") + self.menu("t") + self.menu("q")}
        for n in names:
            _, attr, spec = evs[n]
            if attr == "pack":
                lines.append("pdu.pack()")
            elif n.endswith(SAME_OBJECT):
                lines.append(same_object_src("pdu", attr, self._arg_source(attr, spec)))
            else:
                lines.append(f"pdu.{attr} = {self._arg_source(attr, spec)}")
        lines.append("raw = bytes(pdu.pack())")
        lines.append("assert pdu.packet_len == len(raw) and (raw[1] << 8 | raw[2]) == len(raw) - (4 + 2 * (((raw[3] >> 4) & 7) + 1) + (raw[3] & 7) + 1)")
        lines.append("assert bytes(pdu.pack()) == raw")
        return "\n".join(lines)

    def _arg_source(self, attr, spec):
        if spec is None:
            return "None"
        if spec is BIG_OPTS:
            return "[MessageToUserTlv(bytes([(i + j) & 0xFF for j in range(200)])) for i in range(170)]"
        if spec is BIG_SEGS:
            return "[(i, i + 1) for i in range(4093)]"
        if spec is BIG_RESPS:
            return ("[FileStoreResponseTlv(FilestoreActionCode(1), FilestoreResponseStatusCode(16), 'f%03d' % i + 'x' * 96, '', CfdpLv(bytes([i & 0xFF]) * 100)) "
                    "for i in range(160)]")
        if attr == "fault_location":
            return f"EntityIdTlv({bytes(spec)!r})"
        if attr == "file_store_responses":
            return "[" + ", ".join(f"FileStoreResponseTlv(FilestoreActionCode({r['action']}), FilestoreResponseStatusCode({r['action'] << 4 | r['status']}), "
                                   f"{r['first']!r}, {(r.get('second') or '')!r}, CfdpLv({bytes(r.get('msg') or b'')!r}))" for r in spec) + "]"
        if attr == "options":
            def o(x):
                if x["t"] == "flow":
                    return f"FlowLabelTlv({bytes(x['v'])!r})"
                if x["t"] == "msg":
                    return f"MessageToUserTlv({bytes(x['v'])!r})"
                return f"FileStoreRequestTlv(FilestoreActionCode({x['action']}), {x['first']!r}, {(x.get('second') or '')!r})"
            return "[" + ", ".join(o(x) for x in spec) + "]"
        if attr in ("source_file_name", "dest_file_name"):
            return repr(spec)
        if attr == "segment_requests":
            return repr([tuple(s) for s in spec])
        if attr == "file_flag":
            return f"LargeFileFlag({spec})"
        if attr == "file_data":
            data, ba = self._fd(spec)
            src = repr(data) if len(data) <= 16 else f"bytes((0x61 + 3 * i) & 0xFF for i in range({len(data)}))"
            return f"bytearray({src})" if ba else src
        state, md = self._md(spec)
        return f"SegmentMetadata(RecordContinuationState({state}), {md!r})"


# ----------------------------------------------------------------------------------------------- PUS
class TcMachine(Machine):
    name = "PusTc"
    family = "pus"
    listed_setters = ("app_data", "apid", "seq_count", "source_id")

    def cls(self):
        from spacepackets.ecss.tc import PusTc

        return PusTc

    def inits(self, cfg):
        # the third start carries sequence flags and a packet version the plain constructor cannot produce (built through
        # from_sp_header, or decoded): a setter that rebuilds the header from "the usual" values loses them
        return [dict(svc=17, sub=1, apid=0x123, seq=0x234, src=0x55AA, ack=0b1111, data=b"zz"),
                dict(svc=3, sub=25, apid=1, seq=0, src=0, ack=0b1001, data=b""),
                dict(svc=17, sub=1, apid=0x2AA, seq=0x155, src=0x0102, ack=0b0110, data=b"abc", ver=5, flags=1)]

    def menu(self, level):
        t = level == "t"
        if level == "b":
            return [("app_data=40000", "app_data", 40000), ("app_data=65529", "app_data", 65529), ("app_data=65530(too long)", "app_data", 65530), ("app_data=2", "app_data", 2),
                    ("apid=0x123", "apid", 0x123), PACK]
        ev = [("app_data=0", "app_data", 0), ("app_data=1", "app_data", 1), ("app_data=2", "app_data", 2), ("app_data=4", "app_data", 4)]
        if t:
            ev += [("app_data=300", "app_data", 300), ("app_data=4ba", "app_data", -4)]
        ev += [("apid=0x7ff", "apid", 0x7FF), ("apid=0x123", "apid", 0x123)] + ([("apid=0", "apid", 0)] if t else [])
        ev += [("seq_count=0x3fff", "seq_count", 0x3FFF), ("seq_count=0", "seq_count", 0)] + ([("seq_count=0x234", "seq_count", 0x234)] if t else [])
        ev += [("source_id=0xffff", "source_id", 0xFFFF), ("source_id=0", "source_id", 0)] + ([("source_id=0x55aa", "source_id", 0x55AA)] if t else [])
        if not t:
            ev.append(("app_data=2ba", "app_data", -2))  # a bytearray of the caller's, which the telecommand then holds
        ev.append(("app_data=3" + SAME_OBJECT, "app_data", 3))
        return ev + [PACK]

    @staticmethod
    def _data(n):
        return bytes((0xB1 + 5 * i) & 0xFF for i in range(abs(n)))

    def construct(self, model):
        p = model["p"]
        data = bytearray(p["data"]) if p.get("data_ba") else bytes(p["data"])
        cls = self.cls()
        if "ver" in p:
            from spacepackets.ccsds.spacepacket import PacketType, SequenceFlags, SpacePacketHeader

            def build():
                hdr = SpacePacketHeader(PacketType.TC, p["apid"], p["seq"], 0, True, SequenceFlags(p["flags"]), p["ver"])
                return cls.from_sp_header(hdr, p["svc"], p["sub"], data, p["src"], p["ack"])

            return build, [("app_data", data)]
        return (lambda: cls(p["svc"], p["sub"], apid=p["apid"], app_data=data, seq_count=p["seq"], source_id=p["src"], ack_flags=p["ack"])), [("app_data", data)]

    def ref(self, model):
        p = model["p"]
        return RP.tc(p["svc"], p["sub"], p["apid"], p["seq"], p["src"], p["ack"], bytes(p["data"]), version=p.get("ver", 0), seq_flags=p.get("flags", 3))

    def decode(self, model, raw):
        return self.cls().unpack(raw)

    def decoded_ok(self, obj, model):
        u = UP.UNITS["PusTc"]
        exp = list(u.expected(model["p"]))
        exp[9], exp[10] = model["p"].get("flags", 3), model["p"].get("ver", 0)  # seq_flags, ccsds_version
        return u.observe(obj) == tuple(exp)

    def make_arg(self, attr, spec):
        if attr == "app_data":
            return bytearray(self._data(spec)) if spec < 0 else self._data(spec)
        return spec

    def update(self, model, attr, spec):
        key = {"app_data": "data", "apid": "apid", "seq_count": "seq", "source_id": "src"}[attr]
        model["p"][key] = self._data(spec) if attr == "app_data" else spec

    def lenfield(self, raw, model):
        return int.from_bytes(raw[4:6], "big"), len(raw) - 7

    def representable(self, model):
        return 6 + 5 + len(model["p"]["data"]) + 2 <= 65542

    def repro(self, model0, start, names):
        p = model0["p"]
        lines = ["from spacepackets.ecss.tc import PusTc",
                 f"tc = PusTc({p['svc']}, {p['sub']}, apid={p['apid']:#x}, app_data={bytes(p['data'])!r}, seq_count={p['seq']:#x}, source_id={p['src']:#x}, ack_flags={p['ack']:#x})"]
        if start == "decoded":
            lines.append("tc = PusTc.unpack(bytes(tc.pack()))")
        evs = {e[0]: e for e in self.menu("b") + self.menu("t") + self.menu("q")}
        for n in names:
            _, attr, spec = evs[n]
            lines.append("tc.pack()" if attr == "pack" else same_object_src("tc", attr, _short_src(self.make_arg(attr, spec))) if n.endswith(SAME_OBJECT)
                         else f"tc.{attr} = {_short_src(self.make_arg(attr, spec))}")
        lines += ["raw = bytes(tc.pack())", "assert tc.packet_len == len(raw) and int.from_bytes(raw[4:6], 'big') == len(raw) - 7", "assert bytes(tc.pack()) == raw"]
        return "\n".join(lines)


class TmMachine(Machine):
    name = "PusTm"
    family = "pus"
    listed_setters = ("tm_data", "apid", "seq_flags")

    def cls(self):
        from spacepackets.ecss.tm import PusTm

        return PusTm

    def inits(self, cfg):
        return [dict(svc=17, sub=2, apid=0x123, seq=0x234, mc=0x0102, dest=0x0304, tref=5, ver=0, ts=STAMP7, data=b"zz", seq_flags=3),
                dict(svc=5, sub=1, apid=1, seq=0, mc=0, dest=0, tref=0, ver=0, ts=b"", data=b"", seq_flags=3)]

    def menu(self, level):
        t = level == "t"
        if level == "b":
            return [("tm_data=40000", "tm_data", 40000), ("tm_data=65000", "tm_data", 65000), ("tm_data=65535(too long)", "tm_data", 65535), ("tm_data=2", "tm_data", 2),
                    ("apid=0x123", "apid", 0x123), PACK]
        ev = [("tm_data=0", "tm_data", 0), ("tm_data=1", "tm_data", 1), ("tm_data=2", "tm_data", 2), ("tm_data=4", "tm_data", 4)]
        if t:
            ev += [("tm_data=300", "tm_data", 300), ("tm_data=4ba", "tm_data", -4)]
        ev += [("apid=0x7ff", "apid", 0x7FF), ("apid=0x123", "apid", 0x123)] + ([("apid=0", "apid", 0)] if t else [])
        ev += [("seq_flags=FIRST", "seq_flags", 1), ("seq_flags=UNSEG", "seq_flags", 3)] + ([("seq_flags=CONT", "seq_flags", 0), ("seq_flags=LAST", "seq_flags", 2)] if t else [])
        if not t:
            ev.append(("tm_data=2ba", "tm_data", -2))
        ev.append(("tm_data=3" + SAME_OBJECT, "tm_data", 3))
        return ev + [PACK]

    _data = staticmethod(TcMachine._data)

    def construct(self, model):
        import spacepackets.ccsds.spacepacket as sp
        from spacepackets.ecss.tm import PusTmSecondaryHeader

        p = model["p"]
        ba = p.get("data_ba")
        ts = bytearray(p["ts"]) if ba else bytes(p["ts"])
        data = bytearray(p["data"]) if ba else bytes(p["data"])
        cls = self.cls()
        held = [("timestamp", ts), ("source_data", data)]
        if p["seq_flags"] == 3:
            return (lambda: cls(p["svc"], p["sub"], ts, data, p["apid"], p["seq"], p["mc"], p["tref"], p["dest"], p["ver"])), held

        # the main constructor has no sequence-flags parameter: the other public constructor is used
        def build():
            sph = sp.SpacePacketHeader(sp.PacketType.TM, p["apid"], p["seq"], 7 + len(ts) + len(data) + 1, True, sp.SequenceFlags(p["seq_flags"]), p["ver"])
            sec = PusTmSecondaryHeader(service=p["svc"], subservice=p["sub"], timestamp=ts, message_counter=p["mc"], dest_id=p["dest"], spacecraft_time_ref=p["tref"])
            return cls.from_composite_fields(sph, sec, data)

        return build, held

    def ref(self, model):
        p = model["p"]
        return RP.tm(p["svc"], p["sub"], bytes(p["ts"]), bytes(p["data"]), p["apid"], p["seq"], p["mc"], p["tref"], p["dest"], p["ver"], p["seq_flags"])

    def decode(self, model, raw):
        return self.cls().unpack(raw, len(model["p"]["ts"]))

    def decoded_ok(self, obj, model):
        u = UP.UNITS["PusTm"]
        return u.observe(obj) == u.expected(model["p"])

    def make_arg(self, attr, spec):
        if attr == "tm_data":
            return bytearray(self._data(spec)) if spec < 0 else self._data(spec)
        if attr == "seq_flags":
            import spacepackets.ccsds.spacepacket as sp

            return sp.SequenceFlags(spec)
        return spec

    def update(self, model, attr, spec):
        key = {"tm_data": "data", "apid": "apid", "seq_flags": "seq_flags"}[attr]
        model["p"][key] = self._data(spec) if attr == "tm_data" else spec

    def lenfield(self, raw, model):
        return int.from_bytes(raw[4:6], "big"), len(raw) - 7

    def representable(self, model):
        return 6 + 7 + len(model["p"]["ts"]) + len(model["p"]["data"]) + 2 <= 65542

    def repro(self, model0, start, names):
        p = model0["p"]
        lines = ["from spacepackets.ecss.tm import PusTm", "from spacepackets.ccsds.spacepacket import SequenceFlags",
                 f"tm = PusTm({p['svc']}, {p['sub']}, {bytes(p['ts'])!r}, {bytes(p['data'])!r}, {p['apid']:#x}, {p['seq']:#x}, {p['mc']:#x}, {p['tref']}, {p['dest']:#x}, {p['ver']})"]
        if start == "decoded":
            lines.append(f"tm = PusTm.unpack(bytes(tm.pack()), {len(p['ts'])})")
        evs = {e[0]: e for e in self.menu("b") + self.menu("t") + self.menu("q")}
        for n in names:
            _, attr, spec = evs[n]
            lines.append("tm.pack()" if attr == "pack" else same_object_src("tm", attr, _short_src(self.make_arg(attr, spec))) if n.endswith(SAME_OBJECT)
                         else f"tm.{attr} = {('SequenceFlags(%d)' % spec) if attr == 'seq_flags' else _short_src(self.make_arg(attr, spec))}")
        lines += ["raw = bytes(tm.pack())", "assert tm.packet_len == len(raw) and int.from_bytes(raw[4:6], 'big') == len(raw) - 7", "assert bytes(tm.pack()) == raw"]
        return "\n".join(lines)


# ---------------------------------------------------------------------------------------------- USLP
class UslpMachine(Machine):
    name = "TransferFrame"
    family = "uslp"
    listed_setters = ("tfdz",)

    def cls(self):
        return UU._f().TransferFrame

    def setter_target_cls(self):
        return UU._f().TransferFrameDataField

    def target(self, obj, attr):
        return obj.tfdf

    def reported_len(self, obj):
        return obj.len()

    def inits(self, cfg):
        def mk(hdr, rule, upid, ptr, n, iz, ocf, fecf, synced):
            p = dict(hdr=dict(hdr), rule=rule, upid=upid, ptr=ptr, tfdz=UU.tfdz_pattern(n, rule), iz=iz, ocf=ocf, fecf=fecf)
            p["hdr"]["frame_len"] = (self._total(p) - 1) if synced else 0
            return p

        return [mk(UU.HDRS[1], 0b111, 0, None, 4, None, None, None, True),
                mk(UU.HDRS[0], 0b000, 5, 0x0102, 4, b"\xa1\xa2", b"\x11\x22\x33\x44", b"\xf1\xf2", True),
                mk(UU.HDRS[2], 0b011, 31, None, 1, None, b"\x11\x22\x33\x44", b"\xf1\xf2\xf3\xf4", False)]

    def menu(self, level):
        t = level == "t"
        if level == "b":
            return [("tfdz=40000", "tfdz", 40000), ("tfdz=65000", "tfdz", 65000), ("tfdz=4", "tfdz", 4), ("set_frame_len_in_header", "set_frame_len_in_header", None), PACK]
        ev = [("tfdz=0", "tfdz", 0), ("tfdz=1", "tfdz", 1), ("tfdz=4", "tfdz", 4), ("tfdz=16", "tfdz", 16)]
        if t:
            ev += [("tfdz=300", "tfdz", 300), ("tfdz=4ba", "tfdz", -4), ("tfdz=2", "tfdz", 2)]
        return ev + [("set_frame_len_in_header", "set_frame_len_in_header", None), PACK]

    @staticmethod
    def _tfdz(n):
        return bytes((0xC1 + 3 * i) & 0xFF for i in range(abs(n)))

    @staticmethod
    def _body(p):
        return RU.frame_body(p["rule"], p["upid"], p["ptr"], p["tfdz"], p["iz"], p["ocf"], p["fecf"])

    def _total(self, p):
        return 7 + p["hdr"]["vcf_len"] + len(self._body(p))

    def construct(self, model):
        f = UU._f()
        p = model["p"]
        ba = p.get("data_ba")

        def mut(x):
            return None if x is None else (bytearray(x) if ba else bytes(x))

        hdr = UU.build_primary_header(dict(p["hdr"], ocf=int(p["ocf"] is not None)))
        tfdz = mut(p["tfdz"])
        upid = p["upid"]
        try:
            upid = f.UslpProtocolIdentifier(upid)
        except ValueError:
            pass
        rule = f.TfdzConstructionRules(p["rule"])
        iz, ocf, fecf = mut(p["iz"]), mut(p["ocf"]), mut(p["fecf"])
        tfdf = f.TransferFrameDataField(rule, upid, tfdz, p["ptr"])
        return (lambda: f.TransferFrame(header=hdr, tfdf=tfdf, insert_zone=iz, op_ctrl_field=ocf, fecf=fecf)), \
            [("header", hdr), ("tfdf", tfdf), ("tfdz", tfdz), ("insert_zone", iz), ("op_ctrl_field", ocf), ("fecf", fecf)]

    def ref(self, model):
        p = model["p"]
        h = p["hdr"]
        return RU.primary_header(h["scid"], h["src_dest"], h["vcid"], h["map_id"], h["frame_len"], h["bypass"], h["prot_cmd"],
                                 int(p["ocf"] is not None), h["vcf_len"], h["vcf_count"] if h["vcf_len"] else 0) + self._body(p)

    def _recipe(self, p):
        return dict(hdr={k: v for k, v in p["hdr"].items() if k != "frame_len"}, rule=p["rule"], upid=p["upid"], ptr=p["ptr"],
                    tfdz=p["tfdz"], iz=p["iz"], ocf=p["ocf"], fecf=p["fecf"])

    def decode(self, model, raw):
        p = model["p"]
        if p["hdr"]["frame_len"] != len(raw) - 1:
            raise NotAStartState()
        f = UU._f()
        ft, props = UU.matching_properties(self._recipe(p), "fixed" if p["rule"] in RU.FIXED_RULES else "var", len(raw))
        return f.TransferFrame.unpack(raw_frame=raw, frame_type=ft, frame_properties=props)

    def decoded_ok(self, obj, model):
        return UU.observe_frame(obj) == UU.expected_frame(self._recipe(model["p"]))

    def make_arg(self, attr, spec):
        return bytearray(self._tfdz(spec)) if spec < 0 else self._tfdz(spec)

    def update(self, model, attr, spec):
        p = model["p"]
        if attr == "tfdz":
            p["tfdz"] = self._tfdz(spec)
        else:
            p["hdr"]["frame_len"] = self._total(p) - 1

    def lenfield(self, raw, model):
        return unpack_fields(raw, RU.HDR_WIDTHS)[6], model["p"]["hdr"]["frame_len"]

    def repro(self, model0, start, names):
        p = model0["p"]
        h = p["hdr"]
        lines = ["from spacepackets.uslp.header import *; from spacepackets.uslp.frame import *",
                 f"hdr = PrimaryHeader(scid={h['scid']:#x}, src_dest=SourceOrDestField({h['src_dest']}), vcid={h['vcid']}, map_id={h['map_id']}, frame_len={h['frame_len']}, "
                 f"bypass_seq_ctrl_flag=BypassSequenceControlFlag({h['bypass']}), prot_ctrl_cmd_flag=ProtocolCommandFlag({h['prot_cmd']}), "
                 f"op_ctrl_flag={p['ocf'] is not None}, vcf_count_len={h['vcf_len']}, vcf_count={h['vcf_count'] if h['vcf_len'] else None})",
                 f"tfdf = TransferFrameDataField(TfdzConstructionRules({p['rule']}), {p['upid']}, {bytes(p['tfdz'])!r}, {p['ptr']!r})",
                 f"frame = TransferFrame(hdr, tfdf, {p['iz']!r}, {p['ocf']!r}, {p['fecf']!r})"]
        if start == "decoded":
            args = (f"has_insert_zone={p['iz'] is not None}, has_fecf={p['fecf'] is not None}, insert_zone_len={len(p['iz']) if p['iz'] is not None else None}, "
                    f"fecf_len={len(p['fecf']) if p['fecf'] is not None else None}")
            lines.append("raw0 = bytes(frame.pack())")
            if p["rule"] in RU.FIXED_RULES:
                lines.append(f"frame = TransferFrame.unpack(raw0, FrameType.FIXED, FixedFrameProperties(fixed_len=len(raw0), {args}))")
            else:
                lines.append(f"frame = TransferFrame.unpack(raw0, FrameType.VARIABLE, VarFrameProperties(truncated_frame_len=12, {args}))")
        evs = {e[0]: e for e in self.menu("b") + self.menu("t") + self.menu("q")}
        synced = h["frame_len"] == self._total(p) - 1
        for n in names:
            _, attr, spec = evs[n]
            if attr == "pack":
                lines.append("frame.pack()")
            elif attr == "tfdz":
                lines.append(f"frame.tfdf.tfdz = {_short_src(self.make_arg(attr, spec))}")
                synced = False
            else:
                lines.append("frame.set_frame_len_in_header()")
                synced = True
        lines += ["raw = bytes(frame.pack())", "assert frame.len() == len(raw)"]
        if synced:
            lines.append("assert int.from_bytes(raw[4:6], 'big') == len(raw) - 1")
        lines.append("assert bytes(frame.pack()) == raw")
        return "\n".join(lines)


def machines():
    return collections.OrderedDict((m.name, m) for m in (
        TcMachine(), TmMachine(),
        CfdpMachine("EofPdu", ("fault_location",)),
        CfdpMachine("FinishedPdu", ("file_store_responses", "fault_location")),
        CfdpMachine("MetadataPdu", ("options", "source_file_name", "dest_file_name")),
        CfdpMachine("NakPdu", ("segment_requests", "file_flag")),
        CfdpMachine("FileDataPdu", ("file_data", "segment_metadata")),
        CfdpMachine("KeepAlivePdu", ("file_flag",)),
        UslpMachine(),
    ))


_M = None


def M(name):
    global _M
    if _M is None:
        _M = machines()
    return _M[name]


# ======================================================================================================
# history execution and oracle
# ======================================================================================================
class Run:
    __slots__ = ("obj", "model", "held", "fail", "purity", "skip", "refused")

    def __init__(self):
        self.obj = self.model = self.fail = self.skip = None
        self.refused = False
        self.held, self.purity = [], []


def _safe_repro(mach, model0, start, names):
    """the repro text is a convenience: a failure to render it must never turn a verdict into a harness error"""
    try:
        return mach.repro(model0, start, names)
    except Exception as e:  # noqa: BLE001
        return "# repro source not available (%s: %s); use the replay file" % (type(e).__name__, e)


def culprit_of(start, evs):
    if not evs:
        return "constructor" if start == "ctor" else "decode"
    return evs[-1][1]


def run_history(mach, cfg, init, start, evs, judge_ctor=True):
    """fresh objects, real constructor / decoder, real setters; returns a Run"""
    r = Run()
    r.model = {"cfg": dict(cfg), "p": copy.deepcopy(init)}
    if start == "ctor":
        try:
            ctor, held = mach.construct(r.model)
            before = held_dump(held)
            r.obj = ctor()
        except Exception as e:
            r.fail = Fail("exception", "constructor-raises", repr(e), "an object")
            return r
        r.held = held
        if judge_ctor:
            d = held_diff(before, held_dump(held))
            if d:
                r.purity.append(("constructor-modifies-caller-object", d))
    else:
        try:
            raw = mach.ref(r.model)
            r.obj = mach.decode(r.model, raw)
            if not mach.decoded_ok(r.obj, r.model):
                r.skip = "decoder-returns-other-values"
        except NotAStartState:
            r.skip = "not-applicable(frame length stale by construction)"
        except Exception as e:
            r.skip = "decoder-refuses:" + type(e).__name__
        if r.skip:
            return r
    for ev in evs:
        try:
            mach.apply(r.obj, ev, r.model, r.held)
        except Exception as e:
            trial = copy.deepcopy(r.model)
            if ev[1] not in ("pack", "set_frame_len_in_header"):
                try:
                    mach.update(trial, ev[1], ev[2])
                except Exception:  # noqa: BLE001
                    pass
            if not mach.representable(trial):
                if ev[1] not in ("pack", "set_frame_len_in_header") and mach.representable(r.model):
                    # the SETTER refused a value the format cannot carry: the assignment did not take place - the object goes on
                    # as it was (model unchanged), and everything observed later is judged against that
                    continue
                r.refused = True  # pack() refused values the format cannot carry: the history ends here
                return r
            r.fail = Fail("exception", ("pack-raises" if ev[1] == "pack" else f"{ev[1]}-raises"), repr(e), "accepted: the value is legal")
            return r
    return r


CLAUSES = ["exception", "len", "lenfield", "octets", "fresh", "repeat", "eq"]


def oracle(mach, r, twin):
    """-> (every clause that fails at the state reached, in the order of CLAUSES; packed octets or None).
    Purity findings are appended to r.purity."""
    obj, model = r.obj, r.model
    fails = []
    try:
        l0 = int(mach.reported_len(obj))
    except Exception as e:
        return [Fail("exception", "reported-length-raises", repr(e), None)], None
    eq0 = (safe_eq(obj, twin), safe_eq(twin, obj))
    hb = held_dump(r.held)
    if not mach.representable(model):
        try:
            rawx = bytes(obj.pack())
        except Exception:
            return [], None  # refused: right (which exception is C02 / C03's business)
        return [Fail("octets", "values-beyond-the-length-field-packed", {"len(pack())": len(rawx), "octets": rawx[:16]}, "pack() refuses")], None
    try:
        raw1 = bytes(obj.pack())
    except Exception as e:
        return [Fail("exception", "pack-raises", repr(e), "octets: every value set is legal")], None
    d = held_diff(hb, held_dump(r.held))
    if d:
        r.purity.append(("pack-modifies-caller-object", d))
    l1 = int(mach.reported_len(obj))
    if l0 != len(raw1) or l1 != len(raw1):
        fails.append(Fail("len", "reported-length!=len(pack())", {"reported_before_pack": l0, "reported_after_pack": l1, "len(pack())": len(raw1), "octets": raw1[:64]}, len(raw1)))
    try:
        got, need = mach.lenfield(raw1, model)
        if got != need:
            fails.append(Fail("lenfield", "length-field-in-octets", {"field": got, "octets": raw1[:64]}, need))
    except Exception as e:
        fails.append(Fail("lenfield", "length-field-unreadable", repr(e), None))
    if mach.octets_judged(model):
        ref = mach.ref(model)
        if raw1 != ref:
            fails.append(Fail("octets", "pack()!=reference-encoding-of-final-values", raw1[:96], ref[:96]))
    try:
        ctor, _ = mach.construct(model)
        fresh = ctor()
        rawf = bytes(fresh.pack())
    except Exception:
        rawf = None  # whether these values can be constructed directly is C02/C03/C06/C07's business
    if rawf is not None and rawf != raw1:
        fails.append(Fail("fresh", "pack()!=pack()-of-fresh-object-with-final-values", raw1[:96], rawf[:96]))
    try:
        raw2 = bytes(obj.pack())
        if raw2 != raw1:
            fails.append(Fail("repeat", "second-pack-differs", raw2[:96], raw1[:96]))
    except Exception as e:
        fails.append(Fail("repeat", "second-pack-raises", repr(e), raw1[:96]))
    d = held_diff(hb, held_dump(r.held))
    if d and not r.purity:
        r.purity.append(("pack-modifies-caller-object", d))
    eq1 = (safe_eq(obj, twin), safe_eq(twin, obj))
    if eq1 != eq0:
        fails.append(Fail("eq", "equality-with-untouched-twin-changed-by-pack", eq1, eq0))
    return fails, raw1


def evaluate(mach, cfg, init, start, evs):
    """-> (Run, [Fail], packed octets|None, state key|None)"""
    r = run_history(mach, cfg, init, start, evs)
    if r.skip:
        return r, [], None, None
    if r.fail:
        return r, [r.fail], None, None
    if r.refused:
        return r, [], None, None
    key = (dump(r.obj), repr(U.hexed(r.model)))
    twin = run_history(mach, cfg, init, start, evs, judge_ctor=False)
    fails, raw = oracle(mach, r, twin.obj)
    return r, fails, raw, key


# The octets of a start state (no setter applied yet) are C02/C03/C06/C07/C17's subject ("constructor + pack encode
# correctly", "decode then re-pack"): at the empty history only the self-consistency clauses are reported.  The
# start state's full verdict is still the baseline against which the first event is judged.
START_REPORTED = ("exception", "len", "lenfield", "repeat", "eq")


def new_failure(depth, fails, parent_clauses):
    """the failure this history is reported under: the first clause (order of CLAUSES) that fails here and did not
    fail in the parent state - i.e. the last event is the culprit"""
    for f in fails:
        if depth == 0:
            if f.clause in START_REPORTED:
                return f
        elif f.clause not in parent_clauses:
            return f
    return None


def case_of(mach, cfg, ii, start, names):
    return {"kind": "hist", "m": mach.name, "cfg": dict(cfg), "init": ii, "start": start, "seq": list(names)}


def report(rec, mach, cfg, ii, init, start, evs, r, fail, seen_purity=None):
    names = [e[0] for e in evs]
    case = case_of(mach, cfg, ii, start, names)
    for kind, path in r.purity:
        sig = f"C11.purity/{mach.name}/{kind}/{path}"
        if seen_purity is None or sig not in seen_purity:
            if seen_purity is not None:
                seen_purity.add(sig)
            pnames = [] if kind.startswith("constructor") else names
            if mach.family == "cfdp" and kind.startswith("constructor"):
                repro = purity_repro(mach.kind, cfg, init, 1 - R.DIRECTION[mach.kind])
            else:
                repro = _safe_repro(mach, {"cfg": cfg, "p": init}, start, pnames)
            rec.violation(sig, case_of(mach, cfg, ii, start, pnames), path, "identical deep dump before and after", repro=repro)
    if fail is not None:
        sig = f"C11.{fail.clause}/{mach.name}/{fail.kind}/after={culprit_of(start, evs)}"
        rec.violation(sig, case, fail.observed, fail.expected, note=f"history: start={start} ; " + " ; ".join(names),
                      repro=_safe_repro(mach, {"cfg": cfg, "p": init}, start, names))


def account(rec, mach, evs, start, fails, new, raw, forms):
    if raw is not None:
        forms.add(raw)
    if new is not None:
        rec.outcome(f"{mach.name}/{new.clause}/after={culprit_of(start, evs)}")
    elif fails:
        rec.outcome(f"{mach.name}/inherited:{'+'.join(f.clause for f in fails)}")
        rec.count("histories_through_an_already_reported_violating_state")
    else:
        rec.outcome(f"{mach.name}/ok/len={len(raw)}" if raw is not None else f"{mach.name}/values-beyond-the-format-refused")


# ======================================================================================================
# sibling exploration: two packets built from ONE caller-owned PduConfig
# ======================================================================================================
# "constructing or packing a packet never modifies the configuration ... objects the caller passed in" is what allows a
# caller to build several PDUs from one PduConfig.  Packet B, built from the same configuration object as packet A and
# never touched afterwards, is a packet after the EMPTY setter history: whatever is done to A (any setter history, pack),
# B's reported length must still equal the octets it packs and those octets must be what they were.  The caller's
# configuration is given both directions (a constructor may treat "already my direction" differently).
SIBLING_KINDS = ["EofPdu", "FinishedPdu", "MetadataPdu", "NakPdu", "FileDataPdu", "KeepAlivePdu"]


def sibling_one(rec, mach, cfg, ii, direction, names, level="t"):
    init = mach.inits(cfg)[ii]
    by_name = {e[0]: e for e in mach.events(level)}
    evs = [by_name[n] for n in names]
    case = {"kind": "sibling", "m": mach.name, "cfg": dict(cfg), "init": ii, "dir": direction, "seq": list(names)}
    model = {"cfg": dict(cfg), "p": copy.deepcopy(init)}
    conf = U.pdu_config(_cfg(cfg), direction)
    try:
        ctor_a, held_a = cfdp_inputs(mach.kind, _cfg(cfg), model["p"], conf=conf)
        ctor_b, _held_b = cfdp_inputs(mach.kind, _cfg(cfg), copy.deepcopy(init), conf=conf)
        a = ctor_a()
        b = ctor_b()
        before = (bytes(b.pack()), int(mach.reported_len(b)))
    except Exception:
        rec.count("sibling_start_not_constructible")
        return  # the start state itself is C06/C07's business
    rec.case(True, ops=len(evs) + 4)
    rec.transitions += len(evs)
    rec.traces += 1
    rec.count(f"sibling_histories/{mach.name}")
    culprit = "constructor"
    for ev in evs:
        try:
            mach.apply(a, ev, model, held_a)
        except Exception:
            return  # judged by the history exploration of A itself
        culprit = ev[1]
        try:
            after = (bytes(b.pack()), int(mach.reported_len(b)))
        except Exception as e:
            after = ("exception", repr(e))
        if after != before:
            kind = "reported-length!=len(pack())" if (after[0] != "exception" and len(after[0]) != after[1]) else "octets-changed"
            rec.violation(f"C11.sibling/{mach.name}/untouched-packet-built-from-the-same-PduConfig/{kind}/after={culprit}", case,
                          {"octets": after[0], "reported_len": after[1]}, {"octets": before[0], "reported_len": before[1]},
                          note="A and B are built from one caller-owned PduConfig (direction %d); the history is applied to A only: %s" % (direction, " ; ".join(names)))
            return
    rec.outcome(f"sibling/{mach.name}/ok")


# -- the same for every PDU kind and for operations beyond the listed setters: whatever is done to packet A or to the
# caller's own PduConfig AFTER both packets were built, packet B (built from the same PduConfig, never touched) still packs
# the octets it packed before and reports their length.  Only re-assignment of the configuration's attributes is used on the
# caller's side (the PDUs take a shallow copy: in-place mutation of a field object the caller still holds is shared by design).
SIB2_OPS = ["a.pack", "a.seq=same-width", "a.seq=other-width", "a.ids=same-width", "a.ids=other-width", "a.crc_flag^", "a.file_flag^",
            "a.hdr.seg_ctrl^", "a.hdr.trans_mode^", "a.hdr.direction^", "a.hdr.segment_metadata_flag^", "a.hdr.pdu_data_field_len=",
            "conf.crc_flag^", "conf.file_flag^", "conf.seg_ctrl^", "conf.trans_mode^", "conf.direction^", "conf.seq=new", "conf.ids=new"]


def _flip(enum_cls, cur):
    vals = list(enum_cls)
    return vals[(vals.index(enum_cls(cur)) + 1) % len(vals)]


def sib2_apply(op, a, conf):
    """apply one operation; returns False if this tree / kind does not offer it (not judged)"""
    hdr = a.pdu_header
    w = hdr.pdu_conf.transaction_seq_num.byte_len
    iw = hdr.pdu_conf.source_entity_id.byte_len
    other = {1: 2, 2: 4, 4: 8, 8: 1}
    B = L.ByteFieldGenerator
    try:
        if op == "a.pack":
            a.pack()
        elif op == "a.seq=same-width":
            hdr.transaction_seq_num = B.from_int(w, 0x5A)
        elif op == "a.seq=other-width":
            hdr.transaction_seq_num = B.from_int(other[w], 0x5A)
        elif op == "a.ids=same-width":
            hdr.set_entity_ids(B.from_int(iw, 0x6B), B.from_int(iw, 0x7C))
        elif op == "a.ids=other-width":
            hdr.set_entity_ids(B.from_int(other[iw], 0x6B), B.from_int(other[iw], 0x7C))
        elif op == "a.crc_flag^":
            a.crc_flag = _flip(L.CrcFlag, a.crc_flag)
        elif op == "a.file_flag^":
            a.file_flag = _flip(L.LargeFileFlag, a.file_flag)
        elif op == "a.hdr.seg_ctrl^":
            hdr.seg_ctrl = _flip(L.SegmentationControl, hdr.seg_ctrl)
        elif op == "a.hdr.trans_mode^":
            hdr.transmission_mode = _flip(L.TransmissionMode, hdr.transmission_mode)
        elif op == "a.hdr.direction^":
            hdr.direction = _flip(L.Direction, hdr.direction)
        elif op == "a.hdr.segment_metadata_flag^":
            hdr.segment_metadata_flag = _flip(L.SegmentMetadataFlag, hdr.segment_metadata_flag)
        elif op == "a.hdr.pdu_data_field_len=":
            hdr.pdu_data_field_len = hdr.pdu_data_field_len + 3
        elif op == "conf.crc_flag^":
            conf.crc_flag = _flip(L.CrcFlag, conf.crc_flag)
        elif op == "conf.file_flag^":
            conf.file_flag = _flip(L.LargeFileFlag, conf.file_flag)
        elif op == "conf.seg_ctrl^":
            conf.seg_ctrl = _flip(L.SegmentationControl, conf.seg_ctrl)
        elif op == "conf.trans_mode^":
            conf.trans_mode = _flip(L.TransmissionMode, conf.trans_mode)
        elif op == "conf.direction^":
            conf.direction = _flip(L.Direction, conf.direction)
        elif op == "conf.seq=new":
            conf.transaction_seq_num = B.from_int(other[w], 0x11)
        elif op == "conf.ids=new":
            conf.source_entity_id = B.from_int(other[iw], 0x22)
            conf.dest_entity_id = B.from_int(other[iw], 0x33)
        else:
            raise AssertionError(op)
    except (AttributeError, TypeError):
        return False
    except Exception:
        return True  # a refusal on A is A's own business; B is still looked at
    return True


def sibling2_one(rec, kind, cfg, tag, direction, ops):
    unit = U.UNITS[kind]
    case = {"kind": "sibling2", "unit": kind, "cfg": dict(cfg), "tag": tag, "dir": direction, "ops": list(ops)}
    c = _cfg(cfg)
    try:
        p = U.norm({"cfg": c, "params": unit.param_set(tag, c)})["params"]
        conf = U.pdu_config(c, direction)
        ctor_a, _ha = cfdp_inputs(kind, c, copy.deepcopy(p), conf=conf)
        ctor_b, _hb = cfdp_inputs(kind, c, copy.deepcopy(p), conf=conf)
        a, b = ctor_a(), ctor_b()
        before = (bytes(b.pack()), int(b.packet_len))
    except Exception:
        rec.count("sibling_start_not_constructible")
        return
    rec.case(True, ops=len(ops) + 3)
    rec.transitions += len(ops)
    rec.traces += 1
    rec.count(f"sibling2_histories/{kind}")
    for op in ops:
        if not sib2_apply(op, a, conf):
            rec.count("sibling2_operation_not_offered")
            continue
        try:
            after = (bytes(b.pack()), int(b.packet_len))
        except Exception as e:
            after = ("exception", repr(e))
        if after != before:
            k = "reported-length!=len(pack())" if (after[0] != "exception" and len(after[0]) != after[1]) else "octets-changed"
            rec.violation(f"C11.sibling/{kind}/untouched-packet-built-from-the-same-PduConfig/{k}/after={op}", case,
                          {"octets": after[0], "reported_len": after[1]}, {"octets": before[0], "reported_len": before[1]},
                          note="A and B are built from one caller-owned PduConfig; the operations are applied to A / to the caller's PduConfig only")
            return
    rec.outcome(f"sibling2/{kind}/ok")


def sibling2_run(rec, item):
    kind = item["unit"]
    unit = U.UNITS[kind]
    cfgs = M("EofPdu").cfgs("quick")
    for cfg in cfgs:
        for tag in unit.param_set_tags():
            for direction in (0, 1):
                for op in SIB2_OPS:
                    sibling2_one(rec, kind, cfg, tag, direction, [op])
                if item["depth"] >= 2:
                    for op1 in SIB2_OPS:
                        for op2 in SIB2_OPS:
                            if op1 != op2:
                                sibling2_one(rec, kind, cfg, tag, direction, [op1, op2])


def sibling_run(rec, item):
    mach = M(item["m"])
    depth = item["depth"]
    names = [e[0] for e in mach.events("q")]
    for cfg in mach.cfgs("quick"):
        for ii in range(len(mach.inits(cfg))):
            for direction in (0, 1):
                for d in range(0, depth + 1):
                    for seq in itertools.product(names, repeat=d):
                        sibling_one(rec, mach, cfg, ii, direction, list(seq), level="q")


# ======================================================================================================
# explorers
# ======================================================================================================
def explore_stateless(rec, mach, cfg, ii, init, level, depth, first, forms):
    evs_all = mach.events(level)
    seen_purity = set()
    keys = set()
    for start in ("ctor", "decoded"):
        verdict = {}  # history (event indices) -> frozenset of failing clauses; None: the run itself broke (unusable state)
        skipped = False
        for d in range(0, depth + 1):
            firsts = [None] if d == 0 else ([first] if first is not None else list(range(len(evs_all))))
            for f0 in firsts:
                for tail in itertools.product(range(len(evs_all)), repeat=max(d - 1, 0)):
                    idx = (() if d == 0 else (f0,) + tail)
                    parent = verdict.get(idx[:-1]) if d else frozenset()
                    if parent is None:
                        rec.count("histories_pruned_after_an_exception")
                        verdict[idx] = None
                        continue
                    evs = [evs_all[i] for i in idx]
                    r, fails, raw, key = evaluate(mach, cfg, init, start, evs)
                    if r.skip:
                        rec.count(f"decoded_start_skipped/{mach.name}/{r.skip}")
                        skipped = True
                        break
                    verdict[idx] = None if r.fail else frozenset(f.clause for f in fails)
                    dup = d == 0 and first not in (None, 0)
                    rec.case(not dup, ops=len(evs) + 6)
                    rec.transitions += len(evs)
                    rec.traces += 1
                    rec.count(f"histories/{mach.name}")
                    if key is not None:
                        keys.add(key)
                    new = new_failure(d, fails, parent)
                    if new is not None or r.purity:
                        report(rec, mach, cfg, ii, init, start, evs, r, new, seen_purity)
                    account(rec, mach, evs, start, fails, new, raw, forms)
                if skipped:
                    break
            if skipped:
                break
        if not skipped:
            rec.count(f"start_states/{mach.name}/{start}")
    rec.states += len(keys)
    rec.extra["max_depth"] = max(rec.extra.get("max_depth", 0), depth)
    return len(keys)


def explore_bfs(rec, mach, cfg, ii, init, level, depth, forms):
    evs_all = mach.events(level)
    seen_purity = set()
    total = 0
    for start in ("ctor", "decoded"):
        r, fails, raw, key = evaluate(mach, cfg, init, start, [])
        if r.skip:
            rec.count(f"decoded_start_skipped/{mach.name}/{r.skip}")
            continue
        rec.case(False, ops=6)
        rec.traces += 1
        new = new_failure(0, fails, frozenset())
        if new is not None or r.purity:
            report(rec, mach, cfg, ii, init, start, [], r, new, seen_purity)
        account(rec, mach, [], start, fails, new, raw, forms)
        if r.fail:
            continue
        seen = {key: ()}
        frontier = [((), frozenset(f.clause for f in fails))]
        level_n = 0
        fix = False
        while frontier and level_n < depth:
            level_n += 1
            nxt = []
            for hist, pclauses in frontier:
                for i in range(len(evs_all)):
                    h2 = hist + (i,)
                    evs = [evs_all[j] for j in h2]
                    r, fails, raw, key = evaluate(mach, cfg, init, start, evs)
                    rec.case(True, ops=len(evs) + 6)
                    rec.transitions += 1
                    rec.traces += 1
                    rec.count(f"bfs_transitions/{mach.name}")
                    new = new_failure(len(h2), fails, pclauses)
                    if new is not None or r.purity:
                        report(rec, mach, cfg, ii, init, start, evs, r, new, seen_purity)
                    account(rec, mach, evs, start, fails, new, raw, forms)
                    if r.fail:
                        continue  # the run itself broke: not a state
                    if key not in seen:
                        seen[key] = h2
                        nxt.append((h2, frozenset(f.clause for f in fails)))
            frontier = nxt
            if not frontier:
                fix = True
        rec.count(f"bfs_fixpoint_reached/{mach.name}" if fix else f"bfs_depth_bound_hit/{mach.name}")
        rec.extra["bfs_levels"] = max(rec.extra.get("bfs_levels", 0), level_n)
        rec.count(f"bfs_states/{mach.name}", len(seen))
        rec.count(f"start_states/{mach.name}/{start}")
        total += len(seen)
    rec.states += total
    return total


# ======================================================================================================
# purity shards: every constructor and pack() of every packet class
# ======================================================================================================
PURITY_UNITS = ["PduHeader", "FileDirectivePduBase", "EofPdu", "FinishedPdu", "AckPdu", "MetadataPdu", "NakPdu", "PromptPdu", "KeepAlivePdu", "FileDataPdu",
                "PusTc", "PusTm", "Service17Tm", "Service1Tm", "TransferFrame"]


def purity_cases(unit, tier):
    """[(plain-data case, )] for one packet class"""
    out = []
    if unit in ("PduHeader", "FileDirectivePduBase"):
        # the bare header classes, built directly from a caller-owned PduConfig: every flag argument x both directions
        for ci, _cfg_ in enumerate(M("EofPdu").cfgs("quick")):
            for ptype in (0, 1):
                for segmeta in (0, 1):
                    for direction in (0, 1):
                        out.append({"kind": "purity", "unit": unit, "tier": tier, "ci": ci, "ptype": ptype, "segmeta": segmeta, "dir": direction})
        return out
    if unit in U.PDU_KINDS:
        for ri, rcp in enumerate(U.UNITS[unit].corpus(tier)):
            for direction in (0, 1):
                for ba in (0, 1):
                    if ba and unit not in ("EofPdu", "FileDataPdu"):
                        continue
                    out.append({"kind": "purity", "unit": unit, "tier": tier, "i": ri, "dir": direction, "ba": ba})
                    # optional collections given as None instead of an empty list (both are documented inputs)
                    if unit == "FinishedPdu" and not (U.norm(rcp)["params"].get("resps")):
                        out.append({"kind": "purity", "unit": unit, "tier": tier, "i": ri, "dir": direction, "ba": ba, "none": 1})
                    # a fault location handed over together with the 'no error' code (a combination the standard does not define: the
                    # octets are not judged) still belongs to the caller: the constructor and pack() must leave it and the params alone
                    if unit in ("EofPdu", "FinishedPdu") and U.norm(rcp)["params"].get("fault") is not None:
                        out.append({"kind": "purity", "unit": unit, "tier": tier, "i": ri, "dir": direction, "ba": ba, "cc0": 1})
    elif unit == "TransferFrame":
        for fam in ("UslpTransferFrameVar", "UslpTransferFrameFixed", "UslpTransferFrameTruncated"):
            for ri in range(len(UU.UNITS[fam].corpus(tier))):
                for ba in (0, 1):
                    out.append({"kind": "purity", "unit": unit, "tier": tier, "fam": fam, "i": ri, "ba": ba})
    else:
        for ri in range(len(UP.UNITS[unit].corpus(tier))):
            for ba in (0, 1):
                out.append({"kind": "purity", "unit": unit, "tier": tier, "i": ri, "ba": ba})
    return out


def purity_inputs(case):
    """(constructor callable, held list, pack callable taking the object) for one purity case"""
    unit, tier, ba = case["unit"], case["tier"], case.get("ba", 0)

    def mut(x):
        return None if x is None else (bytearray(x) if ba else bytes(x))

    if unit in ("PduHeader", "FileDirectivePduBase"):
        cfg = _cfg(M("EofPdu").cfgs("quick")[case["ci"]])
        conf = U.pdu_config(cfg, case["dir"])
        if unit == "PduHeader":
            def build():
                return L.PduHeader(pdu_type=L.PduType(case["ptype"]), segment_metadata_flag=L.SegmentMetadataFlag(case["segmeta"]), pdu_data_field_len=5, pdu_conf=conf)
        else:
            def build():
                return L.FileDirectivePduBase(directive_code=L.DirectiveType.EOF_PDU, directive_param_field_len=3, pdu_conf=conf)
        return build, [("pdu_conf", conf)], lambda o: o.pack()

    if unit in U.PDU_KINDS:
        r = U.norm(U.UNITS[unit].corpus(tier)[case["i"]])
        p = dict(r["params"])
        if ba:
            p["data_ba"] = p["checksum_ba"] = True
        if case.get("none") and unit == "FinishedPdu":
            p["resps"] = None
        if case.get("cc0"):
            p["cc"] = R.NO_ERROR
        ctor, held = cfdp_inputs(unit, r["cfg"], p, case["dir"])
        return ctor, held, lambda o: o.pack()
    if unit == "TransferFrame":
        f = UU._f()
        fam = case["fam"]
        r = UU.UNITS[fam].corpus(tier)[case["i"]]
        tfdz, iz, ocf, fecf = (mut(x) for x in UU.frame_parts(r))
        trunc = fam.endswith("Truncated")
        hdr = UU.build_truncated_header(r["hdr"]) if trunc else UU.build_primary_header(dict(r["hdr"], frame_len=0x0102, ocf=int(ocf is not None)))
        upid = r["upid"]
        try:
            upid = f.UslpProtocolIdentifier(upid)
        except ValueError:
            pass
        before = dump(tfdz)
        tfdf = f.TransferFrameDataField(f.TfdzConstructionRules(r["rule"]), upid, tfdz, r.get("ptr"))
        if dump(tfdz) != before:
            raise AssertionError("TransferFrameDataField constructor modified the caller's data zone")  # never seen; kept as a tripwire

        def build():
            return f.TransferFrame(header=hdr, tfdf=tfdf, insert_zone=iz, op_ctrl_field=ocf, fecf=fecf)

        held = [("header", hdr), ("tfdf", tfdf), ("tfdz", tfdz), ("insert_zone", iz), ("op_ctrl_field", ocf), ("fecf", fecf)]
        if trunc:
            return build, held, lambda o: o.pack(truncated=True)
        ft = f.FrameType.FIXED if fam.endswith("Fixed") else f.FrameType.VARIABLE
        return build, held, lambda o: o.pack(frame_type=ft)
    r = UP.UNITS[unit].corpus(tier)[case["i"]]
    e = UP._ecss()
    if unit == "PusTc":
        data = mut(UP.bb(r["data"]))
        return (lambda: e.PusTc(r["svc"], r["sub"], apid=r["apid"], app_data=data, seq_count=r["seq"], source_id=r["src"], ack_flags=r["ack"])), [("app_data", data)], lambda o: o.pack()
    ts = mut(UP.bb(r["ts"]))
    if unit == "PusTm":
        data = mut(UP.bb(r["data"]))
        return (lambda: e.PusTm(r["svc"], r["sub"], ts, data, r["apid"], r["seq"], r["mc"], r["tref"], r["dest"], r["ver"])), [("timestamp", ts), ("source_data", data)], lambda o: o.pack()
    if unit == "Service17Tm":
        from spacepackets.ecss.pus_17_test import Service17Tm

        data = mut(UP.bb(r["data"]))
        return (lambda: Service17Tm(apid=r["apid"], subservice=r["sub"], timestamp=ts, ssc=r["seq"], source_data=data, packet_version=r["ver"],
                                    space_time_ref=r["tref"], destination_id=r["dest"])), [("timestamp", ts), ("source_data", data)], lambda o: o.pack()
    if unit == "Service1Tm":
        from spacepackets.ccsds.spacepacket import PacketId, PacketSeqCtrl, PacketType, SequenceFlags
        from spacepackets.ecss import PacketFieldEnum, RequestId
        from spacepackets.ecss.pus_1_verification import FailureNotice, Service1Tm, Subservice, VerificationParams

        ver, typ, shf, apid, fl, cnt = r["rid"]
        rid = RequestId(PacketId(PacketType(typ), bool(shf), apid), PacketSeqCtrl(SequenceFlags(fl), cnt), ver)
        step = PacketFieldEnum.with_byte_size(r["step"][1], r["step"][0]) if r["step"] else None
        fail = FailureNotice(PacketFieldEnum.with_byte_size(r["fail"][0][1], r["fail"][0][0]), mut(UP.bb(r["fail"][1]))) if r["fail"] else None
        vp = VerificationParams(rid, step, fail)
        return (lambda: Service1Tm(apid=r["apid"], subservice=Subservice(r["sub"]), timestamp=ts, verif_params=vp, seq_count=r["seq"],
                                   packet_version=r["ver"], space_time_ref=r["tref"], destination_id=r["dest"])), [("timestamp", ts), ("verif_params", vp)], lambda o: o.pack()
    raise AssertionError(unit)


def purity_repro(kind, cfg, p, direction):
    """self-contained snippet for the caller's PduConfig (the other caller objects are inlined by ctor_source)"""
    lines = U.ctor_source(kind, dict(U.CFG_DEFAULT, **cfg), p).split("\n")
    return "\n".join(lines[:-1] + [f"conf.direction = Direction({direction})", "import copy", "before = copy.deepcopy(conf)", lines[-1],
                                   "assert conf == before, 'the constructor modified the caller\\'s PduConfig'", "pdu.pack()",
                                   "assert conf == before, 'pack() modified the caller\\'s PduConfig'"])


def purity_one(rec, case):
    unit = case["unit"]
    ctor, held, packer = purity_inputs(case)
    rec.case(True, ops=3)
    rec.count(f"purity_cases/{unit}")
    b0 = held_dump(held)
    try:
        obj = ctor()
    except Exception as e:
        rec.count(f"purity_not_constructible/{unit}")  # whether the corpus value is constructible is C02/C03/C06/C07/C17's business
        rec.outcome(f"purity/{unit}/constructor-raises/{type(e).__name__}")
        return
    d = held_diff(b0, held_dump(held))
    if d:
        repro = None
        if unit in U.PDU_KINDS:
            rcp = U.norm(U.UNITS[unit].corpus(case["tier"])[case["i"]])
            repro = purity_repro(unit, rcp["cfg"], rcp["params"], case["dir"])
        rec.violation(f"C11.purity/{unit}/constructor-modifies-caller-object/{d}", case, d, "identical deep dump before and after", repro=repro)
        rec.outcome(f"purity/{unit}/constructor-modifies/{d}")
        b0 = held_dump(held)
    for n in (1, 2):
        try:
            packer(obj)
        except Exception as e:
            rec.outcome(f"purity/{unit}/pack-raises/{type(e).__name__}")
            return
        d = held_diff(b0, held_dump(held))
        if d:
            rec.violation(f"C11.purity/{unit}/pack-modifies-caller-object/{d}", case, d, "identical deep dump before and after")
            rec.outcome(f"purity/{unit}/pack-modifies/{d}")
            return
    rec.outcome(f"purity/{unit}/untouched")
    rec.sample({"purity_case": case, "caller_objects": [lab for lab, _ in held]}, limit=1)


# ======================================================================================================
# shards
# ======================================================================================================
SPLIT_FROM = 9  # machines with at least this many events get one thorough shard per first event


def shards(tier):
    items = []
    q = tier == "quick"
    for name, m in machines().items():
        quick_cfgs = m.cfgs("quick")
        for cfg in m.cfgs(tier):
            for ii in range(len(m.inits(cfg))):
                base = {"kind": "explore", "m": name, "cfg": cfg, "init": ii, "tier": tier}
                if q:
                    items.append(dict(base, mode="stateless", level="q", depth=3, first=None))
                    continue
                items.append(dict(base, mode="bfs", level="t", depth=6))
                if cfg not in quick_cfgs:
                    continue  # the two extra ID-width pairs of the thorough tier are explored by the state-hashing search only
                n = len(m.menu("q"))
                if n >= SPLIT_FROM:
                    for f0 in range(n):
                        items.append(dict(base, mode="stateless", level="q", depth=4, first=f0))
                else:
                    items.append(dict(base, mode="stateless", level="q", depth=4, first=None))
    # level "b": arguments that carry the 16-bit length fields beyond 0x7FFF and close to 0xFFFF, and back (depth 2, every order)
    for name, m in machines().items():
        if not m.menu("b"):
            continue
        for cfg in m.cfgs("quick"):
            items.append({"kind": "explore", "m": name, "cfg": cfg, "init": 0, "tier": tier, "mode": "stateless", "level": "b", "depth": 2 if q else 3, "first": None})
    for unit in PURITY_UNITS:
        items.append({"kind": "purity", "unit": unit, "tier": tier})
    for name in SIBLING_KINDS:
        items.append({"kind": "sibling", "m": name, "depth": 2 if q else 3, "tier": tier})
    for name in U.PDU_KINDS:
        items.append({"kind": "sibling2", "unit": name, "depth": 1 if q else 2, "tier": tier})
    # heavy shards first so that the pool drains evenly
    items.sort(key=lambda it: 0 if (it.get("m") == "MetadataPdu" or it.get("mode") == "bfs") else 1)
    return items


def run_shard(item):
    rec = Rec(PROPERTY, item)
    if item["kind"] == "purity":
        for case in purity_cases(item["unit"], item["tier"]):
            purity_one(rec, case)
        return rec.result()
    if item["kind"] == "sibling":
        sibling_run(rec, item)
        return rec.result()
    if item["kind"] == "sibling2":
        sibling2_run(rec, item)
        return rec.result()
    mach = M(item["m"])
    cfg = item["cfg"]
    init = mach.inits(cfg)[item["init"]]
    forms = set()
    if item["mode"] == "stateless":
        first = item["first"]
        if first is not None:  # index into the menu; the event list may lack a setter this tree does not have
            ev0, present = mach.menu(item["level"])[first], mach.events(item["level"])
            if ev0 not in present:
                return rec.result()
            first = present.index(ev0)
        n = explore_stateless(rec, mach, cfg, item["init"], init, item["level"], item["depth"], first, forms)
    else:
        n = explore_bfs(rec, mach, cfg, item["init"], init, item["level"], item["depth"], forms)
    rec.count(f"packed_forms/{mach.name}", len(forms))
    rec.count(f"states/{mach.name}", n)
    for a in mach.skipped_setters():
        rec.count(f"listed_setter_absent/{mach.name}.{a}")
    if forms and item["init"] == 0 and item.get("first") in (None, 0) and (cfg.get("crc", 0), cfg.get("large", 0), cfg.get("idw", 1)) == (0, 0, 1):
        ex_evs = mach.events(item["level"])[:2]
        model = {"cfg": dict(cfg), "p": copy.deepcopy(init)}
        for ev in ex_evs:
            if ev[1] not in ("pack",):
                mach.update(model, ev[1], ev[2])
        rec.sample({"machine": mach.name, "cfg": cfg, "start": "ctor", "history": [e[0] for e in ex_evs],
                    "final_values": U.hexed(model["p"]), "expected_octets": mach.ref(model)[:96]}, limit=1)
    return rec.result()


def replay(case):
    rec = Rec(PROPERTY, "replay")
    if case["kind"] == "purity":
        purity_one(rec, case)
        return rec.result()
    if case["kind"] == "sibling2":
        sibling2_one(rec, case["unit"], case["cfg"], case["tag"], case["dir"], case["ops"])
        return rec.result()
    if case["kind"] == "sibling":
        sibling_one(rec, M(case["m"]), case["cfg"], case["init"], case["dir"], case["seq"], level="t")
        return rec.result()
    mach = M(case["m"])
    cfg = case["cfg"]
    init = mach.inits(cfg)[case["init"]]
    by_name = {e[0]: e for e in mach.events("b") + mach.events("t") + mach.events("q")}
    evs = [by_name[n] for n in case["seq"]]
    parent = frozenset()
    if evs:
        pr, pfails, _, _ = evaluate(mach, cfg, init, case["start"], evs[:-1])
        if pr.skip:
            return rec.result()
        parent = frozenset(f.clause for f in pfails)
    r, fails, raw, key = evaluate(mach, cfg, init, case["start"], evs)
    rec.case(True, ops=len(evs) + 6)
    if r.skip:
        return rec.result()
    report(rec, mach, cfg, case["init"], init, case["start"], evs, r, new_failure(len(evs), fails, parent))
    return rec.result()


def finalize(tier, agg):
    c = agg["counters"]
    names = list(machines())

    def per(prefix):
        return {n: c.get(f"{prefix}/{n}", 0) for n in names if c.get(f"{prefix}/{n}", 0)}

    ext = agg["extra"]
    return {
        "machines": names,
        "histories_per_machine": per("histories"),
        "bfs_transitions_per_machine": per("bfs_transitions"),
        "distinct_states_per_machine (full __dict__ dump + model, summed over shards)": per("states"),
        "distinct_packed_forms_per_machine (summed over shards)": per("packed_forms"),
        "bfs_searches_that_reached_the_fixpoint": per("bfs_fixpoint_reached"),
        "bfs_searches_stopped_by_the_depth_bound": per("bfs_depth_bound_hit"),
        "stateless_depth_completed": max([e.get("max_depth", 0) for e in ext] or [0]),
        "bfs_levels_completed_max": max([e.get("bfs_levels", 0) for e in ext] or [0]),
        "start_states": {k.split("/", 1)[1]: v for k, v in sorted(c.items()) if k.startswith("start_states/")},
        "decoded_start_states_skipped (decoder refuses or returns other values: C06/C07)": {k.split("/", 1)[1]: v for k, v in sorted(c.items()) if k.startswith("decoded_start_skipped/")},
        "listed_setters_absent_in_this_tree": sorted(k.split("/", 1)[1] for k in c if k.startswith("listed_setter_absent/")),
        "purity_cases_per_class": {k.split("/", 1)[1]: v for k, v in sorted(c.items()) if k.startswith("purity_cases/")},
        "event_menu_sizes": {n: {"quick": len(m.menu("q")), "extended": len(m.menu("t"))} for n, m in machines().items()},
    }
