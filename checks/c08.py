"""C08 - CFDP TLV / LV items encode exactly, round-trip and are type-safe (engines V + F).
DESIGN.md section 4, C08; readings in section 5.6."""

from __future__ import annotations

import itertools

from mc import domains as D
from mc.alias import receive_buffer, reuse_buffer
from mc.rec import Rec
from ref import tlv as R
from units.cfdp_tlv import CONCRETE, CONDITION_CODES, HANDLER_CODES, UNITS, bt, enum_status_codes, hx

PROPERTY = "C08"
LEVEL = "model_checking"  # bounded-exhaustive enumeration of executions against a reference model (DESIGN.md 1, 2.1)
EXHAUSTIVE = True
RULE = (
    "generic: CfdpTlv for each of the 6 defined type octets and CfdpLv over every octet string of length <= 2 plus 5 shaped "
    "contents (zeros, 0xFF, incrementing, decrementing, 0x55/0xAA) of every length 3..255 (a shaped string of length <= 2 is "
    "not executed again); every undefined type octet (250) on decode through the generic and the six concrete decoders; "
    "lengths 256, 257, 1000(, 65535, 65536) through every constructor taking an octet string. concrete: entity IDs of width "
    "1,2,4,8 x walk(8w); flow label / message to user over the same octet strings; fault-handler override 13 condition codes "
    "x 4 handler codes; filestore request 9 action codes x name pairs; filestore response 9 action codes x every status code "
    "the library's enum defines for the action x name pairs x filestore messages; a parameter tuple whose value exceeds 255 "
    "octets must be refused; every concrete parameter tuple is decoded through C.unpack, C.from_tlv and both TlvHolder routes, and "
    "through C.unpack once more from a buffer that continues after the TLV (same parameters, consumed length = the TLV's own). type safety: every concrete class C x every foreign defined type T x sample values of T through "
    "C.unpack, C.from_tlv, TlvHolder(generic).to_C and TlvHolder(concrete object of type T).to_C. A case is distinct by its "
    "coordinates (kind, class, type octet, value / recipe, path); shards partition the coordinates and lists are de-duplicated."
)
BOUNDS = {
    "quick": "name alphabet 8 names + boundary names (252..256 octets); filestore messages of 0,1,200 octets; type-safety samples: all values of length <= 1, shaped lengths 2,3,4,8,9,255 and the unit corpora",
    "thorough": "name alphabet 18 names + boundary names + every name length 0..257 (ASCII) and 0..129 two-octet characters; filestore messages of 0,1,2,3,64,200,249..253 octets and every 9th length 4..256; type-safety samples: all values of length <= 2, shaped lengths 3,4,8,9,64,254,255 and the unit corpora",
}
ASSUMPTIONS = [
    "ref/tlv.py transcribes CCSDS 727.0-B-5 5.4 (selftest/st_ref_tlv.py binds it to the octets asserted by tests/cfdp/tlvslvs and tests/cfdp/pdus)",
    "file names are encoded as UTF-8 (the library's documented str API); the second file name LV is present exactly for RENAME, APPEND, REPLACE",
    "status codes: every (action, status) pair of table 5-18 must decode, and every enum member named after a row of the table must carry that row's nibble (ref/tlv.py STD_STATUS_BY_MEANING); the parameter sweeps additionally use every code the library's enum defines for the action",
    "a type-mismatch error is TlvTypeMissmatch; TlvHolder conversions may also raise TypeError (DESIGN.md 5.6); an undefined type octet may be refused with any documented error",
    "values of length 3..255 are covered by 5 shaped contents per length (thorough: every 3-octet value through CfdpTlv type 5 and CfdpLv), not exhaustively",
]

SUFFIX = b"\xa5\x01\x00"
_L = None


class Lib:
    def __init__(self):
        import spacepackets.cfdp.tlv as tlv
        from spacepackets.cfdp.exceptions import TlvTypeMissmatch
        from spacepackets.cfdp.lv import CfdpLv

        self.tlv = tlv
        self.CfdpTlv = tlv.CfdpTlv
        self.CfdpLv = CfdpLv
        self.TlvType = tlv.TlvType
        self.TlvHolder = tlv.TlvHolder
        self.Missmatch = TlvTypeMissmatch
        self.documented = (ValueError, TlvTypeMissmatch)
        self.FilestoreResponseStatusCode = tlv.FilestoreResponseStatusCode
        self.FilestoreActionCode = tlv.FilestoreActionCode
        self.FileStoreResponseTlv = tlv.FileStoreResponseTlv


def lib() -> Lib:
    global _L
    if _L is None:
        _L = Lib()
    return _L


# =============================================================================== alphabets
def generic_values(lo: int, hi: int, with_shaped: bool):
    """every octet string of length <= 2 whose first octet is in [lo, hi) (the empty string with lo == 0),
    then shaped contents of every length 3..255 (only when with_shaped)"""
    if lo == 0:
        yield b""
    for a in range(lo, hi):
        yield bytes([a])
        for b in range(256):
            yield bytes([a, b])
    if with_shaped:
        for length in range(3, 256):
            for v in D.shaped(length):
                yield v


def names(tier):
    # names are octet strings to the protocol: spellings that a path normaliser would rewrite must come back unchanged
    base = list(D.NAMES) + ["x" * 120, "ü" * 60, "data/", "./a.txt", "/tmp//x", "a/./b", "a/../b", "..", "."]
    if tier != "quick":
        base += ["\x00", "a b", "n" * 63, "n" * 64, "n" * 125, "n" * 126, "ü" * 63, "名" * 41, "é/" * 62, "x" * 200]
    return D.dedupe(base)


def name_pairs(tier):
    ns = names(tier)
    pairs = [(a, b) for a in ns for b in ns]
    # boundaries of the 255-octet value: a request with one name holds 253 octets, with two names 252 in total,
    # a response one octet less; 254.. must be refused by the TLV, 256 by the LV
    for n in (247, 248, 249, 250, 251, 252, 253, 254, 255, 256):
        pairs += [("x" * n, ""), ("", "y" * n)]
    for n in (125, 126, 127):
        pairs += [("x" * n, "ü" * 63), ("名" * 42, "y" * n)]
    if tier != "quick":  # every name length, ASCII and two-octet characters
        for n in range(0, 258):
            pairs += [("x" * n, "b"), ("a", "y" * n)]
        for n in range(0, 130):
            pairs += [("ä" * n, ""), ("", "ö" * n)]
    return D.dedupe(pairs)


def fs_messages(tier):
    lens = (0, 1, 200) if tier == "quick" else (0, 1, 2, 3, 64, 200, 249, 250, 251, 252, 253)
    out = []
    for n in lens:
        out.append(bytes((7 * i + 1) & 0xFF for i in range(n)))
    if tier != "quick":
        out += [b"\x00", b"\xff" * 3, bytes(64)]
        out += [bytes([n & 0xFF]) * n for n in range(4, 257, 9)]
    return D.dedupe(out)


def matrix_values(tier, foreign_type):
    """sample values for TLVs of a foreign type: small exhaustive part, shaped longer ones, and the structured
    values of the class that owns the type (unit corpus)"""
    vals = [b"\x00"] + list(D.all_bytes(1 if tier == "quick" else 2))  # a one-octet value first: the most telling witness
    for length in ((2, 3, 4, 8, 9, 255) if tier == "quick" else (3, 4, 8, 9, 64, 254, 255)):
        vals += D.shaped(length)
    owner = next(n for n, (t, _) in CONCRETE.items() if t == foreign_type)
    for recipe in UNITS[owner].corpus("thorough"):
        vals.append(UNITS[owner].ref(recipe)[2:])
    return D.dedupe(vals)


# ================================================================================== shards
def shards(tier):
    items = []
    parts = 2 if tier == "quick" else 4
    for t in R.DEFINED_TYPES:
        for p in range(parts):
            items.append({"kind": "tlv", "t": t, "lo": 256 * p // parts, "hi": 256 * (p + 1) // parts, "shaped": p == 0})
    for p in range(parts):
        items.append({"kind": "lv", "lo": 256 * p // parts, "hi": 256 * (p + 1) // parts, "shaped": p == 0})
    for cls in ("FlowLabelTlv", "MessageToUserTlv"):
        for p in range(parts):
            items.append({"kind": "octets", "unit": cls, "lo": 256 * p // parts, "hi": 256 * (p + 1) // parts, "shaped": p == 0})
    items.append({"kind": "entity"})
    items.append({"kind": "fault"})
    items.append({"kind": "undefined", "tier": tier})
    items.append({"kind": "refuse", "tier": tier})
    for a in R.ACTION_CODES:
        items.append({"kind": "fsreq", "a": a, "tier": tier})
    for a in R.ACTION_CODES:
        for s in enum_status_codes(a):
            items.append({"kind": "fsresp", "a": a, "s": s, "tier": tier})
    for cls in CONCRETE:
        for t in R.DEFINED_TYPES:
            if t != CONCRETE[cls][0]:
                items.append({"kind": "matrix", "cls": cls, "t": t, "tier": tier})
    items.append({"kind": "corpus", "tier": tier})
    for t in R.DEFINED_TYPES:
        items.append({"kind": "tlvhist", "t": t, "depth": 3 if tier == "quick" else 4})
    items.append({"kind": "status-table"})
    if tier != "quick":  # every 3-octet value through the generic TLV (one type: the value is opaque to it) and the LV
        for a in range(0, 256, 8):
            items.append({"kind": "tlv3", "lo": a, "hi": a + 8})
            items.append({"kind": "lv3", "lo": a, "hi": a + 8})
    return items


# ================================================================================= oracles
def _exc(e):
    return type(e).__name__ + ": " + str(e)[:120]


def _keeper(rec):
    """independence oracle (mc/alias.py): TLV / LV objects and pack() results handed out for earlier cases
    are re-observed after the following cases (shared templates, flyweights, shared output buffers)"""
    k = getattr(rec, "_keeper", None)
    if k is None:
        from mc.alias import Keeper
        k = rec._keeper = Keeper(rec, "C08", depth=6, live=True)
    return k


def _obs_tlv(o):
    return (int(o.tlv_type), bytes(o.value), int(o.packet_len))


def _obs_lv(o):
    return (bytes(o.value), int(o.packet_len))


def check_generic_tlv(rec: Rec, t: int, v: bytes, nontrivial=True):
    L = lib()
    case = {"kind": "tlv", "t": t, "v": hx(v)}
    ref = R.tlv(t, v)
    rec.case(nontrivial, ops=8)
    keep = _keeper(rec)

    def bad(kind, observed, expected):
        rec.violation("C08." + kind, case, observed, expected, repro=f"CfdpTlv(TlvType({t}), bytes.fromhex('{v.hex()}'))  # see checks/c08.py check_generic_tlv")

    try:
        obj = L.CfdpTlv(L.TlvType(t), v)
        packed = obj.pack()
        got = bytes(packed)
    except Exception as e:
        keep.recheck(case)
        return bad("encode/CfdpTlv.pack/exception", _exc(e), ref)
    keep.recheck(case)
    keep.hold("CfdpTlv.__init__", obj, _obs_tlv, case)
    keep.hold("CfdpTlv.pack", packed, bytes, case)
    if got != ref:
        return bad("encode/CfdpTlv.pack/octets", got, ref)
    if obj.packet_len != len(v) + 2:
        bad("length/CfdpTlv.packet_len", obj.packet_len, len(v) + 2)
    for label, data in (("exact", ref), ("with-suffix", ref + SUFFIX)):
        try:
            rb = receive_buffer(data) if label != "exact" else data  # the second form: a receive buffer the caller re-uses
            u = L.CfdpTlv.unpack(rb)
            if label != "exact":
                reuse_buffer(rb)
        except Exception as e:
            bad("decode/CfdpTlv.unpack/exception", [label, _exc(e)], [t, v])
            continue
        obs = (int(u.tlv_type), bytes(u.value))
        if obs != (t, v):
            bad("decode/CfdpTlv.unpack/fields", [label, obs], [t, v])
        if u.packet_len != len(v) + 2:
            bad("decode/CfdpTlv.unpack/consumed-length", [label, u.packet_len], len(v) + 2)
        if bytes(u.pack()) != ref:
            bad("inverse/CfdpTlv.unpack-then-pack", [label, bytes(u.pack())], ref)
        keep.hold("CfdpTlv.unpack", u, _obs_tlv, case)
    rec.outcome(f"tlv/t={t}/len={len(v)}/ok")


def check_generic_lv(rec: Rec, v: bytes, nontrivial=True):
    L = lib()
    case = {"kind": "lv", "v": hx(v)}
    ref = R.lv(v)
    rec.case(nontrivial, ops=8)
    keep = _keeper(rec)

    def bad(kind, observed, expected):
        rec.violation("C08." + kind, case, observed, expected, repro=f"CfdpLv(bytes.fromhex('{v.hex()}'))  # see checks/c08.py check_generic_lv")

    try:
        obj = L.CfdpLv(v)
        packed = obj.pack()
        got = bytes(packed)
    except Exception as e:
        keep.recheck(case)
        return bad("encode/CfdpLv.pack/exception", _exc(e), ref)
    keep.recheck(case)
    keep.hold("CfdpLv.__init__", obj, _obs_lv, case)
    keep.hold("CfdpLv.pack", packed, bytes, case)
    if got != ref:
        return bad("encode/CfdpLv.pack/octets", got, ref)
    if obj.packet_len != len(v) + 1:
        bad("length/CfdpLv.packet_len", obj.packet_len, len(v) + 1)
    for label, data in (("exact", ref), ("with-suffix", ref + SUFFIX)):
        try:
            rb = receive_buffer(data) if label != "exact" else data
            u = L.CfdpLv.unpack(rb)
            if label != "exact":
                reuse_buffer(rb)
        except Exception as e:
            bad("decode/CfdpLv.unpack/exception", [label, _exc(e)], v)
            continue
        if bytes(u.value) != v:
            bad("decode/CfdpLv.unpack/fields", [label, bytes(u.value)], v)
        if u.packet_len != len(v) + 1:
            bad("decode/CfdpLv.unpack/consumed-length", [label, u.packet_len], len(v) + 1)
        if bytes(u.pack()) != ref:
            bad("inverse/CfdpLv.unpack-then-pack", [label, bytes(u.pack())], ref)
        keep.hold("CfdpLv.unpack", u, _obs_lv, case)
    rec.outcome(f"lv/len={len(v)}/ok")


def value_len(uname, recipe):
    """length of the TLV value the recipe asks for, and whether an inner LV alone is too long"""
    if uname in ("FileStoreRequestTlv", "FileStoreResponseTlv"):
        n1, n2 = recipe["n1"].encode("utf-8"), recipe["n2"].encode("utf-8")
        two = recipe["a"] in R.TWO_NAME_ACTIONS
        n = 1 + 1 + len(n1) + ((1 + len(n2)) if two else 0)
        inner = len(n1) > 255 or (two and len(n2) > 255)
        if uname == "FileStoreResponseTlv":
            n += 1 + len(bt(recipe["msg"]))
            inner = inner or len(bt(recipe["msg"])) > 255
        return n, inner
    if uname == "FaultHandlerOverrideTlv":
        return 1, False
    if uname == "EntityIdTlv":
        return len(bt(recipe["id"])), False
    return len(bt(recipe["v"])), False


def check_concrete(rec: Rec, uname: str, recipe: dict, nontrivial=True):
    """the whole script of one concrete TLV: build, pack, lengths, value, both decoders, both holder paths"""
    L = lib()
    u = UNITS[uname]
    case = {"kind": "concrete", "unit": uname, "recipe": recipe}
    rec.case(nontrivial, ops=16)
    vlen, inner_too_long = value_len(uname, recipe)

    def bad(kind, observed, expected):
        rec.violation("C08." + kind, case, observed, expected, repro=f"x = {u.repro(recipe)}; x.pack(), x.packet_len  # from spacepackets.cfdp import *; see checks/c08.py check_concrete")

    if vlen > 255 or inner_too_long:  # "values longer than 255 octets are refused"
        try:
            raw = bytes(u.build(recipe).pack())
        except ValueError:
            rec.outcome(f"{uname}/oversize/refused")
            return
        except Exception as e:
            return bad(f"refuse/{uname}/oversize-wrong-exception/{type(e).__name__}", _exc(e), "ValueError")
        return bad(f"refuse/{uname}/oversize-accepted", [vlen, raw[:8]], "ValueError")

    ref = u.ref(recipe)
    exp = u.expected(recipe)
    keep = _keeper(rec)

    def obs_conc(o):
        return (u.observe(o), int(o.packet_len))

    try:
        obj = u.build(recipe)
        packed = obj.pack()
        got = bytes(packed)
    except Exception as e:
        keep.recheck(case)
        return bad(f"encode/{uname}.pack/exception", _exc(e), ref)
    keep.recheck(case)
    keep.hold(f"{uname}.__init__", obj, obs_conc, case)
    keep.hold(f"{uname}.pack", packed, bytes, case)
    if got != ref:
        return bad(f"encode/{uname}.pack/octets", got, ref)
    _check_len(rec, case, uname, recipe, obj, len(ref), bad)
    try:
        if bytes(obj.value) != ref[2:] or int(obj.tlv_type) != ref[0]:
            bad(f"encode/{uname}.value", [int(obj.tlv_type), bytes(obj.value)], [ref[0], ref[2:]])
        if u.observe(obj) != exp:
            bad(f"encode/{uname}/constructed-parameters", u.observe(obj), exp)
    except Exception as e:
        bad(f"encode/{uname}.value/exception", _exc(e), None)
    meth = CONCRETE[uname][1]
    gen = None
    try:
        gen = L.CfdpTlv.unpack(ref)
    except Exception:
        pass  # reported by check_generic_tlv
    paths = list(u.decoders())
    if gen is not None:
        paths.append((f"TlvHolder.{meth}/generic", lambda b, recipe=None: getattr(L.TlvHolder(gen), meth)()))
    paths.append((f"TlvHolder.{meth}/concrete", lambda b, recipe=None: getattr(L.TlvHolder(obj), meth)()))
    for dname, fn in paths:
        try:
            rb = receive_buffer(ref)
            d = fn(rb, recipe)
            reuse_buffer(rb)
        except Exception as e:
            bad(f"decode/{dname}/exception", _exc(e), exp)
            continue
        try:
            obs = u.observe(d)
            if obs != exp:
                bad(f"decode/{dname}/fields", obs, exp)
            _check_len(rec, case, uname, recipe, d, len(ref), bad)
            if bytes(d.pack()) != ref:
                bad(f"inverse/{dname}-then-pack", bytes(d.pack()), ref)
            if d is not obj:
                keep.hold(dname, d, obs_conc, case)
        except Exception as e:
            bad(f"decode/{dname}/exception-on-result", _exc(e), exp)
    # "decoding ... consumes exactly length+2 octets": the concrete decoder fed a buffer that goes on after the TLV (the next TLV of
    # a PDU, a CRC) returns what it returns for the TLV alone and reports the TLV's own length
    for dname, fn in u.decoders():
        if not dname.endswith(".unpack"):
            continue
        try:
            rb = receive_buffer(ref + SUFFIX)
            d = fn(rb, recipe)
            reuse_buffer(rb)
            obs = u.observe(d)
            if obs != exp:
                bad(f"decode/{dname}/fields/with-suffix", obs, exp)
            elif int(d.packet_len) != len(ref):
                bad(f"decode/{dname}/consumed-length/with-suffix", int(d.packet_len), len(ref))
            elif bytes(d.pack()) != ref:
                bad(f"inverse/{dname}-then-pack/with-suffix", bytes(d.pack()), ref)
            keep.hold(dname + "(with-suffix)", d, obs_conc, case)
        except Exception as e:
            bad(f"decode/{dname}/exception/with-suffix", _exc(e), exp)
    rec.outcome(f"{uname}/len={len(ref)}/ok")
    return ref


def _check_len(rec, case, uname, recipe, obj, expected_len, bad):
    n = obj.packet_len
    if n == expected_len:
        return
    if uname in ("FileStoreRequestTlv", "FileStoreResponseTlv"):
        common = R.filestore_common_len(recipe["a"], recipe["n1"].encode("utf-8"), recipe["n2"].encode("utf-8"))
        if obj.common_packet_len() != common:  # both classes inherit it: one defect site
            return bad("length/FileStoreRequestBase.common_packet_len", [obj.common_packet_len(), n], [common, expected_len])
    bad(f"length/{uname}.packet_len", n, expected_len)


PATHS = ("unpack", "from_tlv", "holder-generic")


def check_foreign(rec: Rec, cls_name: str, t: int, v: bytes, path: str, nontrivial=True):
    """C.<path> fed a valid TLV of another defined type must fail with the type-mismatch error"""
    L = lib()
    cls = getattr(L.tlv, cls_name)
    meth = CONCRETE[cls_name][1]
    case = {"kind": "foreign", "cls": cls_name, "t": t, "v": hx(v), "path": path}
    rec.case(nontrivial, ops=1)
    accept = (L.Missmatch,) if path in ("unpack", "from_tlv") else (L.Missmatch, TypeError)
    subject = f"{cls_name}.{path}" if path in ("unpack", "from_tlv") else f"TlvHolder.{meth}/generic"
    repro = {
        "unpack": f"{cls_name}.unpack(bytes.fromhex('{R.tlv(t, v).hex()}'))",
        "from_tlv": f"{cls_name}.from_tlv(CfdpTlv(TlvType({t}), bytes.fromhex('{v.hex()}')))",
        "holder-generic": f"TlvHolder(CfdpTlv(TlvType({t}), bytes.fromhex('{v.hex()}'))).{meth}()",
    }[path] + "  # from spacepackets.cfdp import *; must raise TlvTypeMissmatch"
    try:
        if path == "unpack":
            r = cls.unpack(R.tlv(t, v))
        elif path == "from_tlv":
            r = cls.from_tlv(L.CfdpTlv(L.TlvType(t), v))
        else:
            r = getattr(L.TlvHolder(L.CfdpTlv(L.TlvType(t), v)), meth)()
    except accept as e:
        rec.outcome(f"foreign/{subject}/T={t}/{type(e).__name__}")
        return
    except Exception as e:
        rec.violation(f"C08.typesafety/{subject}/no-type-mismatch-error", case, "raised " + _exc(e), "TlvTypeMissmatch",
                      repro=repro)
        return
    rec.violation(f"C08.typesafety/{subject}/no-type-mismatch-error", case, "returned " + repr(r)[:160], "TlvTypeMissmatch",
                  repro=repro)


def check_foreign_concrete(rec: Rec, cls_name: str, owner: str, recipe: dict, nontrivial=True):
    """TlvHolder holding a concrete object of another kind: to_<C>() must fail (TypeError / TlvTypeMissmatch)"""
    L = lib()
    meth = CONCRETE[cls_name][1]
    case = {"kind": "foreign-concrete", "cls": cls_name, "unit": owner, "recipe": recipe}
    rec.case(nontrivial, ops=1)
    obj = UNITS[owner].build(recipe)
    try:
        r = getattr(L.TlvHolder(obj), meth)()
    except (TypeError, L.Missmatch) as e:
        rec.outcome(f"foreign/TlvHolder.{meth}/concrete/{owner}/{type(e).__name__}")
        return
    except Exception as e:
        rec.violation(f"C08.typesafety/TlvHolder.{meth}/concrete/no-type-mismatch-error", case, "raised " + _exc(e), "TypeError or TlvTypeMissmatch")
        return
    rec.violation(f"C08.typesafety/TlvHolder.{meth}/concrete/no-type-mismatch-error", case, "returned " + repr(r)[:160], "TypeError or TlvTypeMissmatch")


def check_undefined(rec: Rec, cls_name: str, t: int, v: bytes, nontrivial=True):
    """an undefined type octet: refused with a documented error, or (generic class only) reproduced faithfully;
    a concrete class never yields an object"""
    L = lib()
    case = {"kind": "undefined", "cls": cls_name, "t": t, "v": hx(v)}
    rec.case(nontrivial, ops=1)
    cls = L.CfdpTlv if cls_name == "CfdpTlv" else getattr(L.tlv, cls_name)
    raw = R.tlv(t, v)
    try:
        r = cls.unpack(raw)
    except L.documented as e:
        rec.outcome(f"undefined/{cls_name}/{type(e).__name__}")
        return
    except Exception as e:
        rec.violation(f"C08.undefined-type/{cls_name}.unpack/wrong-exception/{type(e).__name__}", case, _exc(e), "ValueError / TlvTypeMissmatch")
        return
    if cls_name == "CfdpTlv" and int(r.tlv_type) == t and bytes(r.value) == v:
        rec.outcome("undefined/CfdpTlv/faithful-object")
        return
    rec.violation(f"C08.undefined-type/{cls_name}.unpack/object-of-wrong-kind", case, repr(r)[:160], "refusal")


REFUSE_CTORS = ("CfdpLv", "CfdpLv.from_str", "FlowLabelTlv", "MessageToUserTlv") + tuple(f"CfdpTlv/{t}" for t in R.DEFINED_TYPES)


def check_refuse(rec: Rec, ctor: str, n: int, fill: int, nontrivial=True):
    L = lib()
    case = {"kind": "refuse", "ctor": ctor, "n": n, "fill": fill}
    rec.case(nontrivial, ops=1)
    v = bytes([fill]) * n
    try:
        if ctor == "CfdpLv":
            r = L.CfdpLv(v).pack()
        elif ctor == "CfdpLv.from_str":
            r = L.CfdpLv.from_str(chr(0x20 + (fill & 0x3F)) * n).pack()
        elif ctor.startswith("CfdpTlv/"):
            r = L.CfdpTlv(L.TlvType(int(ctor[8:])), v).pack()
        else:
            r = getattr(L.tlv, ctor)(v).pack()
    except ValueError:
        rec.outcome(f"refuse/{ctor}/ValueError")
        return
    except Exception as e:
        rec.violation(f"C08.refuse/{ctor}/wrong-exception/{type(e).__name__}", case, _exc(e), "ValueError")
        return
    rec.violation(f"C08.refuse/{ctor}/accepted", case, [len(r), bytes(r[:4])], "ValueError")


# =================================================================================== shards
# -- filestore response status codes against table 5-18 ------------------------------------------------------------------
# enum member name of the library -> (action, meaning in the words of table 5-18); members not listed here (the three generic
# members SUCCESS / NOT_PERFORMED / APPEND_FROM_DATA_FILE_NOT_EXISTS, INVALID, and any member a tree may add) are not judged
STATUS_MEMBER_MEANING = {
    "CREATE_SUCCESS": (0, "successful"), "CREATE_NOT_ALLOWED": (0, "create not allowed"), "CREATE_NOT_PERFORMED": (0, "not performed"),
    "DELETE_SUCCESS": (1, "successful"), "DELETE_FILE_DOES_NOT_EXIST": (1, "file does not exist"), "DELETE_NOT_ALLOWED": (1, "delete not allowed"),
    "DELETE_NOT_PERFORMED": (1, "not performed"),
    "RENAME_SUCCESS": (2, "successful"), "RENAME_OLD_FILE_DOES_NOT_EXIST": (2, "old file name does not exist"),
    "RENAME_NEW_FILE_DOES_EXIST": (2, "new file name already exists"), "RENAME_NOT_ALLOWED": (2, "rename not allowed"), "RENAME_NOT_PERFORMED": (2, "not performed"),
    "APPEND_SUCCESS": (3, "successful"), "APPEND_FILE_NAME_ONE_NOT_EXISTS": (3, "file name 1 does not exist"),
    "APPEND_FILE_NAME_TWO_NOT_EXISTS": (3, "file name 2 does not exist"), "APPEND_NOT_ALLOWED": (3, "append not allowed"), "APPEND_NOT_PERFORMED": (3, "not performed"),
    "REPLACE_SUCCESS": (4, "successful"), "REPLACE_FILE_NAME_ONE_TO_BE_REPLACED_DOES_NOT_EXIST": (4, "file name 1 does not exist"),
    "REPLACE_FILE_NAME_TWO_REPLACE_SOURCE_NOT_EXIST": (4, "file name 2 does not exist"), "REPLACE_NOT_ALLOWED": (4, "replace not allowed"),
    "REPLACE_NOT_PERFORMED": (4, "not performed"),
    "CREATE_DIR_SUCCESS": (5, "successful"), "CREATE_DIR_CAN_NOT_BE_CREATED": (5, "directory cannot be created"), "CREATE_DIR_NOT_PERFORMED": (5, "not performed"),
    "REMOVE_DIR_SUCCESS": (6, "successful"), "REMOVE_DIR_DOES_NOT_EXIST": (6, "directory does not exist"), "REMOVE_DIR_NOT_ALLOWED": (6, "delete not allowed"),
    "REMOVE_DIR_NOT_PERFORMED": (6, "not performed"),
    "DENY_FILE_DEL_SUCCESS": (7, "successful"), "DENY_FILE_DEL_NOT_ALLOWED": (7, "delete not allowed"), "DENY_FILE_DEL_NOT_PERFORMED": (7, "not performed"),
    "DENY_DIR_DEL_SUCCESS": (8, "successful"), "DENY_DIR_DEL_NOT_ALLOWED": (8, "delete not allowed"), "DENY_DIR_DEL_NOT_PERFORMED": (8, "not performed"),
}


def check_status_member(rec: Rec, name: str):
    """a status the library offers under a name of table 5-18 encodes to the nibble the table gives for that meaning"""
    L = lib()
    action, meaning = STATUS_MEMBER_MEANING[name]
    case = {"kind": "status-member", "name": name}
    rec.case(True, ops=2)
    enum_cls = L.FilestoreResponseStatusCode
    if not hasattr(enum_cls, name):
        rec.outcome("status-member/absent")
        return
    want = R.STD_STATUS_BY_MEANING[(action, meaning)]
    got = int(getattr(enum_cls, name))
    if got != (action << 4 | want):
        rec.violation("C08.status/FilestoreResponseStatusCode/member-does-not-encode-the-status-of-table-5-18", case,
                      {"member": name, "value": got, "action": got >> 4, "status_nibble": got & 0xF}, {"action": action, "status_nibble": want, "meaning": meaning},
                      repro=f"from spacepackets.cfdp.tlv import FilestoreResponseStatusCode as S; assert S.{name} == {action << 4 | want:#04x}")
        return
    ref = R.filestore_response_tlv(action, want, b"a", b"b" if action in R.TWO_NAME_ACTIONS else b"", b"")
    try:
        t = UNITS["FileStoreResponseTlv"].build({"a": action, "s": got & 0xF, "n1": "a", "n2": "b" if action in R.TWO_NAME_ACTIONS else "", "msg": hx(b"")})
        raw = bytes(t.pack())
    except Exception as e:
        rec.violation("C08.status/FileStoreResponseTlv.pack/exception", case, _exc(e), ref)
        return
    if raw != ref:
        rec.violation("C08.status/FileStoreResponseTlv.pack/octets", case, raw, ref)
    rec.outcome("status-member/ok")


def check_status_decode(rec: Rec, action: int, nibble: int):
    """every (action, status) pair of table 5-18, as octets of a conforming peer, is decoded (not refused) and re-packs identically"""
    L = lib()
    case = {"kind": "status-decode", "action": action, "status": nibble}
    rec.case(True, ops=3)
    two = action in R.TWO_NAME_ACTIONS
    ref = R.filestore_response_tlv(action, nibble, b"a.txt", b"b.txt" if two else b"", b"m")
    for dname, fn in (("FileStoreResponseTlv.unpack", lambda b: L.FileStoreResponseTlv.unpack(b)),
                      ("FileStoreResponseTlv.from_tlv", lambda b: L.FileStoreResponseTlv.from_tlv(L.CfdpTlv.unpack(b)))):
        try:
            d = fn(ref)
        except Exception as e:
            rec.violation(f"C08.status/{dname}/conforming-status-of-table-5-18-refused", case, _exc(e), "decoded",
                          repro=f"from spacepackets.cfdp.tlv import FileStoreResponseTlv; FileStoreResponseTlv.unpack(bytes.fromhex('{ref.hex()}'))")
            continue
        try:
            obs = (int(d.action_code), int(d.status_code) & 0xF, d.first_file_name, d.second_file_name if two else None, bytes(d.pack()))
        except Exception as e:
            rec.violation(f"C08.status/{dname}/exception-on-result", case, _exc(e), None)
            continue
        exp = (action, nibble, "a.txt", "b.txt" if two else None, ref)
        if obs != exp:
            rec.violation(f"C08.status/{dname}/fields-or-repack", case, obs, exp)
    rec.outcome("status-decode/ok")


# -- generic TLV histories: the type of a CfdpTlv is assignable (documented setter); observers may fill caches ----------
TLVHIST_VALUES = [b"", b"\x07", bytes(range(1, 18))]


def tlvhist_events():
    return ["pack", "packet_len", "value", "repr"] + [f"type={t}" for t in R.DEFINED_TYPES]


def check_tlv_history(rec: Rec, t0: int, v: bytes, start: str, seq):
    """every observation of a CfdpTlv after any sequence of type assignments and reads equals the reference TLV of
    the type assigned last (read-then-set-then-read finds stale caches); start: constructed | decoded"""
    L = lib()
    case = {"kind": "tlvhist", "t": t0, "v": hx(v), "start": start, "seq": list(seq)}
    rec.case(True, ops=len(seq) + 3)
    try:
        obj = L.CfdpTlv(L.TlvType(t0), v) if start == "constructed" else L.CfdpTlv.unpack(R.tlv(t0, v))
    except Exception:
        return  # judged by check_generic_tlv
    cur = t0
    last = "start"

    def observe(what):
        ref = R.tlv(cur, v)
        try:
            got = {"pack": lambda: bytes(obj.pack()), "packet_len": lambda: int(obj.packet_len), "value": lambda: bytes(obj.value),
                   "type": lambda: int(obj.tlv_type), "repr": lambda: (repr(obj), str(obj)) and None}[what]()
        except Exception as e:
            rec.violation(f"C08.history/CfdpTlv.{what}/exception/after-{last}", case, _exc(e), None)
            return False
        exp = {"pack": ref, "packet_len": len(ref), "value": v, "type": cur, "repr": None}[what]
        if got != exp:
            rec.violation(f"C08.history/CfdpTlv.{what}/out-of-step/after-{last}", case, got, exp,
                          repro=f"t = CfdpTlv(TlvType({t0}), bytes.fromhex('{v.hex()}')); events {list(seq)}  # see checks/c08.py check_tlv_history")
            return False
        return True

    for ev in seq:
        if ev.startswith("type="):
            cur = int(ev[5:])
            try:
                obj.tlv_type = L.TlvType(cur)
            except Exception as e:
                rec.violation("C08.history/CfdpTlv.tlv_type=/exception", case, _exc(e), "accepted: a defined type")
                return
            last = "type-assignment"
        elif not observe(ev):
            return
    for what in ("type", "value", "packet_len", "pack", "pack"):
        if not observe(what):
            return
    rec.outcome(f"tlvhist/{start}/ok")


def run_tlvhist(rec: Rec, item):
    evs = tlvhist_events()
    n = 0
    for start in ("constructed", "decoded"):
        for v in TLVHIST_VALUES:
            for d in range(1, item["depth"] + 1):
                for seq in itertools.product(evs, repeat=d):
                    if not any(e.startswith("type=") for e in seq):
                        continue  # without an assignment the history is check_generic_tlv's case
                    check_tlv_history(rec, item["t"], v, start, seq)
                    n += 1
    rec.count("tlv_type_setter_histories", n)


def run_shard(item):
    rec = Rec(PROPERTY, item)
    kind = item["kind"]
    if kind == "tlvhist":
        run_tlvhist(rec, item)
        return rec.result()
    if kind == "status-table":
        for name in STATUS_MEMBER_MEANING:
            check_status_member(rec, name)
        for action, nibbles in R.STD_STATUS_CODES.items():
            for nb in nibbles:
                check_status_decode(rec, action, nb)
        rec.count("status_members_against_table_5_18", len(STATUS_MEMBER_MEANING))
        rec.count("status_pairs_of_table_5_18_decoded", sum(len(v) for v in R.STD_STATUS_CODES.values()))
        return rec.result()
    if kind in ("tlv3", "lv3"):
        n = 0
        for a in range(item["lo"], item["hi"]):
            for b in range(256):
                for c in range(256):
                    v = bytes([a, b, c])
                    if kind == "tlv3":
                        check_generic_tlv(rec, 5, v)
                    else:
                        check_generic_lv(rec, v)
                    n += 1
        rec.count("three_octet_values_" + kind[:-1], n)
        return rec.result()
    if kind == "tlv":
        n = 0
        for v in generic_values(item["lo"], item["hi"], item["shaped"]):
            check_generic_tlv(rec, item["t"], v)
            n += 1
        rec.count("generic_tlv_values", n)
        if item["lo"] == 0:
            v = bytes(range(1, 6))
            rec.sample({"CfdpTlv": {"type": item["t"], "value": v}, "expected_octets": R.tlv(item["t"], v)})
    elif kind == "lv":
        n = 0
        for v in generic_values(item["lo"], item["hi"], item["shaped"]):
            check_generic_lv(rec, v)
            n += 1
        rec.count("generic_lv_values", n)
        if item["lo"] == 0:
            rec.sample({"CfdpLv": {"value": b"\x00\x01\x02"}, "expected_octets": R.lv(b"\x00\x01\x02")})
    elif kind == "octets":
        n = 0
        for v in generic_values(item["lo"], item["hi"], item["shaped"]):
            check_concrete(rec, item["unit"], {"v": hx(v)})
            n += 1
        rec.count(item["unit"] + "_values", n)
    elif kind == "entity":
        n = 0
        for w in (1, 2, 4, 8):
            for x in D.walk(8 * w):
                recipe = {"id": hx(x.to_bytes(w, "big"))}
                ref = check_concrete(rec, "EntityIdTlv", recipe)
                n += 1
                if x == D.alt(8 * w, False) and w == 4:
                    rec.sample({"EntityIdTlv": recipe, "expected_octets": ref})
        # the TLV carries whatever ID length the peers agreed on (0..255 octets to the TLV; entity IDs of 3, 5, 6, 7 octets are as
        # legal on the wire as the four widths the byte-field classes offer): packed as given, decoded as received
        for w in (0, 3, 5, 6, 7, 9, 16):
            for x in ([0] if w == 0 else D.dedupe([0, 1, (1 << (8 * w)) - 1, D.alt(8 * w, False), int.from_bytes(bytes(range(0x11, 0x11 + w)), "big")])):
                check_concrete(rec, "EntityIdTlv", {"id": hx(x.to_bytes(w, "big"))})
                n += 1
        rec.count("entity_ids", n)
    elif kind == "fault":
        for cc in CONDITION_CODES:
            for hc in HANDLER_CODES:
                ref = check_concrete(rec, "FaultHandlerOverrideTlv", {"cc": cc, "hc": hc})
                if (cc, hc) == (10, 3):
                    rec.sample({"FaultHandlerOverrideTlv": {"cc": cc, "hc": hc}, "expected_octets": ref})
        rec.count("fault_handler_pairs", len(CONDITION_CODES) * len(HANDLER_CODES))
    elif kind == "undefined":
        vals = [b"", b"\x00", b"\x01\x02", bytes(255)] + ([b"\xff" * 3, bytes(range(9))] if item["tier"] != "quick" else [])
        n = 0
        for t in range(256):
            if t in R.DEFINED_TYPES:
                continue
            for v in vals:
                for cls_name in ("CfdpTlv",) + tuple(CONCRETE):
                    check_undefined(rec, cls_name, t, v)
                    n += 1
        rec.count("undefined_type_decodes", n)
    elif kind == "refuse":
        lens = (256, 257, 1000) if item["tier"] == "quick" else (256, 257, 258, 511, 512, 1000, 65535, 65536, 70000)
        for ctor in REFUSE_CTORS:
            for n in lens:
                for fill in (0x00, 0xFF, 0x41):
                    check_refuse(rec, ctor, n, fill)
        rec.count("oversize_refusals", len(REFUSE_CTORS) * len(lens) * 3)
    elif kind == "fsreq":
        a = item["a"]
        pairs = name_pairs(item["tier"])
        for n1, n2 in pairs:
            recipe = {"a": a, "n1": n1, "n2": n2}
            ref = check_concrete(rec, "FileStoreRequestTlv", recipe)
            if (n1, n2) == ("ä", "名/x"):
                rec.sample({"FileStoreRequestTlv": recipe, "expected_octets": ref})
        rec.count("filestore_request_tuples", len(pairs))
    elif kind == "fsresp":
        a, s = item["a"], item["s"]
        pairs = name_pairs(item["tier"])
        msgs = fs_messages(item["tier"])
        for n1, n2 in pairs:
            for m in msgs:
                recipe = {"a": a, "s": s, "n1": n1, "n2": n2, "msg": hx(m)}
                ref = check_concrete(rec, "FileStoreResponseTlv", recipe)
                if (n1, n2, len(m), s) == ("名/x", "ä", 1, 15):
                    rec.sample({"FileStoreResponseTlv": recipe, "expected_octets": ref})
        rec.count("filestore_response_tuples", len(pairs) * len(msgs))
        rec.count("action_status_pairs", 1)
    elif kind == "matrix":
        cls_name, t = item["cls"], item["t"]
        vals = matrix_values(item["tier"], t)
        for v in vals:
            for path in PATHS:
                check_foreign(rec, cls_name, t, v, path)
        owner = next(n for n, (tt, _) in CONCRETE.items() if tt == t)
        corpus = UNITS[owner].corpus("thorough")
        for recipe in corpus:
            check_foreign_concrete(rec, cls_name, owner, recipe)
        rec.count("type_safety_calls", len(vals) * len(PATHS) + len(corpus))
        rec.count("class_x_foreign_type_pairs", 1)
    elif kind == "corpus":
        # the shared corpora handed to C09/C10 are themselves proven to be encoded correctly
        n = 0
        for uname in CONCRETE:
            for recipe in UNITS[uname].corpus(item["tier"]):
                check_concrete(rec, uname, recipe, nontrivial=False)
                n += 1
        for recipe in UNITS["CfdpTlv"].corpus(item["tier"]):
            check_generic_tlv(rec, recipe["t"], bt(recipe["v"]), nontrivial=False)
            n += 1
        for recipe in UNITS["CfdpLv"].corpus(item["tier"]):
            check_generic_lv(rec, bt(recipe["v"]), nontrivial=False)
            n += 1
        rec.count("unit_corpus_recipes", n)
    return rec.result()


def replay(case):
    case = dict(case)
    rec = Rec(PROPERTY, "replay")
    k = case["kind"]
    if k == "tlv":
        check_generic_tlv(rec, case["t"], bt(case["v"]))
    elif k == "lv":
        check_generic_lv(rec, bt(case["v"]))
    elif k == "concrete":
        check_concrete(rec, case["unit"], case["recipe"])
    elif k == "foreign":
        check_foreign(rec, case["cls"], case["t"], bt(case["v"]), case["path"])
    elif k == "foreign-concrete":
        check_foreign_concrete(rec, case["cls"], case["unit"], case["recipe"])
    elif k == "undefined":
        check_undefined(rec, case["cls"], case["t"], bt(case["v"]))
    elif k == "refuse":
        check_refuse(rec, case["ctor"], case["n"], case["fill"])
    elif k == "tlvhist":
        check_tlv_history(rec, case["t"], bt(case["v"]), case["start"], case["seq"])
    elif k == "status-member":
        check_status_member(rec, case["name"])
    elif k == "status-decode":
        check_status_decode(rec, case["action"], case["status"])
    else:
        raise ValueError("unknown case kind %r" % (k,))
    return rec.result()


def finalize(tier, agg):
    c = agg["counters"]
    enum_codes = {a: enum_status_codes(a) for a in R.ACTION_CODES}
    missing = [[a, s] for a in R.ACTION_CODES for s in R.STD_STATUS_CODES[a] if s not in enum_codes[a]]
    extra = [[a, s] for a in R.ACTION_CODES for s in enum_codes[a] if s not in R.STD_STATUS_CODES[a]]
    return {
        "defined_types_swept": len(R.DEFINED_TYPES),
        "value_lengths_swept": "0..255 for CfdpTlv (x6 types), CfdpLv, FlowLabelTlv, MessageToUserTlv",
        "action_status_pairs": c.get("action_status_pairs", 0),
        "type_safety_matrix": f"{c.get('class_x_foreign_type_pairs', 0)}/30 (class, foreign type) pairs x 4 paths",
        "status_codes_in_table_5_18_but_not_in_enum_[action,status]": missing,
        "status_codes_in_enum_but_not_in_table_5_18_[action,status]": extra,
    }
